"""Fail-closed translator: the real-coded operators of deap/tools/crossover.py and deap/tools/mutation.py -> Gallina.

Tie (T) of property C10 (DESIGN.md 2.3).  The working-tree source of the two files is parsed with Python's
`ast`; the bodies of the functions in SIG are compiled, statement by statement, into the event-stream monad
`M T A` of coq/Model/C10_RealOps.v (the monad of the hand-written model) with the run-time library
coq/Model/C10_PyRt.v, generic in the number record `ops T`, and written to coq/Gen/C10_gen.v (never
committed).  coq/Proofs/C10_gen_equiv.v then proves, for every argument and every event stream,
    Gen.<f> O args s = Model.<f> O args s
and coq/Props/C10_gen.v restates the C10 theorems on the regenerated definitions.  A semantic change of the
source breaks a proof obligation; a construct outside the grammar makes the translator REFUSE (class Refuse)
and the check falls back to the correspondence tie.

Grammar (everything else is refused)
  function     def f(<exactly the parameters of SIG, no defaults, no * / **>):  no decorators
  statements   docstring | pass | x = e | a, b = e1, e2 | l[i] = e | x op= e | l[i] op= e   (op in + - * / **)
               | if c: ... [elif/else] | for <targets> in <iterable>: ... (no else) | continue
               | raise IndexError/ZeroDivisionError/TypeError/OverflowError(<message>) | return <the list parameters>
  iterables    range(n) | zip(a, b[, c[, d]]) | enumerate(zip(...)) where every zip argument is either
               range(n) / an immutable sequence / a repeat object (iterated as values), or every argument is a
               list the function may write to (iterated by index, reading the current contents)
  expressions  the constants 0 0.5 1 2 1e-14 (int or float spelling), names, l[i] (i a loop index or other
               natural-number expression), x.strategy for an evolution-strategy individual, + - * / ** unary -,
               < <= > >= on numbers / lengths, not, and/or/conditional expressions without effects inside,
               len min max abs, repeat(x, n), random.random() random.gauss(a, b) math.exp(a) math.sqrt(a),
               isinstance(x, Sequence) as (possibly negated) test of an `if`, which narrows the type of x.
Comparisons    `a > b` is `b < a` and `a >= b` is `b <= a` (exact in IEEE arithmetic, NaN included).  One normal form on top
               of that: when one operand is the unmodified result of random.random() (a name bound directly to the call,
               or the call itself) and the other a literal constant, the order is total (a draw is never NaN, 0 <= u < 1), so
               every spelling is brought to `u < c` / `u <= c`, negated where needed: `u > c` = `not u <= c`, `c <= u` =
               `not u < c`, ...  (trusted: CPython's random.random() returns a float in [0, 1)).
Types          num (T) | nat (len, range indices, sizes) | bool | list (a mutable list parameter / .strategy) |
               bnd (scalar-or-sequence parameter) | seq (immutable sequence) | iter (one-shot iterable).
A nat reaching a float operation is converted by o_ofnat (Python: int -> float, exact below 2**53).
Effects (draws, **, math.exp, / , l[i], l[i] = v) are sequenced in Python's evaluation order: operands left to
right, right-hand side before the target of an assignment, the old value of an augmented target first.
List parameters may only be modified by item assignment and are never rebound or aliased, and the function must
return exactly its list parameters: identity of the returned objects is therefore fixed by the grammar.
"""
import ast
import os
import re

REPO_FILES = {"crossover": ("deap", "tools", "crossover.py"), "mutation": ("deap", "tools", "mutation.py")}


class Refuse(Exception):
    def __init__(self, node, why, fn=None):
        self.node = type(node).__name__ if not isinstance(node, str) else node
        self.line = getattr(node, "lineno", None)
        self.why = why
        self.fn = fn
        Exception.__init__(self, "%s at line %s: %s" % (self.node, self.line, why))


def refuse(node, why):
    raise Refuse(node, why)


# ---- signature table ------------------------------------------------------------------------------
# parameter types: list (mutable list of numbers), eslist (list with a .strategy list), num, bnd
SIG = [
    ("cxBlend", "crossover", [("ind1", "list"), ("ind2", "list"), ("alpha", "num")]),
    ("cxSimulatedBinary", "crossover", [("ind1", "list"), ("ind2", "list"), ("eta", "num")]),
    ("cxSimulatedBinaryBounded", "crossover", [("ind1", "list"), ("ind2", "list"), ("eta", "num"), ("low", "bnd"), ("up", "bnd")]),
    ("mutGaussian", "mutation", [("individual", "list"), ("mu", "bnd"), ("sigma", "bnd"), ("indpb", "num")]),
    ("mutPolynomialBounded", "mutation", [("individual", "list"), ("eta", "num"), ("low", "bnd"), ("up", "bnd"), ("indpb", "num")]),
    ("cxESBlend", "crossover", [("ind1", "eslist"), ("ind2", "eslist"), ("alpha", "num")]),
    ("mutESLogNormal", "mutation", [("individual", "eslist"), ("c", "num"), ("indpb", "num")]),
]
COQTYPE = {"list": "list T", "num": "T", "bnd": "bnd (T:=T)", "nat": "nat", "seq": "list T", "iter": "list T", "bool": "bool"}
CONSTS = [(0.0, "c0"), (0.5, "half"), (1.0, "one"), (2.0, "two"), (1e-14, "eps")]
EXC = {"IndexError": "IndexErr", "ZeroDivisionError": "ZeroDiv", "TypeError": "TypeErr", "OverflowError": "Overflow"}
EXPECTED_IMPORTS = {"random": ("import", "random"), "math": ("import", "math"), "repeat": ("from", ("itertools",)),
                    "Sequence": ("from", ("collections.abc", "collections"))}
BUILTINS_USED = ("len", "min", "max", "abs", "zip", "range", "enumerate", "isinstance") + tuple(EXC)
RESERVED = set("""fun forall exists match with end if then else let in as return fix cofix struct Type Prop Set at using
where for of T O M ops res Ok Raise Stuck err ZeroDiv IndexErr TypeErr Overflow ret raise stuck bind lift stream ev
add sub mul div neg absv ltb leb c0 half one two eps sqrt ofnat pw expm pymin pymax clip draw_random draw_gauss
bnd Scalar PerGene expand getitem setitem upd for_list zip3 zip4 combine seq repeat length nat bool list option Some None
true false negb andb orb tt unit fst snd Nat S""".split()) | set(BUILTINS_USED) | set(EXPECTED_IMPORTS)
BINOPS = {ast.Add: "add", ast.Sub: "sub", ast.Mult: "mul"}


class FnTr:
    """Translator of one function body.  env: python name -> type, in insertion order (the order of the
    loop-carried state tuples)."""

    def __init__(self, env, listparams, counter=None, in_loop=False):
        self.env = dict(env)
        self.listparams = listparams      # coq names of the list parameters, in return order
        self.counter = counter if counter is not None else [0]
        self.in_loop = in_loop
        self.cont = None                  # inside a loop: tr -> text of `continue`
        self.draws = set()                # coq names that hold the unmodified result of random.random()

    def sub(self, in_loop=None):
        t = FnTr(self.env, self.listparams, self.counter, self.in_loop if in_loop is None else in_loop)
        t.cont = self.cont
        t.draws = set(self.draws)
        return t

    def temp(self):
        self.counter[0] += 1
        return "tmp%d" % self.counter[0]

    def local(self, node, name):
        if name in RESERVED or re.fullmatch(r"tmp\d+", name) or not re.fullmatch(r"[A-Za-z_][A-Za-z0-9_]*", name) \
                or name.startswith("o_") or name.endswith("_strategy") or name == "_":
            refuse(node, "local name %r clashes with the run-time library" % name)
        return name

    # ---- list places: a name of type list, or <eslist parameter>.strategy ---------------------------
    def list_place(self, e):
        """coq variable of a writable list, or None"""
        if isinstance(e, ast.Name) and self.env.get(e.id) == "list":
            return e.id
        if isinstance(e, ast.Attribute) and e.attr == "strategy" and isinstance(e.value, ast.Name) \
                and self.env.get(e.value.id + "_strategy") == "list" and self.env.get(e.value.id) == "list":
            return e.value.id + "_strategy"
        return None

    # ---- expressions: return (pure text, type); effects are appended to binds in evaluation order ----
    def num(self, e, binds):
        v, t = self.expr(e, binds)
        if t == "nat":
            return "(ofnat %s)" % v
        if t != "num":
            refuse(e, "a number is expected, found %s" % t)
        return v

    def nat(self, e, binds):
        v, t = self.expr(e, binds)
        if t != "nat":
            refuse(e, "a length / index is expected, found %s" % t)
        return v

    def effect(self, binds, m):
        x = self.temp()
        binds.append((x, m))
        return x

    def expr(self, e, binds):
        if isinstance(e, ast.Constant):
            v = e.value
            if isinstance(v, bool) or not isinstance(v, (int, float)):
                refuse(e, "constant %r" % (v,))
            for c, name in CONSTS:
                if v == c:
                    return name, "num"
            refuse(e, "numeric constant %r is not one of 0 0.5 1 2 1e-14" % (v,))
        if isinstance(e, ast.Name):
            if not isinstance(e.ctx, ast.Load):
                refuse(e, "name in store context")
            if e.id in self.env:
                t = self.env[e.id]
                if t == "iter":
                    refuse(e, "a one-shot iterable (%s) used as a value" % e.id)
                return e.id, t
            refuse(e, "unknown name %s" % e.id)
        if isinstance(e, ast.Attribute):
            p = self.list_place(e)
            if p is not None:
                return p, "list"
            refuse(e, "attribute .%s" % e.attr)
        if isinstance(e, ast.UnaryOp):
            if isinstance(e.op, ast.Not):
                v, t = self.expr(e.operand, binds)
                if t != "bool":
                    refuse(e, "not of %s" % t)
                return "(negb %s)" % v, "bool"
            if isinstance(e.op, ast.USub):
                return "(neg %s)" % self.num(e.operand, binds), "num"
            refuse(e, "unary operator %s" % type(e.op).__name__)
        if isinstance(e, ast.BinOp):
            return self.binop(e, e.op, lambda b: self.num(e.left, b), lambda b: self.num(e.right, b), binds)
        if isinstance(e, ast.Compare):
            if len(e.ops) != 1:
                refuse(e, "chained comparison")
            op = e.ops[0]
            a, ta = self.expr(e.left, binds)
            b, tb = self.expr(e.comparators[0], binds)
            form = {ast.Lt: ("ltb", a, b), ast.LtE: ("leb", a, b), ast.Gt: ("ltb", b, a), ast.GtE: ("leb", b, a)}.get(type(op))
            if form is None:
                refuse(e, "comparison %s" % type(op).__name__)
            if ta == "nat" and tb == "nat":
                return "(Nat.%s %s %s)" % form, "bool"
            if ta in ("num", "nat") and tb in ("num", "nat"):
                ca = "(ofnat %s)" % a if ta == "nat" else a
                cb = "(ofnat %s)" % b if tb == "nat" else b
                # a draw of random.random() (never NaN: 0 <= u < 1) against a literal constant: the order is total, so
                # every spelling is brought to the form the draw on the left, `<` or `<=`, possibly negated
                # (d > c  is  not d <= c;  c <= d  is  not d < c; ...)
                lconst = isinstance(e.left, ast.Constant)
                rconst = isinstance(e.comparators[0], ast.Constant)
                if a in self.draws and rconst:
                    form2 = {ast.Lt: "(ltb %s %s)", ast.LtE: "(leb %s %s)", ast.Gt: "(negb (leb %s %s))", ast.GtE: "(negb (ltb %s %s))"}
                    return form2[type(op)] % (a, cb), "bool"
                if b in self.draws and lconst:
                    form2 = {ast.Gt: "(ltb %s %s)", ast.GtE: "(leb %s %s)", ast.Lt: "(negb (leb %s %s))", ast.LtE: "(negb (ltb %s %s))"}
                    return form2[type(op)] % (b, ca), "bool"
                swap = isinstance(op, (ast.Gt, ast.GtE))
                return "(%s %s %s)" % (form[0], cb if swap else ca, ca if swap else cb), "bool"
            refuse(e, "comparison of %s with %s" % (ta, tb))
        if isinstance(e, ast.BoolOp):
            n = len(binds)
            vs = [self.expr(v, binds) for v in e.values]
            if len(binds) != n:
                refuse(e, "effects inside and/or")
            if any(t != "bool" for _, t in vs):
                refuse(e, "and/or on non-boolean operands")
            f = "andb" if isinstance(e.op, ast.And) else "orb"
            out = vs[-1][0]
            for v, _ in reversed(vs[:-1]):
                out = "(%s %s %s)" % (f, v, out)
            return out, "bool"
        if isinstance(e, ast.IfExp):
            c, tc = self.expr(e.test, binds)
            if tc != "bool":
                refuse(e, "condition of type %s" % tc)
            n = len(binds)
            a, ta = self.expr(e.body, binds)
            b, tb = self.expr(e.orelse, binds)
            if len(binds) != n:
                refuse(e, "effects inside a conditional expression")
            if ta != tb or ta not in ("num", "nat", "bool"):
                refuse(e, "conditional expression of types %s, %s" % (ta, tb))
            return "(if %s then %s else %s)" % (c, a, b), ta
        if isinstance(e, ast.Subscript):
            if not isinstance(e.ctx, ast.Load):
                refuse(e, "subscript in store context")
            return self.load_item(e, binds), "num"
        if isinstance(e, ast.Call):
            return self.call(e, binds)
        refuse(e, "expression outside the grammar")

    def binop(self, node, op, left, right, binds):
        if type(op) in BINOPS:
            a = left(binds)
            b = right(binds)
            return "(%s %s %s)" % (BINOPS[type(op)], a, b), "num"
        if isinstance(op, ast.Div):
            a = left(binds)
            b = right(binds)
            return self.effect(binds, "div %s %s" % (a, b)), "num"
        if isinstance(op, ast.Pow):
            a = left(binds)
            b = right(binds)
            return self.effect(binds, "pw %s %s" % (a, b)), "num"
        refuse(node, "binary operator %s" % type(op).__name__)

    def item_place(self, e, binds):
        """subscript -> (coq list variable, writable?, index text)"""
        if isinstance(e.slice, (ast.Slice, ast.Tuple)):
            refuse(e, "slice")
        p = self.list_place(e.value)
        writable = p is not None
        if p is None:
            if isinstance(e.value, ast.Name) and self.env.get(e.value.id) == "seq":
                p = e.value.id
            else:
                refuse(e, "subscript of something that is not a list")
        i = self.nat(e.slice, binds)
        return p, writable, i

    def load_item(self, e, binds):
        p, _, i = self.item_place(e, binds)
        return self.effect(binds, "getitem %s %s" % (p, i))

    def plain_args(self, e, n):
        if e.keywords or len(e.args) != n or any(isinstance(a, ast.Starred) for a in e.args):
            refuse(e, "call with unexpected arguments")

    def call(self, e, binds):
        f = e.func
        if isinstance(f, ast.Attribute) and isinstance(f.value, ast.Name) and f.value.id not in self.env:
            mod, meth = f.value.id, f.attr
            if mod == "random" and meth == "random":
                self.plain_args(e, 0)
                x = self.effect(binds, "draw_random")
                self.draws.add(x)
                return x, "num"
            if mod == "random" and meth == "gauss":
                self.plain_args(e, 2)
                a = self.num(e.args[0], binds)
                b = self.num(e.args[1], binds)
                return self.effect(binds, "draw_gauss %s %s" % (a, b)), "num"
            if mod == "math" and meth == "exp":
                self.plain_args(e, 1)
                a = self.num(e.args[0], binds)
                return self.effect(binds, "expm %s" % a), "num"
            if mod == "math" and meth == "sqrt":
                self.plain_args(e, 1)
                return "(sqrt %s)" % self.num(e.args[0], binds), "num"
            refuse(e, "call of %s.%s" % (mod, meth))
        if isinstance(f, ast.Name) and f.id not in self.env:
            if f.id == "len":
                self.plain_args(e, 1)
                v, t = self.expr(e.args[0], binds)
                if t not in ("list", "seq"):
                    refuse(e, "len of %s" % t)
                return "(length %s)" % v, "nat"
            if f.id in ("min", "max"):
                self.plain_args(e, 2)
                a, ta = self.expr(e.args[0], binds)
                b, tb = self.expr(e.args[1], binds)
                if ta == "nat" and tb == "nat":
                    return "(Nat.%s %s %s)" % (f.id, a, b), "nat"
                if ta == "num" and tb == "num":
                    return "(py%s %s %s)" % (f.id, a, b), "num"
                refuse(e, "%s of %s and %s" % (f.id, ta, tb))
            if f.id == "abs":
                self.plain_args(e, 1)
                v, t = self.expr(e.args[0], binds)
                if t != "num":
                    refuse(e, "abs of %s" % t)
                return "(absv %s)" % v, "num"
            if f.id == "repeat":
                self.plain_args(e, 2)
                v, t = self.expr(e.args[0], binds)
                if t != "num":
                    refuse(e, "repeat of %s" % t)
                n = self.nat(e.args[1], binds)
                return "(repeat %s %s)" % (v, n), "iter"
            refuse(e, "call of %s" % f.id)
        refuse(e, "call outside the grammar")

    # ---- statements ------------------------------------------------------------------------------
    @staticmethod
    def chain(binds):
        return "".join("%s <- %s ;;\n" % b for b in binds)

    @staticmethod
    def terminates(stmts):
        if not stmts:
            return False
        s = stmts[-1]
        if isinstance(s, (ast.Return, ast.Raise, ast.Continue)):
            return True
        if isinstance(s, ast.If):
            return FnTr.terminates(s.body) and FnTr.terminates(s.orelse)
        return False

    def assigned(self, stmts):
        """coq variables (of the enclosing environment or new) a statement list may assign, in first-seen order"""
        out = []

        def add(v):
            if v not in out:
                out.append(v)

        def target(t):
            if isinstance(t, ast.Name):
                add(t.id)
            elif isinstance(t, ast.Subscript):
                p = self.list_place(t.value)
                if p is None:
                    refuse(t, "item assignment to something that is not a list parameter")
                add(p)
            elif isinstance(t, ast.Tuple):
                for x in t.elts:
                    target(x)
            else:
                refuse(t, "assignment target")
        for s in stmts:
            if isinstance(s, ast.Assign):
                for t in s.targets:
                    target(t)
            elif isinstance(s, ast.AugAssign):
                target(s.target)
            elif isinstance(s, ast.If):
                for v in self.assigned(s.body) + self.assigned(s.orelse):
                    add(v)
            elif isinstance(s, ast.For):
                target(s.target)
                for v in self.assigned(s.body):
                    add(v)
            elif isinstance(s, (ast.Expr, ast.Pass, ast.Return, ast.Raise, ast.Continue)):
                pass
            else:
                refuse(s, "statement outside the grammar")
        return out

    def set_local(self, node, name, t):
        self.local(node, name)
        if self.env.get(name) == "list" or t == "list":
            refuse(node, "a list is rebound or aliased (%s)" % name)
        if t not in ("num", "nat", "bool", "iter", "seq"):
            refuse(node, "local of type %s" % t)
        self.env[name] = t
        self.draws.discard(name)

    def assign(self, s):
        """Assign / AugAssign -> text (ending in newline) of binds and lets; updates env"""
        if isinstance(s, ast.AugAssign):
            t = s.target
            binds = []
            if isinstance(t, ast.Name):
                old, told = self.expr(ast.copy_location(ast.Name(id=t.id, ctx=ast.Load()), t), binds)
                if told not in ("num", "nat"):
                    refuse(s, "augmented assignment to %s" % told)
                oldf = lambda b: old if told == "num" else "(ofnat %s)" % old
                v, vt = self.binop(s, s.op, oldf, lambda b: self.num(s.value, b), binds)
                return self.bind_name(s, t.id, v, vt, binds)
            if isinstance(t, ast.Subscript):
                p, writable, i = self.item_place(t, binds)
                if not writable:
                    refuse(s, "item assignment to an immutable sequence")
                old = self.effect(binds, "getitem %s %s" % (p, i))
                v, vt = self.binop(s, s.op, lambda b: old, lambda b: self.num(s.value, b), binds)
                return self.chain(binds) + "%s <- setitem %s %s %s ;;\n" % (p, p, i, v)
            refuse(s, "augmented assignment target")
        if len(s.targets) != 1:
            refuse(s, "multiple assignment")
        t = s.targets[0]
        if isinstance(t, ast.Tuple):
            if not isinstance(s.value, ast.Tuple) or len(s.value.elts) != len(t.elts) or \
                    any(isinstance(x, ast.Starred) for x in list(t.elts) + list(s.value.elts)):
                refuse(s, "tuple assignment that is not name-by-name")
            binds = []
            vals = []
            for v in s.value.elts:
                x, xt = self.expr(v, binds)
                if xt not in ("num", "nat"):
                    refuse(v, "tuple assignment of %s" % xt)
                # freeze the value now (a later target may overwrite what a pure text refers to)
                y = self.temp()
                binds.append((y, "ret %s" % x))
                vals.append((y, xt))
            out = self.chain(binds)
            for tg, (y, yt) in zip(t.elts, vals):
                out += self.store_one(s, tg, y, yt)
            return out
        binds = []
        v, vt = self.expr(s.value, binds)
        if isinstance(t, ast.Name):
            return self.bind_name(s, t.id, v, vt, binds)
        return self.chain(binds) + self.store_one(s, t, v, vt)

    def bind_name(self, s, name, v, vt, binds):
        is_draw = v in self.draws
        self.set_local(s, name, vt)
        if is_draw:
            self.draws.add(name)          # x = random.random()  (also x = y for a draw y)
        if binds and binds[-1][0] == v:
            return self.chain(binds[:-1]) + "%s <- %s ;;\n" % (name, binds[-1][1])
        return self.chain(binds) + "let %s := %s in\n" % (name, v)

    def store_one(self, s, t, v, vt):
        if isinstance(t, ast.Name):
            self.set_local(s, t.id, vt)
            return "let %s := %s in\n" % (t.id, v)
        if isinstance(t, ast.Subscript):
            binds = []
            p, writable, i = self.item_place(ast.copy_location(ast.Subscript(value=t.value, slice=t.slice, ctx=ast.Load()), t), binds)
            if not writable:
                refuse(s, "item assignment to an immutable sequence")
            if vt == "nat":
                v = "(ofnat %s)" % v
            elif vt != "num":
                refuse(s, "item assignment of %s" % vt)
            return self.chain(binds) + "%s <- setitem %s %s %s ;;\n" % (p, p, i, v)
        refuse(t, "assignment target")

    @staticmethod
    def tup(vs):
        return "tt" if not vs else vs[0] if len(vs) == 1 else "(%s)" % ", ".join(vs)

    @staticmethod
    def pat(vs):
        return "_" if not vs else vs[0] if len(vs) == 1 else "'(%s)" % ", ".join(vs)

    def join(self, node, v, ta, tb):
        if ta == tb:
            return ta
        if {ta, tb} <= {"iter", "seq"}:
            return "iter"
        refuse(node, "%s has different types in the two branches (%s, %s)" % (v, ta, tb))

    def block(self, stmts, fall, ind):
        """Gallina text of type M T _ for the statement list; fall(tr) is the text used when control falls off
        the end, cont(tr) (attribute, inside loops) the text of `continue`."""
        pad = "  " * ind
        ind_text = lambda txt: "".join(pad + l + "\n" for l in txt.splitlines())
        if not stmts:
            return pad + fall(self)
        s, rest = stmts[0], stmts[1:]
        if isinstance(s, ast.Expr):
            if isinstance(s.value, ast.Constant) and isinstance(s.value.value, str):
                return self.block(rest, fall, ind)
            refuse(s, "expression statement")
        if isinstance(s, ast.Pass):
            return self.block(rest, fall, ind)
        if isinstance(s, ast.Return):
            if rest:
                refuse(rest[0], "unreachable statement")
            if self.in_loop:
                refuse(s, "return inside a loop")
            v = s.value
            names = []
            if isinstance(v, ast.Tuple) and all(isinstance(x, ast.Name) for x in v.elts):
                names = [x.id for x in v.elts]
            want = [p for p in self.listparams if not p.endswith("_strategy")]
            if names != want:
                refuse(s, "the function does not return exactly its list parameters %r" % (want,))
            return pad + "ret %s" % self.tup(self.listparams)
        if isinstance(s, ast.Continue):
            if rest:
                refuse(rest[0], "unreachable statement")
            if not self.in_loop:
                refuse(s, "continue outside a loop")
            return pad + self.cont(self)
        if isinstance(s, ast.Raise):
            if rest:
                refuse(rest[0], "unreachable statement")
            x = s.exc
            if s.cause is not None or x is None:
                refuse(s, "raise form")
            if isinstance(x, ast.Call):
                if x.keywords:
                    refuse(s, "exception arguments")
                for a in x.args:
                    self.harmless_message(a)
                x = x.func
            if not (isinstance(x, ast.Name) and x.id in EXC and x.id not in self.env):
                refuse(s, "exception type")
            return pad + "raise %s" % EXC[x.id]
        if isinstance(s, (ast.Assign, ast.AugAssign)):
            return ind_text(self.assign(s)) + self.block(rest, fall, ind)
        if isinstance(s, ast.If):
            return self.if_stmt(s, rest, fall, ind)
        if isinstance(s, ast.For):
            return self.for_stmt(s, rest, fall, ind)
        refuse(s, "statement outside the grammar")

    def harmless_message(self, a):
        """argument of an exception constructor: evaluated by Python but without effect or failure"""
        for n in ast.walk(a):
            if isinstance(n, ast.Constant) and isinstance(n.value, (str, int)) and not isinstance(n.value, bool):
                continue
            if isinstance(n, (ast.Tuple, ast.Load, ast.Mod)):
                continue
            if isinstance(n, ast.BinOp) and isinstance(n.op, ast.Mod) and isinstance(n.left, ast.Constant) and isinstance(n.left.value, str):
                continue
            if isinstance(n, ast.Name) and (self.env.get(n.id) in ("nat", "num") or (n.id == "len" and "len" not in self.env)):
                continue
            if isinstance(n, ast.Call) and isinstance(n.func, ast.Name) and n.func.id == "len" and len(n.args) == 1 and not n.keywords \
                    and isinstance(n.args[0], ast.Name) and self.env.get(n.args[0].id) in ("list", "seq"):
                continue
            if isinstance(n, ast.Name) and self.env.get(n.id) in ("list", "seq"):
                continue
            refuse(n, "exception message outside the grammar")

    def if_stmt(self, s, rest, fall, ind):
        pad = "  " * ind
        # isinstance(x, Sequence) / not isinstance(x, Sequence) on a scalar-or-sequence parameter: narrows x
        test, neg = s.test, False
        if isinstance(test, ast.UnaryOp) and isinstance(test.op, ast.Not):
            test, neg = test.operand, True
        narrowed = None
        if isinstance(test, ast.Call) and isinstance(test.func, ast.Name) and test.func.id == "isinstance" and "isinstance" not in self.env:
            self.plain_args(test, 2)
            x, cls = test.args
            if not (isinstance(cls, ast.Name) and cls.id == "Sequence" and "Sequence" not in self.env):
                refuse(test, "isinstance against something other than Sequence")
            if not (isinstance(x, ast.Name) and self.env.get(x.id) == "bnd"):
                refuse(test, "isinstance of something that is not a scalar-or-sequence parameter")
            narrowed = x.id
            pre = ""
        else:
            binds = []
            c, tc = self.expr(s.test, binds)
            if tc != "bool":
                refuse(s, "condition of type %s" % tc)
            pre = "".join(pad + "%s <- %s ;;\n" % b for b in binds)
        a, b = self.sub(), self.sub()
        if narrowed is not None:
            # then-branch: the sequence (or, negated, the scalar)
            a.env[narrowed] = "num" if neg else "seq"
            b.env[narrowed] = "seq" if neg else "num"

        def render(ta, tb_):
            if narrowed is None:
                return "if %s then (\n%s\n%s) else (\n%s\n%s)" % (c, ta, pad, tb_, pad)
            sc, sq = ("Scalar", "PerGene")
            first, second = (ta, tb_) if neg else (tb_, ta)      # first = scalar branch
            return "match %s with\n%s| %s %s => (\n%s\n%s)\n%s| %s %s => (\n%s\n%s)\n%send" % (
                narrowed, pad, sc, narrowed, first, pad, pad, sq, narrowed, second, pad, pad)
        tb, te = self.terminates(s.body), self.terminates(s.orelse)
        if tb or te:
            if tb and te and rest:
                refuse(rest[0], "unreachable statement")
            ta = a.block(list(s.body) + ([] if tb else list(rest)), fall, ind + 1)
            tb_ = b.block(list(s.orelse) + ([] if te else list(rest)), fall, ind + 1)
            return pre + pad + render(ta, tb_)
        # neither branch terminates: thread the variables assigned in a branch and defined after both
        cand = self.assigned(s.body)
        for v in self.assigned(s.orelse):
            if v not in cand:
                cand.append(v)
        box = {}

        def out(tr):
            box.setdefault("envs", []).append(dict(tr.env))
            return "@@JOIN%d@@" % (len(box["envs"]) - 1)
        ta = a.block(list(s.body), out, ind + 1)
        tb_ = b.block(list(s.orelse), out, ind + 1)
        envs = box["envs"]
        vs = [v for v in cand if all(v in e for e in envs)]
        vs = [v for v in self.env if v in vs] + [v for v in vs if v not in self.env]     # stable order
        for v in vs:
            t = envs[0][v]
            for e in envs[1:]:
                t = self.join(s, v, t, e[v])
            if self.env.get(v) == "list" or t == "list":
                if t != "list" or self.env.get(v) != "list":
                    refuse(s, "list %s rebound" % v)
                continue
            self.local(s, v)
            self.env[v] = t
            self.draws.discard(v)
        txt = render(ta, tb_)
        for k in range(len(envs)):
            txt = txt.replace("@@JOIN%d@@" % k, "ret %s" % self.tup(vs))
        return pre + pad + "%s <- (%s) ;;\n" % (self.pat(vs), txt) + self.block(rest, fall, ind)

    def for_stmt(self, s, rest, fall, ind):
        pad = "  " * ind
        if s.orelse:
            refuse(s, "for ... else")
        it, target = s.iter, s.target
        enum = False
        if isinstance(it, ast.Call) and isinstance(it.func, ast.Name) and it.func.id == "enumerate" and "enumerate" not in self.env:
            self.plain_args(it, 1)
            if not (isinstance(target, ast.Tuple) and len(target.elts) == 2 and isinstance(target.elts[0], ast.Name)):
                refuse(target, "enumerate target")
            enum = target.elts[0].id
            it, target = it.args[0], target.elts[1]
        pre = []
        # classify the iterable
        if isinstance(it, ast.Call) and isinstance(it.func, ast.Name) and it.func.id == "zip" and "zip" not in self.env:
            if it.keywords or not 2 <= len(it.args) <= 4 or any(isinstance(a, ast.Starred) for a in it.args):
                refuse(it, "zip of %d arguments" % len(it.args))
            args = list(it.args)
            if not (isinstance(target, ast.Tuple) and len(target.elts) == len(args)):
                refuse(target, "loop target does not unpack %d values" % len(args))
            targets = list(target.elts)
        else:
            args, targets = [it], [target]
        if not all(isinstance(t, ast.Name) for t in targets):
            refuse(target, "loop target")
        tnames = [t.id for t in targets]
        carried_all = self.assigned(s.body)
        kinds = []
        for a in args:
            p = self.list_place(a)
            if p is not None:
                kinds.append(("live", p, None))
            elif isinstance(a, ast.Call) and isinstance(a.func, ast.Name) and a.func.id == "range" and "range" not in self.env:
                self.plain_args(a, 1)
                n = self.nat(a.args[0], pre)
                kinds.append(("range", "(seq 0 %s)" % n, n))
            elif isinstance(a, ast.Name) and self.env.get(a.id) in ("seq", "iter"):
                if a.id in carried_all:
                    refuse(a, "the loop rebinds the sequence it iterates over")
                kinds.append(("snap", a.id, None))
            else:
                refuse(a, "iterable outside the grammar")
        if pre:
            refuse(s, "effects in the iterable")
        live = [k for k in kinds if k[0] == "live"]
        if live and len(live) != len(kinds):
            refuse(s, "zip mixes lists the function writes to with other iterables")
        names = tnames + ([enum] if enum else [])
        if len(set(names)) != len(names):
            refuse(target, "repeated name in loop target")
        for n in names:
            self.local(target, n)
            if n in self.env:
                refuse(target, "loop target %s shadows a variable" % n)
        carried = [v for v in self.env if v in carried_all]
        for v in carried:
            if self.env[v] not in ("list", "num", "nat", "bool"):
                refuse(s, "loop-carried variable %s of type %s" % (v, self.env[v]))
        for v in carried:
            self.draws.discard(v)         # its value at the top of an iteration may come from the previous one
        body = self.sub(in_loop=True)
        body.cont = lambda tr: "ret %s" % self.tup(carried)
        head = ""
        if live:
            idx = enum or self.temp()
            n = "(length %s)" % live[0][1]
            for k in live[1:]:
                n = "(Nat.min %s (length %s))" % (n, k[1])
            xs = "(seq 0 %s)" % n
            body.env[idx] = "nat"
            item = idx
            for t, k in zip(tnames, live):
                body.env[t] = "num"
                head += "  " * (ind + 2) + "%s <- getitem %s %s ;;\n" % (t, k[1], idx)
        else:
            if enum:
                refuse(s, "enumerate over values")
            if len(kinds) == 1:
                xs = kinds[0][1]
            else:
                xs = "(%s %s)" % ({2: "combine", 3: "zip3", 4: "zip4"}[len(kinds)], " ".join(k[1] for k in kinds))
            for t, k in zip(tnames, kinds):
                body.env[t] = "nat" if k[0] == "range" else "num"
            item = tnames[0] if len(tnames) == 1 else "'(%s)" % ", ".join(tnames)
        init_types = {v: self.env[v] for v in carried}

        def loop_fall(tr):
            for v in carried:
                if tr.env.get(v) != init_types[v]:
                    refuse(s, "loop-carried variable %s changes type" % v)
            return "ret %s" % self.tup(carried)
        btxt = body.block(list(s.body), loop_fall, ind + 2)
        for k in kinds:
            if k[0] == "snap" and self.env.get(k[1]) == "iter":
                del self.env[k[1]]           # a one-shot iterable is consumed by the loop
        txt = pad + "%s <- for_list %s\n" % (self.pat(carried), xs)
        txt += pad + "  (fun %s %s =>\n" % (item, self.pat(carried) if carried else "_")
        txt += head + btxt + ")\n"
        txt += pad + "  %s ;;\n" % self.tup(carried)
        return txt + self.block(rest, fall, ind)


# ---- module level ----------------------------------------------------------------------------------
def check_bindings(tree, origin):
    """The names the translation gives a fixed meaning to must be bound at module level exactly as expected and
    not rebound; `global` / `nonlocal` anywhere in the file is refused."""
    bound = {}

    def note(name, how, node):
        bound.setdefault(name, []).append((how, node))

    def toplevel(stmts):
        for n in stmts:
            if isinstance(n, ast.Import):
                for a in n.names:
                    note((a.asname or a.name).split(".")[0], ("import", a.name, a.asname), n)
            elif isinstance(n, ast.ImportFrom):
                for a in n.names:
                    if a.name == "*":
                        refuse(n, "star import in %s" % origin)
                    note(a.asname or a.name, ("from", n.module, a.name), n)
            elif isinstance(n, (ast.FunctionDef, ast.AsyncFunctionDef, ast.ClassDef)):
                note(n.name, ("def",), n)
            elif isinstance(n, ast.Try):
                toplevel(n.body)
                for h in n.handlers:
                    if h.name:
                        note(h.name, ("assign",), h)
                    toplevel(h.body)
                toplevel(n.orelse)
                toplevel(n.finalbody)
            elif isinstance(n, ast.If):
                toplevel(n.body)
                toplevel(n.orelse)
            else:
                # any other module-level statement: every name it can bind
                for m in ast.walk(n):
                    if isinstance(m, ast.Name) and isinstance(m.ctx, (ast.Store, ast.Del)):
                        note(m.id, ("assign",), m)
                    elif isinstance(m, (ast.Import, ast.ImportFrom)):
                        toplevel([m])
                    elif isinstance(m, (ast.FunctionDef, ast.AsyncFunctionDef, ast.ClassDef)):
                        note(m.name, ("def",), m)
    toplevel(tree.body)
    for n in ast.walk(tree):
        if isinstance(n, (ast.Global, ast.Nonlocal)):
            refuse(n, "global/nonlocal declaration in %s" % origin)
    for b in BUILTINS_USED:
        if b in bound:
            refuse(bound[b][0][1], "builtin %s is rebound in %s" % (b, origin))
    return bound


def check_import(bound, name, origin):
    kind, mods = EXPECTED_IMPORTS[name]
    bs = bound.get(name, [])
    if not bs:
        refuse("Module", "%s is not imported in %s" % (name, origin))
    for how, node in bs:
        if kind == "import":
            if how != ("import", mods, None):
                refuse(node, "%s is bound by something other than `import %s`" % (name, mods))
        else:
            if not (how[0] == "from" and how[1] in mods and how[2] == name):
                refuse(node, "%s is bound by something other than `from %s import %s`" % (name, mods[0], name))


def names_used(fn):
    return {n.id for n in ast.walk(fn) if isinstance(n, ast.Name)}


def translate_function(fn, params, bound, origin):
    a = fn.args
    if fn.decorator_list or a.posonlyargs or a.kwonlyargs or a.kw_defaults or a.defaults or a.vararg or a.kwarg:
        refuse(fn, "function header (decorators / defaults / * / **)")
    if [x.arg for x in a.args] != [p for p, _ in params]:
        refuse(fn, "parameters %r, expected %r" % ([x.arg for x in a.args], [p for p, _ in params]))
    for n in ast.walk(fn):
        if n is not fn and isinstance(n, (ast.FunctionDef, ast.AsyncFunctionDef, ast.Lambda, ast.ClassDef, ast.ListComp,
                                          ast.GeneratorExp, ast.SetComp, ast.DictComp, ast.NamedExpr, ast.Yield, ast.YieldFrom,
                                          ast.Await, ast.Try, ast.With, ast.While, ast.Delete, ast.Import, ast.ImportFrom,
                                          ast.Break, ast.Assert, ast.Starred)):
            refuse(n, "construct outside the grammar")
    for nm in names_used(fn) & set(EXPECTED_IMPORTS):
        check_import(bound, nm, origin)
    env, binders, listparams = {}, [], []
    for p, t in params:
        if p in RESERVED:
            refuse(fn, "parameter name %s" % p)
        if t == "eslist":
            env[p] = "list"
            env[p + "_strategy"] = "list"
            binders += ["(%s : list T)" % p, "(%s_strategy : list T)" % p]
            listparams += [p, p + "_strategy"]
        else:
            env[p] = t
            binders.append("(%s : %s)" % (p, COQTYPE[t]))
            if t == "list":
                listparams.append(p)
    tr = FnTr(env, listparams)

    def no_fall(t):
        refuse(fn, "control reaches the end of the function without return")
    body = tr.block(list(fn.body), no_fall, 2)
    rett = " * ".join("list T" for _ in listparams)
    return "  Definition %s %s : M T (%s) :=\n%s.\n\n" % (fn.name, " ".join(binders), rett, body)


HEADER = """(* GENERATED by harness/c10_py2coq.py from %s -- do not edit, never committed *)
From Coq Require Import List Bool Arith.
From DV Require Import Model.C10_RealOps Model.C10_PyRt.
Import ListNotations.
Local Open Scope m_scope.

Section Gen.
  Context {T : Type} (O : ops T).
  Local Notation add := (o_add T O).
  Local Notation sub := (o_sub T O).
  Local Notation mul := (o_mul T O).
  Local Notation div a b := (lift (o_div T O a b)).
  Local Notation neg := (o_neg T O).
  Local Notation absv := (o_abs T O).
  Local Notation ltb := (o_ltb T O).
  Local Notation leb := (o_leb T O).
  Local Notation c0 := (o_c0 T O).
  Local Notation half := (o_half T O).
  Local Notation one := (o_one T O).
  Local Notation two := (o_two T O).
  Local Notation eps := (o_eps T O).
  Local Notation sqrt := (o_sqrt T O).
  Local Notation ofnat := (o_ofnat T O).
  Local Notation pw := (o_pw T O).
  Local Notation expm := (o_exp T O).
  Local Notation pymin := (pymin O).
  Local Notation pymax := (pymax O).
  Local Notation draw_random := (draw_random (T:=T)).
  Local Notation draw_gauss := (draw_gauss O).

"""


def translate_sources(sources, only=None):
    """{'crossover': text, 'mutation': text} -> (Gallina text, [names translated]).  Raises Refuse (with .fn set to
    the function being translated, or None for a module-level refusal)."""
    trees, bounds = {}, {}
    for mod, src in sources.items():
        try:
            trees[mod] = ast.parse(src)
        except SyntaxError as e:
            raise Refuse("Module", "syntax error in %s: %s" % (mod, e))
        bounds[mod] = check_bindings(trees[mod], mod)
    out = HEADER % ", ".join("deap/tools/%s.py" % m for m in sorted(sources))
    done = []
    for name, mod, params in SIG:
        if only is not None and name not in only:
            continue
        defs = [n for n in trees[mod].body if isinstance(n, ast.FunctionDef) and n.name == name]
        try:
            if len(defs) != 1 or len(bounds[mod].get(name, [])) != 1:
                refuse("Module", "%s is defined %d times at module level in %s" % (name, len(bounds[mod].get(name, [])), mod))
            out += translate_function(defs[0], params, bounds[mod], mod)
        except Refuse as r:
            r.fn = name
            raise
        done.append(name)
    out += "End Gen.\n"
    return out, done


def read_sources(repo):
    return {m: open(os.path.join(repo, *p)).read() for m, p in REPO_FILES.items()}


def translate_repo(repo):
    """Full text of coq/Gen/C10_gen.v for the working tree `repo` (raises Refuse)."""
    return translate_sources(read_sources(repo))[0]


if __name__ == "__main__":
    import sys
    print(translate_repo(sys.argv[1] if len(sys.argv) > 1 else "/repo"))
