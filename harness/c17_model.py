"""C17 model part: the DEAP program `modelga` (c17_families.py) on explicit draw lists, in fresh processes,
uninterrupted / killed after every k and resumed / with pool maps — every boundary recomputed by
coq/Model/C17_Repro.v inside coqc (Corr/C17.v)."""
import os

from vlib import cz, czl, cnat, cnatl, cbool, clist, cpair


def cbl01(g):
    return clist([cbool(b) for b in g])


def cparams(p, stream):
    return "(mkparams %s %s %s %s %s %s %s %s %s)" % (
        cnat(p["tournsize"]), cpair(cz(p["cxpb"][0]), cz(p["cxpb"][1])), cpair(cz(p["mutpb"][0]), cz(p["mutpb"][1])),
        cpair(cz(p["indpb"][0]), cz(p["indpb"][1])), czl(p["weights"]), cz(p["evkind"]), cnat(p["lambda_"]), cnat(p["mu"]),
        czl(stream))


def czll(ll):
    return clist([czl(l) for l in ll])


def gen_config(rng, i):
    """structured, mostly small configurations; edge cases: population of 1 or odd size, genome length 2,
    tournament size 1, probabilities 0 and 1, hall of fame of size 1, duplicate genomes, minimising weights"""
    n = rng.choice([1, 2, 3, 4, 5, 6, 6, 7, 8])
    L = rng.choice([2, 3, 4, 5, 6, 8])
    evkind = rng.choice([0, 0, 1])
    weights = [rng.choice([1, 1, -1, 2])] if evkind == 0 else [rng.choice([1, -1]), rng.choice([1, -1, 3])]
    dy = [(0, 1), (1, 1), (1, 2), (1, 4), (3, 4), (1, 8), (5, 8)]
    varied = rng.random() < 0.25
    pop0 = []
    for _ in range(n):
        if pop0 and rng.random() < 0.3:
            pop0.append(list(rng.choice(pop0)))
        else:
            ln = L if not varied else rng.randint(2, L)
            pop0.append([rng.randint(0, 1) for _ in range(ln)])
    p = {"tournsize": rng.choice([1, 2, 2, 3]), "cxpb": rng.choice(dy), "mutpb": rng.choice(dy),
         "indpb": rng.choice(dy), "weights": weights, "evkind": evkind, "hofsize": rng.choice([1, 2, 3, 5]),
         "pop0": pop0}
    # loop shape: 0 = eaSimple generation, 1 = (mu+lambda), 2 = (mu,lambda) with algorithms.varOr
    p["loop"] = (0, 1, 2)[i % 3] if rng.random() < 0.8 else rng.choice([0, 1, 2])
    p["mu"] = rng.randint(2, 6)
    p["lambda_"] = p["mu"] + rng.randint(0, 4)
    if p["loop"]:
        # varOr requires cxpb + mutpb <= 1 and samples two distinct parents
        pairs = [(a, b) for a in dy for b in dy if a[0] * b[1] + b[0] * a[1] <= a[1] * b[1]]
        p["cxpb"], p["mutpb"] = rng.choice(pairs)
        while len(p["pop0"]) < 2:
            p["pop0"].append([rng.randint(0, 1) for _ in range(L)])
        n = max(len(p["pop0"]), p["mu"], p["lambda_"])
    ngen = rng.choice([1, 2, 3, 4, 5])
    # fixed corners, always present: single individual; genome of length 2 with certain crossover; certain mutation of
    # every gene; nothing ever varies (all offspring stay valid: zero evaluation tasks); hall of fame of one
    if i < 4:
        p["loop"] = 0
    if i == 0:
        p.update(pop0=[[1, 0, 1]], tournsize=3, hofsize=1)
        n, L = 1, 3
    elif i == 1:
        p.update(pop0=[[0, 1], [1, 0], [1, 1]], cxpb=(1, 1), mutpb=(0, 1))
        n, L = 3, 2
    elif i == 2:
        p.update(mutpb=(1, 1), indpb=(1, 1), cxpb=(0, 1))
    elif i == 3:
        p.update(mutpb=(0, 1), cxpb=(0, 1), hofsize=1)
    need = (ngen + 1) * (n * p["tournsize"] + 2 * n + n * (L + 5)) + 16
    stream = []
    for _ in range(need):
        m = rng.random()
        if m < 0.1:
            stream.append(rng.choice([0, 1, 2 ** 32 - 1, 2 ** 31, 2 ** 30, 2 ** 29]))   # boundaries of the dyadic tests
        else:
            stream.append(rng.randrange(2 ** 32))
    return p, ngen, stream


def model_part(run, jobs):
    rng = run.rng
    ncfg = run.scale(16, 120)
    protocols_all = [0, 1, 2, 3, 4, 5]
    ckroot = os.path.join(jobs.dir, "mck")
    plan = []
    for i in range(ncfg):
        p, ngen, stream = gen_config(rng, i)
        base = {"family": "modelga", "params": p, "seed": 0, "ngen": ngen, "stream": stream}
        ck = os.path.join(ckroot, "c%d" % i)
        os.makedirs(ck, exist_ok=True)
        e = {"i": i, "p": p, "ngen": ngen, "stream": stream, "ck": ck, "base": base}
        e["full"] = jobs.submit(dict(base, mode="full"))
        e["protocol"] = {k: rng.choice(protocols_all) for k in range(ngen + 1)}
        e["save"] = {k: jobs.submit(dict(base, mode="save", k=k, protocols=[e["protocol"][k]], ckpt=ck))
                     for k in range(ngen + 1)}
        w = rng.randint(1, 8)
        e["sched"] = {"workers": w, "pool_kind": rng.choice(["mp", "cf", "mp_imap", "mp_spawn"]), "delay_seed": rng.randrange(10 ** 6)}
        e["pool"] = jobs.submit(dict(base, mode="pool", **e["sched"]))
        plan.append(e)

    terms, cases = [], []

    def add(term, case, nontrivial=True):
        terms.append(term)
        cases.append(case)
        run.note_case(case, nontrivial)

    def good(r, what, case):
        if r["res"] is None or r["res"]["error"] is not None:
            run.broken.append({"kind": "harness_exception", "where": ["c17_families.py modelga %s" % what],
                               "log": str((r["res"] or {}).get("error") or r["log"])[-2500:], "case": case})
            return False
        return True

    for e in plan:
        p, ngen, stream = e["p"], e["ngen"], e["stream"]
        P = cparams(p, stream)
        pop0 = clist([cbl01(g) for g in p["pop0"]])
        head = "%s %s %s %s %s" % (P, pop0, cz(p["hofsize"]), cz(p["loop"]), cnat(ngen))
        small = {"params": {k: v for k, v in p.items()}, "ngen": ngen, "stream_len": len(stream)}
        full = e["full"].result()
        if not good(full, "full", small):
            continue
        obs = [b["obs"] for b in full["res"]["boundaries"]]
        ref_final = obs[-1]
        add("CRun %s [] %s" % (head, czll(obs)), dict(small, kind="run"), nontrivial=ngen >= 1 and len(p["pop0"]) >= 2)
        # kill after k / resume
        resumes = {}
        for k, fut in e["save"].items():
            s = fut.result()
            if not good(s, "save", dict(small, k=k)):
                continue
            pr = e["protocol"][k]
            if s["res"]["unsupported_protocols"]:
                run.oracle_violation("checkpoint of the list GA cannot be pickled", dict(small, k=k, protocol=pr),
                                     observed=s["res"]["unsupported_protocols"])
                continue
            resumes[k] = (s["res"]["ckpt_tokens"], jobs.submit(dict(e["base"], mode="resume", k=k, protocol=pr, ckpt=e["ck"])))
        for k, (ck_tokens, fut) in resumes.items():
            r = fut.result()
            case = dict(small, kind="resume", k=k, protocol=e["protocol"][k])
            if not good(r, "resume", case):
                continue
            robs = [b["obs"] for b in r["res"]["boundaries"]]
            # oracle, independent of the model: the resumed process ends in the state of the uninterrupted one
            if robs[-1] != ref_final or robs != obs[k:]:
                run.oracle_violation("list GA on an explicit draw list: killed after generation k and resumed, the boundaries differ "
                                     "from the uninterrupted run", case, observed={"resumed_final": robs[-1], "reference_final": ref_final})
            add("CResume %s %s %s %s" % (head, cnat(k), czl(ck_tokens), czll(robs)), case)
        # pool
        pr = e["pool"].result()
        case = dict(small, kind="pool", **e["sched"])
        if good(pr, "pool", case):
            pobs = [b["obs"] for b in pr["res"]["boundaries"]]
            calls = pr["res"].get("calls", [])
            case["completion_orders"] = [c["order"] for c in calls][:4]
            if pobs != obs:
                run.oracle_violation("list GA on an explicit draw list: pool map gives other boundaries than the serial map", case,
                                     observed={"pool_final": pobs[-1], "reference_final": ref_final})
            tbl = clist([cpair(cz(g), cnatl(c["order"])) for g, c in enumerate(calls)])
            add("CRun %s %s %s" % (head, tbl, czll(pobs)), case, nontrivial=any(c["order"] != sorted(c["order"]) for c in calls))
            for c in calls:
                if not c["inputs"]:
                    continue
                add("CPmap %s %s %s %s" % (P, cnatl(c["order"]), clist([cbl01(g) for g in c["inputs"]]),
                                           czll([[int(v * w) for v, w in zip(res, p["weights"])] for res in c["results"]])),
                    {"kind": "pmap", "order": c["order"], "inputs": c["inputs"], "results": c["results"], "weights": p["weights"]},
                    nontrivial=c["order"] != sorted(c["order"]))
    # completion orders of the pool model: permutations (a theorem; evaluated here to exercise the definitions)
    for _ in range(run.scale(40, 400)):
        w = rng.randint(1, 8)
        delays = [rng.choice([0, 1, 1, 2, 3, 5, 8]) for _ in range(rng.randint(0, 10))]
        add("COrder %s %s" % (cnat(w), czl(delays)), {"kind": "order", "w": w, "delays": delays}, nontrivial=len(delays) > 1)
    run.correspond("modelga", "C17", terms, cases, shard=60)
    # a coqc shard that dies without any output was killed from outside (the machine's OOM killer when many checks
    # run at once); such a shard carries no verdict, so it is evaluated once more.  Any shard with output counts.
    killed = [d for d in run.disagreements if d.get("group") == "modelga" and d.get("coq_error") is not None
              and not (d["coq_error"].get("log") or "").strip()]
    if killed and len(killed) == len([d for d in run.disagreements if d.get("group") == "modelga"]):
        import time
        time.sleep(5)
        run.disagreements = [d for d in run.disagreements if d.get("group") != "modelga"]
        run.corr_groups.pop("modelga", None)
        run.notes.append("%d correspondence shard(s) were killed without output (out of memory on the host); re-evaluated" % len(killed))
        run.correspond("modelga", "C17", terms, cases, shard=60)
