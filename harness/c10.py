"""C10 — real-coded operators stay finite, in bounds and centred on the parents
(deap/tools/crossover.py: cxBlend, cxSimulatedBinary, cxSimulatedBinaryBounded, cxESBlend;
 deap/tools/mutation.py: mutGaussian, mutPolynomialBounded, mutESLogNormal).

Every case is run on the implementation twice with the same scripted draws:
  * plain run   : ordinary Python floats / ints -> the observed result (what the oracle judges and what
                  the Coq float model must reproduce bit for bit);
  * logging run : every number is an instance of LF, a float subclass whose arithmetic delegates to
                  float and whose ** records (base, exponent, result) -> the oracle table of the model.
                  Its result must be bit-identical to the plain run (checked), so the instrumentation
                  cannot have changed the behaviour.
`random` (and `math` for mutESLogNormal) are replaced, in the module under test only, by logging
proxies; random.random() returns scripted values (edge values included), random.gauss(mu, s)
returns mu + z*s for a scripted z, math.exp is logged with its argument.
"""
import array
import math
import os
import re
import traceback
import warnings
from fractions import Fraction

import vlib
from vlib import cfloat, clist, cnat

U = Fraction(1, 2 ** 53)
TINY = Fraction(1, 2 ** 1074)
ONE_MINUS = 1.0 - 2.0 ** -53


# ----------------------------------------------------------------------------------------------
# tie (T): regeneration of coq/Gen/C10_gen.v from the working tree
# ----------------------------------------------------------------------------------------------
GEN_FUNCTIONS = ["cxBlend", "cxSimulatedBinary", "cxSimulatedBinaryBounded", "mutGaussian", "mutPolynomialBounded",
                 "cxESBlend", "mutESLogNormal"]


def regen(repo=None):
    """Regenerate coq/Gen/C10_gen.v from deap/tools/crossover.py and deap/tools/mutation.py of the working tree.
    Returns (ok, message); on a refusal the previous file (if any) is left in place and not used by this run."""
    import c10_py2coq
    repo = repo or vlib.REPO
    try:
        txt = c10_py2coq.translate_repo(repo)
    except c10_py2coq.Refuse as e:
        return False, "translator refused %s%s" % ("%s: " % e.fn if e.fn else "", e)
    except (OSError, UnicodeDecodeError, RecursionError, ValueError) as e:
        return False, "translator refused: %r" % (e,)
    gen = os.path.join(vlib.COQ, "Gen")
    with vlib.BuildLock():
        os.makedirs(gen, exist_ok=True)
        p = os.path.join(gen, "C10_gen.v")
        old = open(p).read() if os.path.exists(p) else None
        if old != txt:
            open(p, "w").write(txt)
    return True, "regenerated"


def broken_lemmas(log):
    """Names of the lemmas of the tie (T) files in which the build log reports an error."""
    out = []
    for f, line in re.findall(r'File "\./((?:Proofs|Props|Corr|Gen)/C10_gen[A-Za-z_]*\.v)", line (\d+)', log or ""):
        name = None
        try:
            src = open(os.path.join(vlib.COQ, f)).read().splitlines()
            for l in src[:int(line)][::-1]:
                m = re.match(r"\s*(?:Lemma|Theorem|Definition)\s+([A-Za-z0-9_']+)", l)
                if m:
                    name = m.group(1)
                    break
        except OSError:
            pass
        out.append("%s:%s%s" % (f, line, " (%s)" % name if name else ""))
    return out


def tie_T(run):
    """Regenerate, build the equivalence and the restated theorems.  Returns True when the regenerated definitions can
    be evaluated by the correspondence (coq/Corr/C10_gen.vo was built)."""
    ok, msg = regen()
    if not ok:
        run.notes.append("tie: correspondence-only (%s)" % msg)
        run.extra_cov["tie"] = "correspondence-only (%s)" % msg
        return False
    nbroken = len(run.broken)
    built = run.build_props(props="Props/C10_gen.v", extra=["Corr/C10_gen.v"])
    if built:
        # the float-level clamp theorems on the regenerated definitions
        built = run.build_props(props="Props/C10_gen_float.v")
    if built:
        run.notes.append("tie: regenerated (%s: regenerated definitions proved equal to the hand model for every input, "
                         "theorems restated on them)" % ", ".join(GEN_FUNCTIONS))
        run.extra_cov["tie"] = "regenerated + correspondence"
        run.trusted.append("translator harness/c10_py2coq.py and its signature table (deap/tools/crossover.py, mutation.py -> "
                           "coq/Gen/C10_gen.v), run-time library coq/Model/C10_PyRt.v; equivalence to the model proved in "
                           "Proofs/C10_gen_equiv.v on every run; the regenerated definitions are also evaluated against the implementation")
        return True
    where = broken_lemmas(run.broken[-1].get("log") if len(run.broken) > nbroken else "")
    run.notes.append("tie: regenerated definitions no longer check against the model: %s" % (", ".join(where) or "build failed"))
    run.extra_cov["tie"] = "regenerated, equivalence / restated theorems BROKEN: %s" % (", ".join(where) or "build failed")
    # diagnosis: can the regenerated definitions at least be evaluated?
    ok2, _ = vlib.make_targets(["Corr/C10_gen.vo"], timeout=1500)
    return ok2


# ----------------------------------------------------------------------------------------------
# instrumentation
# ----------------------------------------------------------------------------------------------
class _Ctx:
    log = None


def _w(v):
    return LF(v) if type(v) is float else v


def _logged_pow(b, e):
    fb, fe = float(b), float(e)
    try:
        r = float.__pow__(fb, fe)
    except ZeroDivisionError:
        _Ctx.log.append(("pow", fb, fe, "zerodiv"))
        raise
    except OverflowError:
        _Ctx.log.append(("pow", fb, fe, "overflow"))
        raise
    if isinstance(r, complex):
        _Ctx.log.append(("pow", fb, fe, "complex"))
        return r
    _Ctx.log.append(("pow", fb, fe, r))
    return LF(r)


class LF(float):
    """float whose results stay LF and whose ** is logged; every operation delegates to float."""
    __slots__ = ()

    def __add__(a, b):
        return _w(float.__add__(a, b))

    def __radd__(a, b):
        return _w(float.__radd__(a, b))

    def __sub__(a, b):
        return _w(float.__sub__(a, b))

    def __rsub__(a, b):
        return _w(float.__rsub__(a, b))

    def __mul__(a, b):
        return _w(float.__mul__(a, b))

    def __rmul__(a, b):
        return _w(float.__rmul__(a, b))

    def __truediv__(a, b):
        return _w(float.__truediv__(a, b))

    def __rtruediv__(a, b):
        return _w(float.__rtruediv__(a, b))

    def __neg__(a):
        return LF(float.__neg__(a))

    def __pos__(a):
        return LF(float.__pos__(a))

    def __abs__(a):
        return LF(float.__abs__(a))

    def __pow__(a, b, m=None):
        if not isinstance(b, (int, float)):
            return NotImplemented
        return _logged_pow(a, b)

    def __rpow__(a, b, m=None):
        if not isinstance(b, (int, float)):
            return NotImplemented
        return _logged_pow(b, a)


class RandProxy(object):
    """Stands for the `random` module inside the module under test."""

    def __init__(self, us, zs, log, wrap):
        self.us, self.zs, self.log, self.wrap = list(us), list(zs), log, wrap
        self.iu = self.iz = 0

    def random(self):
        u = self.us[self.iu] if self.iu < len(self.us) else 0.3125
        self.iu += 1
        self.log.append(("random", u))
        return self.wrap(u)

    def gauss(self, mu, sigma):
        z = self.zs[self.iz] if self.iz < len(self.zs) else 0.25
        self.iz += 1
        r = float(mu) + z * float(sigma)
        self.log.append(("gauss", float(mu), float(sigma), r))
        return self.wrap(r)

    def __getattr__(self, name):
        def other(*a, **k):
            self.log.append(("other", name))
            import random as _r
            return getattr(_r.Random(0), name)(*a, **k)
        return other


class MathProxy(object):
    """Stands for `math` inside deap.tools.mutation: exp is logged, the rest passes through."""

    def __init__(self, log):
        self.log = log

    def exp(self, a):
        try:
            r = math.exp(a)
        except OverflowError:
            self.log.append(("exp", float(a), "overflow"))
            raise
        self.log.append(("exp", float(a), r))
        return r

    def __getattr__(self, name):
        return getattr(math, name)


class Ind(list):
    """A list individual that can carry a .strategy list (as creator-built ES individuals do)."""
    pass


class AInd(array.array):
    """array('d')-backed individual with a .strategy attribute."""
    pass


def _numpy():
    import numpy
    return numpy


def _nind_class():
    numpy = _numpy()
    if not hasattr(_nind_class, "cls"):
        class NInd(numpy.ndarray):
            """numpy float64 individual with a .strategy attribute."""
            pass
        _nind_class.cls = NInd
    return _nind_class.cls


EXC = {ZeroDivisionError: "ZeroDiv", IndexError: "IndexErr", TypeError: "TypeErr", OverflowError: "Overflow"}

OPS = {
    "blend": ("crossover", "cxBlend", ("ind1", "ind2", "alpha")),
    "sbx": ("crossover", "cxSimulatedBinary", ("ind1", "ind2", "eta")),
    "sbxb": ("crossover", "cxSimulatedBinaryBounded", ("ind1", "ind2", "eta", "low", "up")),
    "esblend": ("crossover", "cxESBlend", ("ind1", "ind2", "alpha")),
    "gauss": ("mutation", "mutGaussian", ("individual", "mu", "sigma", "indpb")),
    "poly": ("mutation", "mutPolynomialBounded", ("individual", "eta", "low", "up", "indpb")),
    "eslog": ("mutation", "mutESLogNormal", ("individual", "c", "indpb")),
}
NIND = {"blend": 2, "sbx": 2, "sbxb": 2, "esblend": 2, "gauss": 1, "poly": 1, "eslog": 1}


def conv(v, wrap, style=None):
    """Parameter as given to the implementation: plain run keeps ints (or numpy scalars / tuples when the style asks
    for them); logging run wraps as LF."""
    style = style or {}
    if isinstance(v, (list, tuple)):
        l = [conv(x, wrap, style) for x in v]
        return tuple(l) if style.get("tuple_bounds") else l
    if wrap is float:
        if style.get("np_scalars"):
            numpy = _numpy()
            return numpy.int64(v) if isinstance(v, int) else numpy.float64(v)
        return v
    return LF(float(v))


def build_objs(inds, wrap, style=None):
    """Fresh individual objects for one call (or one sequence of calls)."""
    style = style or {}
    cont = style.get("container", "list")
    objs = []
    for k, (g, s) in enumerate(inds):
        if style.get("alias") and k == 1:
            objs.append(objs[0])
            continue
        if cont == "array":
            o = AInd("d", [float(x) for x in g])
            if s is not None:
                o.strategy = array.array("d", [float(x) for x in s])
        elif cont == "numpy":
            numpy = _numpy()
            o = numpy.array([float(x) for x in g], dtype=float).view(_nind_class())
            if s is not None:
                o.strategy = numpy.array([float(x) for x in s], dtype=float)
        else:
            if style.get("np_scalars") and wrap is float:
                numpy = _numpy()
                o = Ind(numpy.float64(x) for x in g)
                if s is not None:
                    o.strategy = [numpy.float64(x) for x in s]
            else:
                o = Ind(wrap(x) for x in g)
                if s is not None:
                    o.strategy = [wrap(x) for x in s]
        objs.append(o)
    return objs


def execute(op, params, inds, us, zs, lf, style=None, objs=None, pobjs=None):
    """Run one operator. inds = [(genes, strategy or None), ...] describes the contents of the individuals at the
    time of the call; objs (optional) are the live objects to use (sequences of calls on the same objects), pobjs
    (optional) the live parameter objects (the same bound lists passed to successive calls).
    Returns the observation dict."""
    import deap.tools as tools
    from deap.tools import crossover as cxm, mutation as mum
    style = style or {}
    wrap = LF if lf else float
    if objs is None:
        objs = build_objs(inds, wrap, style)
    ids = {}
    for k, o in enumerate(objs):
        ids.setdefault(id(o), 2 * k)
        if inds[k][1] is not None:
            ids.setdefault(id(o.strategy), 2 * k + 1)
    log = []
    _Ctx.log = log
    rp = RandProxy(us, zs, log, wrap)
    mp = MathProxy(log)
    saved = (cxm.random, mum.random, mum.math)
    cxm.random, mum.random, mum.math = rp, rp, mp
    p = pobjs if pobjs is not None else [conv(x, wrap, style) for x in params]
    modname, fname, argnames = OPS[op]
    try:
        try:
            if style.get("kwargs"):
                # the public alias deap.tools.<name>, every argument by keyword
                f = getattr(tools, fname)
                kw = dict(zip(argnames, list(objs) + list(p)))
                out = f(**kw)
            else:
                f = getattr(cxm if modname == "crossover" else mum, fname)
                out = f(*(list(objs) + list(p)))
            exc = None
        except Exception as e:  # noqa
            out = None
            exc = EXC.get(type(e), "Other:" + type(e).__name__)
    finally:
        cxm.random, mum.random, mum.math = saved
        _Ctx.log = None
    obs = {"exc": exc, "log": log,
           "inputs_after": [(list(o), list(o.strategy) if inds[k][1] is not None else []) for k, o in enumerate(objs)],
           "params_after": p}
    if exc is None:
        shape_ok = isinstance(out, tuple) and len(out) == len(objs)
        obs["shape_ok"] = shape_ok
        res = list(out) if isinstance(out, (tuple, list)) else [out]
        obs["out_genes"] = []
        obs["out_strat"] = []
        obs["ids"] = []
        obs["same_objects"] = shape_ok
        for k, o in enumerate(res):
            try:
                obs["out_genes"].append(list(o))
            except TypeError:
                obs["out_genes"].append([])
            has_st = k < len(objs) and inds[k][1] is not None
            st = getattr(o, "strategy", None) if has_st else None
            obs["out_strat"].append(list(st) if st is not None else [])
            obs["ids"].append(ids.get(id(o), 100 + 2 * k))
            if has_st:
                obs["ids"].append(ids.get(id(st), 101 + 2 * k))
            else:
                obs["ids"].append(2 * k + 1)
            if k >= len(objs) or o is not objs[k]:
                obs["same_objects"] = False
            elif has_st and st is not objs[k].strategy:
                obs["same_objects"] = False
    return obs


def bits(x):
    """Comparable identity of a number as a float (ints are converted: exact in the ranges used)."""
    if isinstance(x, complex):
        return ("complex", repr(x))
    f = float(x)
    return "nan" if f != f else f.hex()


def tbits(x):
    """Value and kind of number: 'unchanged' is judged type-exactly (a float must not come back as an int, ...)."""
    return ("int" if isinstance(x, int) else "complex" if isinstance(x, complex) else "float", bits(x))


def same_obs(a, b):
    if a["exc"] != b["exc"]:
        return False
    if a["exc"] is not None:
        return True
    return ([[bits(x) for x in g] for g in a["out_genes"]] == [[bits(x) for x in g] for g in b["out_genes"]] and
            [[bits(x) for x in g] for g in a["out_strat"]] == [[bits(x) for x in g] for g in b["out_strat"]] and
            a["ids"] == b["ids"])


# ----------------------------------------------------------------------------------------------
# Coq terms
# ----------------------------------------------------------------------------------------------
def cfl(l):
    return clist([cfloat(x) for x in l])


def cind(k, g, s):
    return "(mkind %s %s %s %s)" % (cnat(2 * k), cfl(g), cnat(2 * k + 1), cfl(s or []))


def cbnd(b):
    if isinstance(b, (list, tuple)):
        return "(PerGene %s)" % cfl(b)
    return "(Scalar %s)" % cfloat(b)


def cpowres(r):
    if r == "zerodiv":
        return "PZeroDiv"
    if r == "overflow":
        return "POverflow"
    if r == "complex":
        return "PComplex"
    return "(PVal %s)" % cfloat(r)


def cev(e):
    if e[0] == "random":
        return "ERandom %s" % cfloat(e[1])
    if e[0] == "gauss":
        return "EGauss %s %s %s" % (cfloat(e[1]), cfloat(e[2]), cfloat(e[3]))
    if e[0] == "pow":
        return "EPow %s %s %s" % (cfloat(e[1]), cfloat(e[2]), cpowres(e[3]))
    if e[0] == "exp":
        return "EExp %s %s" % (cfloat(e[1]), cpowres(e[2]))
    # a call the model has no draw site for: an event of the wrong kind makes the model Stuck
    return "EExp nan%float PComplex"


def coutcome(obs):
    if obs["exc"] is not None:
        return "(ORaise %s)" % obs["exc"]
    gs = []
    for g, s in zip(obs["out_genes"], obs["out_strat"]):
        gs.append(cfl(g))
        gs.append(cfl(s))
    return "(OOk %s %s)" % (clist(gs), clist([cnat(i) for i in obs["ids"]]))


# ----------------------------------------------------------------------------------------------
# the property statement, evaluated on what the implementation returned
# ----------------------------------------------------------------------------------------------
def F(x):
    return Fraction(x)


def is_finite_real(x):
    return isinstance(x, (int, float)) and not isinstance(x, bool) and math.isfinite(x)


def bound_at(b, i):
    return b[i] if isinstance(b, (list, tuple)) else b


def oracle(run, case, obs):
    """Returns the list of (what, signature) the statement is violated by on this observation."""
    op = case["op"]
    bad = []
    if obs["exc"] is not None:
        bad.append("operator raised %s on an input inside the quantified domain" % obs["exc"])
        return bad
    if not obs["same_objects"]:
        bad.append("operator did not return (a tuple of) the very objects it was given")
    ins = case["inds"]
    outs_g, outs_s = obs["out_genes"], obs["out_strat"]
    # the returned objects are the inputs, so in-place modification = contents of the inputs after the call
    if obs["same_objects"] and [g for g, _ in obs["inputs_after"]] != outs_g:
        bad.append("returned contents differ from the modified inputs")
    for k, (g, s) in enumerate(ins):
        if k < len(outs_g) and len(outs_g[k]) != len(g):
            bad.append("length of individual %d changed" % k)
        if s is not None and k < len(outs_s) and len(outs_s[k]) != len(s):
            bad.append("length of strategy %d changed" % k)
    if bad:
        return bad

    def blend_pair(xs1, xs2, cs1, cs2, alpha, what):
        n = min(len(xs1), len(xs2))
        for i in range(n):
            x1, x2, c1, c2 = xs1[i], xs2[i], cs1[i], cs2[i]
            if not (is_finite_real(c1) and is_finite_real(c2)):
                bad.append("%s locus %d: child is not a finite real" % (what, i))
                continue
            mag = abs(F(x1)) + abs(F(x2))
            tol = 8 * U * (3 + 2 * F(alpha)) * mag + 16 * TINY
            if abs(F(c1) + F(c2) - F(x1) - F(x2)) > tol:
                bad.append("%s locus %d: c1+c2 != x1+x2 (beyond rounding tolerance)" % (what, i))
            lo, hi = min(F(x1), F(x2)), max(F(x1), F(x2))
            wdt = hi - lo
            for c in (c1, c2):
                if not (lo - F(alpha) * wdt - tol <= F(c) <= hi + F(alpha) * wdt + tol):
                    bad.append("%s locus %d: child outside the parental interval widened by alpha*width" % (what, i))
        for xs, cs in ((xs1, cs1), (xs2, cs2)):
            if [bits(x) for x in xs[n:]] != [bits(x) for x in cs[n:]]:
                bad.append("%s: loci past the shorter parent changed" % what)

    if op == "blend":
        blend_pair(ins[0][0], ins[1][0], outs_g[0], outs_g[1], case["params"][0], "genes")
    elif op == "esblend":
        blend_pair(ins[0][0], ins[1][0], outs_g[0], outs_g[1], case["params"][0], "genes")
        blend_pair(ins[0][1], ins[1][1], outs_s[0], outs_s[1], case["params"][0], "strategy")
    elif op == "sbx":
        rands = [e[1] for e in obs["log"] if e[0] == "random"]
        xs1, xs2 = ins[0][0], ins[1][0]
        n = min(len(xs1), len(xs2))
        for i in range(n):
            x1, x2, c1, c2 = xs1[i], xs2[i], outs_g[0][i], outs_g[1][i]
            if not (is_finite_real(c1) and is_finite_real(c2)):
                bad.append("sbx locus %d: child is not a finite real" % i)
                continue
            r = F(rands[i]) if i < len(rands) else F(0)
            beta_hi = max(F(1), 1 / (2 * (1 - r))) if r < 1 else F(2) ** 53
            tol = 8 * U * (1 + beta_hi) * (abs(F(x1)) + abs(F(x2))) + 16 * TINY
            if abs(F(c1) + F(c2) - F(x1) - F(x2)) > tol:
                bad.append("sbx locus %d: c1+c2 != x1+x2 (beyond rounding tolerance)" % i)
        for xs, cs in ((xs1, outs_g[0]), (xs2, outs_g[1])):
            if [bits(x) for x in xs[n:]] != [bits(x) for x in cs[n:]]:
                bad.append("sbx: loci past the shorter parent changed")
    elif op in ("sbxb", "poly"):
        low, up = (case["params"][1], case["params"][2])
        for k in range(len(ins)):
            for i, c in enumerate(outs_g[k]):
                if not is_finite_real(c):
                    bad.append("%s: gene %d of child %d is not a finite real: %r" % (op, i, k, c))
                elif isinstance(low, (list, tuple)) and i >= len(low):
                    continue
                elif not (bound_at(low, i) <= c <= bound_at(up, i)):
                    bad.append("%s: gene %d of child %d outside its bounds: %r" % (op, i, k, c))
    elif op == "gauss":
        if case["params"][2] == 0 and [tbits(x) for x in outs_g[0]] != [tbits(x) for x in ins[0][0]]:
            bad.append("mutGaussian with indpb=0 changed the individual")
    elif op == "eslog":
        if case["params"][1] == 0 and ([tbits(x) for x in outs_g[0]] != [tbits(x) for x in ins[0][0]] or
                                       [tbits(x) for x in outs_s[0]] != [tbits(x) for x in ins[0][1]]):
            bad.append("mutESLogNormal with indpb=0 changed the individual or its strategy")
        for i, (s_in, s_out) in enumerate(zip(ins[0][1], outs_s[0])):
            if s_in > 0 and not (is_finite_real(s_out) and s_out > 0):
                bad.append("mutESLogNormal: positive strategy value %d did not stay strictly positive: %r -> %r" % (i, s_in, s_out))
    return bad


# ----------------------------------------------------------------------------------------------
# generators
# ----------------------------------------------------------------------------------------------
ETAS = [0, 1e-9, 0.5, 1, 20, 1000]


def gen_eta(rng):
    r = rng.random()
    if r < 0.6:
        e = rng.choice(ETAS)
    elif r < 0.8:
        e = rng.uniform(0, 1000)
    elif r < 0.9:
        e = float(rng.randint(0, 1000))
    else:
        e = rng.choice([2.0, 3.5, 15.0, 30.0, 100.0, 999.999])
    if isinstance(e, int) and rng.random() < 0.5:
        e = float(e)
    return e


def gen_u(rng, bias_low=0.5):
    """A value random.random() can return: k * 2**-53, 0 <= k < 2**53."""
    r = rng.random()
    if r < 0.12:
        return rng.choice([0.0, 0.5, math.nextafter(0.5, 1.0), math.nextafter(0.5, 0.0), ONE_MINUS, 2.0 ** -53,
                           0.25, 0.75, 1e-9, 1.0 - 1e-9])
    u = rng.random()
    if rng.random() < bias_low:
        u = u * 0.5
    return u


def gen_z(rng):
    r = rng.random()
    if r < 0.1:
        return rng.choice([0.0, -0.0, 8.5, -8.5, 1.0, -1.0, 1e-300])
    return rng.gauss(0, 1)


def gen_width(rng):
    r = rng.random()
    if r < 0.3:
        return rng.choice([1e-6, 1.0, 1e6, 2.0 ** -19, 2.0 ** 19, 10.0, 1e-3, 1e3])
    return 10.0 ** rng.uniform(-6, 6)


def gen_bound_pair(rng):
    w = gen_width(rng)
    r = rng.random()
    if r < 0.35:
        lo = 0.0
    elif r < 0.5:
        lo = -w / 2
    elif r < 0.6:
        lo = -w
    elif r < 0.68:
        # large offset with a tiny spread (1e9 +- 1e-3 and the like): only a few thousand floats between the bounds
        lo = rng.choice([-1, 1]) * rng.choice([1e9, 1e8, 123456789.0])
        w = rng.choice([1e-3, 1e-6, 1.0, 1e-2])
    else:
        lo = rng.choice([-1, 1]) * 10.0 ** rng.uniform(-6, 6)
    up = lo + w
    if not lo < up:
        up = math.nextafter(lo, math.inf)
    # integer-valued bounds are often given as Python ints
    if rng.random() < 0.3 and lo == int(lo) and up == int(up) and abs(lo) < 2 ** 52 and abs(up) < 2 ** 52:
        lo, up = int(lo), int(up)
    return lo, up


def gen_gene(rng, lo, up):
    r = rng.random()
    flo, fup = float(lo), float(up)
    if r < 0.12:
        return flo
    if r < 0.24:
        return fup
    if r < 0.30:
        return min(math.nextafter(flo, math.inf), fup)
    if r < 0.36:
        return max(math.nextafter(fup, -math.inf), flo)
    if r < 0.42:
        x = flo + 0.5 * (fup - flo)
    else:
        x = flo + rng.random() * (fup - flo)
    return min(max(x, flo), fup)


def gen_partner(rng, x, lo, up):
    """Second parent at one locus: equal, within the 1e-14 guard, just outside it, or independent."""
    r = rng.random()
    flo, fup = float(lo), float(up)
    if r < 0.12:
        return x
    if r < 0.16:
        # near ties: one ulp, a few ulps, 2**-40 relative
        y = rng.choice([math.nextafter(x, math.inf), math.nextafter(x, -math.inf),
                        x * (1.0 + 2.0 ** -40), x * (1.0 - 2.0 ** -40), x + 4 * math.ulp(x)])
    elif r < 0.25:
        y = x + rng.choice([-1, 1]) * rng.choice([1e-15, 5e-15, 1e-14])
    elif r < 0.35:
        y = x + rng.choice([-1, 1]) * rng.choice([1.0000000000001e-14, 2e-14, 1e-13])
    else:
        return gen_gene(rng, lo, up)
    return min(max(y, flo), fup)


def gen_bounds(rng, n):
    """Scalar or per-gene bounds for n loci. Returns (low, up, lows_list, ups_list)."""
    if rng.random() < 0.5:
        lo, up = gen_bound_pair(rng)
        return lo, up, [lo] * n, [up] * n
    pairs = [gen_bound_pair(rng) for _ in range(n)]
    if rng.random() < 0.3:
        pairs += [gen_bound_pair(rng) for _ in range(rng.randint(1, 2))]   # longer than needed is allowed
    lows, ups = [p[0] for p in pairs], [p[1] for p in pairs]
    return lows, ups, lows, ups


def gen_len(rng):
    return rng.choice([1, 1, 2, 2, 3, 3, 4, 5, 6, 8, 12])


def gen_free_genes(rng, n):
    sc = rng.choice([1e-9, 1e-6, 1e-3, 1.0, 1.0, 10.0, 1e3, 1e6])
    off = rng.choice([0.0, 0.0, 0.0, 1e9, -1e9]) if sc <= 1e-3 else 0.0      # 1e9 +- 1e-3: large offset, tiny spread
    out = []
    for _ in range(n):
        r = rng.random()
        if off:
            out.append(off + rng.uniform(-sc, sc))
        elif r < 0.08:
            out.append(0.0)
        elif r < 0.12:
            out.append(-0.0)
        elif r < 0.2:
            out.append(float(rng.randint(-5, 5)))
        else:
            out.append(rng.uniform(-sc, sc))
    return out


def gen_alpha(rng):
    r = rng.random()
    if r < 0.5:
        return rng.choice([0, 0.0, 0.1, 0.5, 1, 1.0, 2, 2.0])
    return rng.uniform(0, 2)


def gen_indpb(rng):
    r = rng.random()
    if r < 0.3:
        return rng.choice([0, 0.0])
    if r < 0.6:
        return rng.choice([1, 1.0])
    return rng.random()


def ctor(op, params, inds, alias=False):
    """Constructor and arguments of the Corr.C10.case for one call."""
    i0 = cind(0, inds[0][0], inds[0][1])
    i1 = cind(1, inds[1][0], inds[1][1]) if len(inds) > 1 else None
    if op == "blend":
        return "CBlendA %s %s" % (cfloat(params[0]), i0) if alias else "CBlend %s %s %s" % (cfloat(params[0]), i0, i1)
    if op == "sbx":
        return "CSbxA %s %s" % (cfloat(params[0]), i0) if alias else "CSbx %s %s %s" % (cfloat(params[0]), i0, i1)
    if op == "sbxb":
        if alias:
            return "CSbxBA %s %s %s %s" % (cfloat(params[0]), cbnd(params[1]), cbnd(params[2]), i0)
        return "CSbxB %s %s %s %s %s" % (cfloat(params[0]), cbnd(params[1]), cbnd(params[2]), i0, i1)
    if op == "esblend":
        return "CESBlendA %s %s" % (cfloat(params[0]), i0) if alias else "CESBlend %s %s %s" % (cfloat(params[0]), i0, i1)
    if op == "gauss":
        return "CGauss %s %s %s %s" % (cbnd(params[0]), cbnd(params[1]), cfloat(params[2]), i0)
    if op == "poly":
        return "CPoly %s %s %s %s %s" % (cfloat(params[0]), cbnd(params[1]), cbnd(params[2]), cfloat(params[3]), i0)
    if op == "eslog":
        return "CESLog %s %s %s" % (cfloat(params[0]), cfloat(params[1]), i0)
    raise AssertionError(op)


def gen_stress(rng):
    """One rounding-stress case (arguments of do_case) for the two bounded operators."""
    n = rng.choice([1, 1, 2, 3])
    low, up, lows, ups = gen_bounds(rng, n)
    eta = rng.choice([1000, 1000.0, 500.0, 100.0, 20, 30.0, 1e-9, 0, 0.5, 3.0])
    near = [ONE_MINUS, 1.0 - 2.0 ** -52, 1.0 - 1e-12, 1.0 - 1e-9, 0.999, 0.0, 2.0 ** -53, 1e-12, 0.5,
            math.nextafter(0.5, 0.0), math.nextafter(0.5, 1.0)]
    if rng.random() < 0.5:
        g1, g2 = [], []
        for i in range(n):
            lo, hi = float(lows[i]), float(ups[i])
            a = rng.choice([lo, hi, gen_gene(rng, lo, hi)])
            b = rng.choice([lo, hi, gen_gene(rng, lo, hi), gen_gene(rng, lo, hi)])
            g1.append(a)
            g2.append(b)
        us = []
        for i in range(n):
            us += [rng.choice([0.0, 0.25, 0.5]), rng.choice(near) if rng.random() < 0.7 else rng.random(), rng.random()]
        return ("sbxb", [eta, low, up], [(g1, None), (g2, None)], us, [], True,
                "CSbxB %s %s %s %s %s" % (cfloat(eta), cbnd(low), cbnd(up), cind(0, g1, None), cind(1, g2, None)))
    g = [rng.choice([float(lows[i]), float(ups[i]), gen_gene(rng, lows[i], ups[i])]) for i in range(n)]
    us = []
    for i in range(n):
        us += [rng.random(), rng.choice(near) if rng.random() < 0.7 else rng.random()]
    return ("poly", [eta, low, up, 1.0], [(g, None)], us, [], True,
            "CPoly %s %s %s %s %s" % (cfloat(eta), cbnd(low), cbnd(up), cfloat(1.0), cind(0, g, None)))


def search(run):
    """Extra counterexample search, run only when an obligation or the correspondence broke: many
    rounding-stress and ordinary cases of the bounded operators, judged by the oracle alone."""
    rng = run.rng
    budget = run.scale(40000, 400000)
    for _ in range(budget):
        op, params, inds, us, zs, in_domain, _ctor = gen_stress(rng)
        case = {"op": op, "params": params, "inds": inds, "us": us, "zs": zs, "in_domain": True, "from": "search"}
        obs = execute(op, params, inds, us, zs, lf=False)
        bad = oracle(run, case, obs)
        if bad:
            run.oracle_violation(bad[0], case, observed={k: repr(v)[:600] for k, v in obs.items() if k != "log"})
            return


# ----------------------------------------------------------------------------------------------
def main(run):
    run.rule = ("seeded random cases per operator (7 operators): 1..12 genes; scalar / per-gene / int-valued bounds of width "
                "1e-6..1e6 at offsets up to 1e6; genes on a bound, one ulp inside, mid, random; second parent equal, inside "
                "and just outside the 1e-14 guard, or independent; eta in {0,1e-9,0.5,1,20,1000} or random in [0,1000] (int or "
                "float); alpha in [0,2]; indpb 0, 1 or random; scripted random() values incl. 0.0, 0.5 and its neighbours, "
                "1-2^-53; scripted gauss; plus error-branch cases outside the statement's domain (short bound lists, low == up, "
                "gene outside bounds, exp overflow, short strategy) that only exercise the model's Raise outcomes. "
                "Exhaustive one-locus grid for the two bounded operators: genes {low, low+ulp, 0.3, mid, up-ulp, up} x rand {0, 2^-53, 0.25, "
                "0.5-ulp, 0.5, 0.9, 1-2^-53} x eta list x bound pairs. A case is distinct by operator+inputs+draws; non-trivial = at least one gene was rewritten or an exception raised.")
    run.trusted += [
        "Coq 8.16.1 kernel and vm_compute; PrimFloat = IEEE-754 binary64 (hardware floats, as CPython)",
        "hand-written model coq/Model/C10_RealOps.v tied by correspondence (harness/c10.py), bit exact for + - * / abs sqrt < <=",
        "float ** , math.exp and random.gauss are oracles: their recorded results are replayed to the model (arguments compared bit for bit)",
        "logging instrumentation: float subclass LF and random/math proxies; the LF run must equal the plain run bit for bit",
        "CPython: two-argument min/max keep the first argument unless the second is strictly smaller/larger; zip truncation; "
        "random.random() in [0,1)",
        "Coq Reals axioms (ClassicalDedekindReals.sig_forall_dec, sig_not_dec, functional_extensionality_dep) for the theorems over R",
    ]
    run.assumptions += [
        "'finite' is read as 'a defined real number' (no ZeroDivisionError, no complex power): theorems are over R; IEEE "
        "rounding, overflow and underflow are not covered by the theorems (DESIGN Appendix B.6), only exercised by the float "
        "correspondence and the oracle",
        "the individuals (and strategy lists) passed to one call are distinct list objects",
        "draws: 0 <= random.random() < 1",
        "sum conservation on the implementation is judged up to float rounding: |c1+c2-(x1+x2)| <= 8*2^-53*K*(|x1|+|x2|) with "
        "K = 3+2*alpha (blend, |gamma| <= 1+alpha) or K = 1+max(1, 1/(2(1-rand))) (SBX, bound on beta); exact over R",
    ]
    run.build_props()
    # float level: the final clamp of the two bounded operators on binary64 (Props/C10_float.v)
    if run.build_props(props="Props/C10_float.v"):
        run.trusted.append("Coq standard library specification of primitive floats (FloatAxioms.ltb_spec, leb_spec, eqb_spec) for the "
                           "float-level clamp theorems; Print Assumptions also lists the primitive float / int63 operations themselves")
    gen_evaluable = tie_T(run)
    rng = run.rng
    terms, cases = [], []
    stats = {}

    VARIANTS = [{"container": "array"}, {"container": "numpy"}, {"np_scalars": True}, {"kwargs": True},
                {"tuple_bounds": True}, {"kwargs": True, "tuple_bounds": True, "container": "numpy"}]

    def cparams_same(a, b):
        """Parameter objects after the call hold what they held before (values, lengths)."""
        def flat(v):
            return [bits(x) for x in v] if isinstance(v, (list, tuple)) else bits(v)
        return [flat(x) for x in a] == [flat(x) for x in b]

    def do_case(op, params, inds, us, zs, in_domain, ctor_args, live=None, alias=False, variant=None, tag=None):
        """live = (plain objects, LF objects, plain parameter objects, LF parameter objects) for a step of a
        sequence on the same objects; alias = the same individual object is passed as both parents;
        variant: None = pick one at random for half of the cases, False = none."""
        case = {"op": op, "params": params, "inds": inds, "us": us, "zs": zs, "in_domain": in_domain}
        if alias:
            case["alias"] = True
        if tag:
            case["tag"] = tag
        style = {"alias": True} if alias else None
        if live is not None:
            plain = execute(op, params, inds, us, zs, lf=False, objs=live[0], pobjs=live[2])
            logged = execute(op, params, inds, us, zs, lf=True, objs=live[1], pobjs=live[3])
        else:
            plain = execute(op, params, inds, us, zs, lf=False, style=style)
            logged = execute(op, params, inds, us, zs, lf=True, style=style)
        if not same_obs(plain, logged) or [e for e in plain["log"]] != [e for e in logged["log"] if e[0] not in ("pow",)]:
            # the instrumentation changed the behaviour: machinery problem, never blamed on DEAP silently
            run.disagreements.append({"group": "instrumentation", "index": len(terms), "case": case,
                                      "plain": repr(plain)[:1500], "logged": repr(logged)[:1500]})
        # every recorded power is what Python computes for these arguments
        for e in logged["log"]:
            if e[0] == "pow" and not isinstance(e[3], str):
                if bits(float.__pow__(e[1], e[2])) != bits(e[3]):
                    run.disagreements.append({"group": "pow-table", "index": len(terms), "case": case, "event": repr(e)})
        # the parameter objects (bound / mean / deviation sequences) are values for the model: they must come back as given
        if not cparams_same(plain["params_after"], params):
            run.disagreements.append({"group": "params-mutated", "index": len(terms), "case": case,
                                      "after": repr(plain["params_after"])[:800]})
        changed = plain["exc"] is not None or any(
            [bits(x) for x in a] != [bits(x) for x in b[0]] for a, b in zip(plain.get("out_genes", []), inds))
        stats[op] = stats.get(op, 0) + 1
        stats[op + ":changed"] = stats.get(op + ":changed", 0) + (1 if changed else 0)
        if plain["exc"] is not None:
            stats[op + ":raise:" + plain["exc"]] = stats.get(op + ":raise:" + plain["exc"], 0) + 1
        run.note_case(case, changed, sample=case if len(run.samples) < 6 and stats[op] == 3 else None)
        if in_domain:
            for what in oracle(run, case, plain):
                run.oracle_violation(what, case, observed={k: repr(v)[:600] for k, v in plain.items() if k != "log"})
        # ---- the same call through another route / representation: judged by the statement, and it must give
        # the very same numbers as the list-of-floats call
        if live is None and not alias and variant is not False and (variant is not None or rng.random() < 0.5):
            st = variant if variant is not None else rng.choice(VARIANTS)
            key = "variant:" + "+".join(sorted(k if v is True else "%s=%s" % (k, v) for k, v in st.items()))
            stats[key] = stats.get(key, 0) + 1
            with warnings.catch_warnings():
                warnings.simplefilter("ignore")
                alt = execute(op, params, inds, us, zs, lf=False, style=st)
            vcase = dict(case, style=st)
            if in_domain:
                for what in oracle(run, vcase, alt):
                    run.oracle_violation(what + " [" + key + "]", vcase,
                                         observed={k: repr(v)[:600] for k, v in alt.items() if k != "log"})
            uses_numpy = st.get("np_scalars") or st.get("container") == "numpy"
            if not same_obs(plain, alt) and (in_domain or not uses_numpy):
                # (numpy float64 scalars give inf/nan instead of ZeroDivisionError / complex: outside the statement's
                # domain the numpy-typed call legitimately differs, so it is compared only inside the domain)
                if in_domain:
                    run.oracle_violation("result depends on the representation of the same numbers [" + key + "]", vcase,
                                         observed={"list": repr({k: v for k, v in plain.items() if k != "log"})[:600],
                                                   "variant": repr({k: v for k, v in alt.items() if k != "log"})[:600]})
                else:
                    run.disagreements.append({"group": "representation", "index": len(terms), "case": vcase,
                                              "plain": repr(plain)[:800], "variant": repr(alt)[:800]})
        if not in_domain and plain["exc"] is not None and plain["exc"].startswith("Other:"):
            run.notes.append("out-of-domain case raised %s (skipped)" % plain["exc"])
            return plain
        if plain["exc"] is not None and plain["exc"].startswith("Other:"):
            return plain    # already reported by the oracle; no Coq term can express it
        if plain["exc"] is None and not all(is_finite_real(x) or (isinstance(x, float))
                                            for g in plain["out_genes"] + plain["out_strat"] for x in g):
            # a complex (or non-numeric) gene was written: reported by the oracle when in domain; no float term exists
            if not in_domain:
                run.notes.append("out-of-domain case produced a non-real gene (skipped in correspondence)")
            stats[op + ":nonreal"] = stats.get(op + ":nonreal", 0) + 1
            return plain
        evs = clist([cev(e) for e in logged["log"]])
        if alias and plain["exc"] is None:
            # one object: what remains is the second child
            single = {"exc": None, "out_genes": plain["out_genes"][1:2], "out_strat": plain["out_strat"][1:2],
                      "ids": [plain["ids"][2], plain["ids"][3] if inds[0][1] is not None else 1]}
            terms.append("%s %s %s" % (ctor_args, evs, coutcome(single)))
        else:
            terms.append("%s %s %s" % (ctor_args, evs, coutcome(plain)))
        cases.append(case)
        return plain

    N = run.scale(260, 5000)

    # ---- cxBlend / cxESBlend --------------------------------------------------------------
    for _ in range(N):
        n1 = gen_len(rng)
        n2 = n1 if rng.random() < 0.8 else gen_len(rng)
        g1 = gen_free_genes(rng, n1)
        g2 = [g1[i] if i < n1 and rng.random() < 0.15 else x for i, x in enumerate(gen_free_genes(rng, n2))]
        alpha = gen_alpha(rng)
        us = [gen_u(rng, 0.0) for _ in range(min(n1, n2))]
        do_case("blend", [alpha], [(g1, None), (g2, None)], us, [], True,
                "CBlend %s %s %s" % (cfloat(alpha), cind(0, g1, None), cind(1, g2, None)))
    for _ in range(N):
        n1 = gen_len(rng)
        n2 = n1 if rng.random() < 0.8 else gen_len(rng)
        g1, g2 = gen_free_genes(rng, n1), gen_free_genes(rng, n2)
        s1 = [10.0 ** rng.uniform(-6, 3) for _ in range(n1 if rng.random() < 0.85 else gen_len(rng))]
        s2 = [s1[i] if i < len(s1) and rng.random() < 0.15 else 10.0 ** rng.uniform(-6, 3)
              for i in range(n2 if rng.random() < 0.85 else gen_len(rng))]
        alpha = gen_alpha(rng)
        us = [gen_u(rng, 0.0) for _ in range(2 * min(n1, n2))]
        do_case("esblend", [alpha], [(g1, s1), (g2, s2)], us, [], True,
                "CESBlend %s %s %s" % (cfloat(alpha), cind(0, g1, s1), cind(1, g2, s2)))

    # ---- cxSimulatedBinary ------------------------------------------------------------------
    for _ in range(N):
        n1 = gen_len(rng)
        n2 = n1 if rng.random() < 0.8 else gen_len(rng)
        g1 = gen_free_genes(rng, n1)
        g2 = [g1[i] if i < n1 and rng.random() < 0.15 else x for i, x in enumerate(gen_free_genes(rng, n2))]
        eta = gen_eta(rng)
        us = [gen_u(rng, 0.3) for _ in range(min(n1, n2))]
        do_case("sbx", [eta], [(g1, None), (g2, None)], us, [], True,
                "CSbx %s %s %s" % (cfloat(eta), cind(0, g1, None), cind(1, g2, None)))

    # ---- cxSimulatedBinaryBounded -----------------------------------------------------------
    for _ in range(2 * N):
        n1 = gen_len(rng)
        n2 = n1 if rng.random() < 0.8 else gen_len(rng)
        size = min(n1, n2)
        low, up, lows, ups = gen_bounds(rng, max(n1, n2))
        g1 = [gen_gene(rng, lows[i], ups[i]) for i in range(n1)]
        g2 = [gen_partner(rng, g1[i], lows[i], ups[i]) if i < n1 else gen_gene(rng, lows[i], ups[i]) for i in range(n2)]
        eta = gen_eta(rng)
        us = [gen_u(rng, 0.8) for _ in range(3 * size)]
        do_case("sbxb", [eta, low, up], [(g1, None), (g2, None)], us, [], True,
                "CSbxB %s %s %s %s %s" % (cfloat(eta), cbnd(low), cbnd(up), cind(0, g1, None), cind(1, g2, None)))

    # ---- cxSimulatedBinaryBounded / mutPolynomialBounded: rounding stress -------------------------
    # a parent exactly on a bound, rand next to 0 / 1 and a large eta drive beta_q (delta_q) to the value for
    # which the unclipped child equals the bound in exact arithmetic: only the final clip keeps the float inside
    for _ in range(N):
        args = gen_stress(rng)
        do_case(*args)

    # ---- mutPolynomialBounded -----------------------------------------------------------------
    for _ in range(2 * N):
        n = gen_len(rng)
        low, up, lows, ups = gen_bounds(rng, n)
        g = [gen_gene(rng, lows[i], ups[i]) for i in range(n)]
        eta = gen_eta(rng)
        indpb = gen_indpb(rng)
        us = [gen_u(rng, 0.3) for _ in range(2 * n)]
        if 0 < indpb < 1 and rng.random() < 0.3:        # the threshold itself: `random() <= indpb`
            us = [float(indpb) if i % 2 == 0 and rng.random() < 0.5 else u for i, u in enumerate(us)]
        do_case("poly", [eta, low, up, indpb], [(g, None)], us, [], True,
                "CPoly %s %s %s %s %s" % (cfloat(eta), cbnd(low), cbnd(up), cfloat(indpb), cind(0, g, None)))

    # ---- exhaustive small scope for the two bounded operators (one locus) ----------------------------
    # every combination of boundary / interior genes x extreme draws x the listed crowding degrees
    grid_bounds = [(0.0, 1.0), (-5e5, 5e5), (1e6, 1e6 + 2.0 ** -20)] if run.thorough else [(0.0, 1.0), (-5e5, 5e5)]
    grid_eta = ETAS if run.thorough else [0, 1e-9, 1, 1000]
    grid_rand = [0.0, 2.0 ** -53, 0.25, math.nextafter(0.5, 0.0), 0.5, 0.9, ONE_MINUS]
    for (lo, hi) in grid_bounds:
        w = hi - lo
        pts = [lo, math.nextafter(lo, math.inf), lo + 0.3 * w, lo + 0.5 * w, math.nextafter(hi, -math.inf), hi]
        if lo == 0.0:
            pts += [1e-14, math.nextafter(1e-14, 1.0)]     # |x1 - x2| exactly the guard constant, and one ulp above it
        for eta in grid_eta:
            for rand in grid_rand:
                for a in pts:
                    for b in (pts if run.thorough else [lo, lo + 0.3 * w, hi] + pts[6:]):
                        for u3 in (0.5, 0.75):
                            do_case("sbxb", [eta, lo, hi], [([a], None), ([b], None)], [0.5, rand, u3], [], True,
                                    "CSbxB %s %s %s %s %s" % (cfloat(eta), cbnd(lo), cbnd(hi), cind(0, [a], None), cind(1, [b], None)))
                    for indpb in (0.5, 1.0):
                        do_case("poly", [eta, lo, hi, indpb], [([a], None)], [0.5, rand], [], True,
                                "CPoly %s %s %s %s %s" % (cfloat(eta), cbnd(lo), cbnd(hi), cfloat(indpb), cind(0, [a], None)))

    # ---- mutGaussian ------------------------------------------------------------------------------
    for _ in range(N):
        n = gen_len(rng)
        g = gen_free_genes(rng, n)

        def ms(positive):
            def one():
                v = rng.choice([0, 0.0, 1, 1.0, 0.5, 1e-6, 1e3, rng.uniform(-10, 10)])
                return abs(v) if positive else v
            if rng.random() < 0.5:
                return one()
            return [one() for _ in range(n + (rng.randint(0, 2) if rng.random() < 0.3 else 0))]
        mu, sigma = ms(False), ms(True)
        indpb = gen_indpb(rng)
        us = [gen_u(rng, 0.0) for _ in range(n)]
        if indpb == 0 and rng.random() < 0.6:      # the boundary of `random() < indpb`: a draw of exactly 0.0
            us = [0.0 if rng.random() < 0.6 else u for u in us]
        elif 0 < indpb < 1 and rng.random() < 0.3:  # a draw equal to indpb (not selected: `<`), and one ulp below (selected)
            us = [rng.choice([float(indpb), math.nextafter(float(indpb), 0.0)]) if rng.random() < 0.5 else u for u in us]
        zs = [gen_z(rng) for _ in range(n)]
        do_case("gauss", [mu, sigma, indpb], [(g, None)], us, zs, True,
                "CGauss %s %s %s %s" % (cbnd(mu), cbnd(sigma), cfloat(indpb), cind(0, g, None)))

    # ---- mutESLogNormal -----------------------------------------------------------------------------
    for _ in range(N):
        n = gen_len(rng)
        g = gen_free_genes(rng, n)
        st = [10.0 ** rng.uniform(-6, 3) for _ in range(n + (rng.randint(0, 2) if rng.random() < 0.2 else 0))]
        c = rng.choice([0, 0.1, 1, 1.0, 2.0, rng.uniform(0, 3)])
        indpb = gen_indpb(rng)
        us = [gen_u(rng, 0.0) for _ in range(n)]
        if indpb == 0 and rng.random() < 0.6:
            us = [0.0 if rng.random() < 0.6 else u for u in us]
        elif 0 < indpb < 1 and rng.random() < 0.3:
            us = [rng.choice([float(indpb), math.nextafter(float(indpb), 0.0)]) if rng.random() < 0.5 else u for u in us]
        zs = [gen_z(rng) for _ in range(2 * n + 1)]
        do_case("eslog", [c, indpb], [(g, st)], us, zs, True,
                "CESLog %s %s %s" % (cfloat(c), cfloat(indpb), cind(0, g, st)))

    # ---- the same individual object passed as both parents ----------------------------------------------
    for _ in range(run.scale(40, 800)):
        op = rng.choice(["blend", "sbx", "sbxb", "esblend"])
        n = gen_len(rng)
        if op == "sbxb":
            low, up, lows, ups = gen_bounds(rng, n)
            g = [gen_gene(rng, lows[i], ups[i]) for i in range(n)]
            params, us, st = [gen_eta(rng), low, up], [gen_u(rng, 0.8) for _ in range(3 * n)], None
        elif op == "sbx":
            g, st = gen_free_genes(rng, n), None
            params, us = [gen_eta(rng)], [gen_u(rng, 0.3) for _ in range(n)]
        else:
            g = gen_free_genes(rng, n)
            st = [10.0 ** rng.uniform(-6, 3) for _ in range(n)] if op == "esblend" else None
            params, us = [gen_alpha(rng)], [gen_u(rng, 0.0) for _ in range(2 * n)]
        inds = [(g, st), (g, st)]
        do_case(op, params, inds, us, [], True, ctor(op, params, inds, alias=True), alias=True, tag="alias")

    # ---- sequences of calls on the same objects (individuals, strategy lists, bound / mean / deviation lists),
    # two clients interleaved; every step is judged by the oracle and re-executed by the model on its own ----------
    def snapshot(objs, es):
        return [([x for x in o], [x for x in o.strategy] if es else None) for o in objs]

    def as_float_inds(inds):
        return [([float(x) for x in g], None if s is None else [float(x) for x in s]) for g, s in inds]

    for _ in range(run.scale(60, 1200)):
        family = rng.choice(["bounded", "bounded", "free", "es"])
        clients = []
        for _c in range(2):
            n1 = gen_len(rng)
            n2 = n1 if rng.random() < 0.7 else gen_len(rng)
            c = {"es": family == "es"}
            if family == "bounded":
                low, up, lows, ups = gen_bounds(rng, max(n1, n2))
                c["bounds"] = (low, up)
                inds = [([gen_gene(rng, lows[i], ups[i]) for i in range(n1)], None),
                        ([gen_gene(rng, lows[i], ups[i]) for i in range(n2)], None)]
                c["pp"] = [conv(low, float), conv(up, float)]
                c["pl"] = [conv(low, LF), conv(up, LF)]
            elif family == "free":
                inds = [(gen_free_genes(rng, n1), None), (gen_free_genes(rng, n2), None)]
                mu = [rng.uniform(-1, 1) for _ in range(max(n1, n2))] if rng.random() < 0.6 else rng.choice([0, 0.0, 1.5])
                sg = [abs(rng.uniform(-2, 2)) for _ in range(max(n1, n2))] if rng.random() < 0.6 else rng.choice([1, 0.5, 1e-3])
                if isinstance(mu, list) and rng.random() < 0.3:
                    sg = mu = [abs(x) for x in mu]          # the very same list object as mean and as deviation
                c["musg"] = (mu, sg)
                pm, lm = conv(mu, float), conv(mu, LF)
                c["pp"] = [pm, pm if sg is mu else conv(sg, float)]
                c["pl"] = [lm, lm if sg is mu else conv(sg, LF)]
            else:
                inds = [(gen_free_genes(rng, n1), [10.0 ** rng.uniform(-6, 3) for _ in range(n1)]),
                        (gen_free_genes(rng, n2), [10.0 ** rng.uniform(-6, 3) for _ in range(n2)])]
                c["pp"], c["pl"] = [], []
            c["plain"] = build_objs(inds, float)
            c["lf"] = build_objs(inds, LF)
            clients.append(c)
        for _step in range(rng.randint(3, 6)):
            c = rng.choice(clients)
            if family == "bounded":
                op = rng.choice(["sbxb", "poly", "poly"])
                eta = gen_eta(rng)
                low, up = c["bounds"]
                if op == "sbxb":
                    sel, params = [0, 1], [eta, low, up]
                    pp, pl = [eta] + c["pp"], [LF(float(eta))] + c["pl"]
                    us = [gen_u(rng, 0.8) for _ in range(3 * 12)]
                else:
                    indpb = gen_indpb(rng)
                    sel, params = [rng.randint(0, 1)], [eta, low, up, indpb]
                    pp, pl = [eta] + c["pp"] + [indpb], [LF(float(eta))] + c["pl"] + [LF(float(indpb))]
                    us = [gen_u(rng, 0.3) for _ in range(2 * 12)]
                zs = []
            elif family == "free":
                op = rng.choice(["blend", "sbx", "gauss", "gauss"])
                if op == "gauss":
                    indpb = gen_indpb(rng)
                    mu, sg = c["musg"]
                    sel, params = [rng.randint(0, 1)], [mu, sg, indpb]
                    pp, pl = c["pp"] + [indpb], c["pl"] + [LF(float(indpb))]
                else:
                    a = gen_alpha(rng) if op == "blend" else gen_eta(rng)
                    sel, params, pp, pl = [0, 1], [a], [a], [LF(float(a))]
                us = [gen_u(rng, 0.2) for _ in range(12)]
                zs = [gen_z(rng) for _ in range(12)]
            else:
                op = rng.choice(["esblend", "eslog", "eslog"])
                if op == "esblend":
                    a = gen_alpha(rng) * 0.25
                    sel, params, pp, pl = [0, 1], [a], [a], [LF(float(a))]
                else:
                    cc, indpb = rng.choice([0.1, 1, 1.0, 0.5]), gen_indpb(rng)
                    sel, params = [rng.randint(0, 1)], [cc, indpb]
                    pp, pl = [cc, indpb], [LF(float(cc)), LF(float(indpb))]
                us = [gen_u(rng, 0.0) for _ in range(24)]
                zs = [gen_z(rng) for _ in range(25)]
            po = [c["plain"][k] for k in sel]
            lo_ = [c["lf"][k] for k in sel]
            inds = as_float_inds(snapshot(po, c["es"]))
            # trim the scripts to what the call consumes at most, so the model's "whole stream consumed" test is about
            # the events only (the log, not the script, goes into the term)
            do_case(op, params, inds, us, zs, True, ctor(op, params, inds), live=(po, lo_, pp, pl), tag="sequence")

    # ---- error branches and inputs outside the statement's domain: correspondence only ---------------
    for _ in range(run.scale(120, 1200)):
        kind = rng.choice(["short-bounds", "low==up", "outside", "outside", "exp-overflow", "short-strategy", "short-mu", "eta=-1",
                           "empty", "sbxb-low==up"])
        n = rng.randint(1, 5)
        if kind == "short-bounds":
            n = rng.randint(2, 5)
            lows, ups = [0.0] * n, [1.0] * n
            which = rng.choice(["low", "up"])
            low = lows[:rng.randint(0, n - 1)] if which == "low" else (lows if rng.random() < 0.5 else 0.0)
            up = ups[:rng.randint(0, n - 1)] if which == "up" else (ups if rng.random() < 0.5 else 1.0)
            g1 = [rng.random() for _ in range(n)]
            g2 = [rng.random() for _ in range(n)]
            if rng.random() < 0.5:
                do_case("sbxb", [1.0, low, up], [(g1, None), (g2, None)], [gen_u(rng, 0.8) for _ in range(3 * n)], [], False,
                        "CSbxB %s %s %s %s %s" % (cfloat(1.0), cbnd(low), cbnd(up), cind(0, g1, None), cind(1, g2, None)))
            else:
                do_case("poly", [1.0, low, up, 1.0], [(g1, None)], [gen_u(rng) for _ in range(2 * n)], [], False,
                        "CPoly %s %s %s %s %s" % (cfloat(1.0), cbnd(low), cbnd(up), cfloat(1.0), cind(0, g1, None)))
        elif kind == "empty":
            # size 0 (the statement starts at 1 gene): loops do nothing; mutESLogNormal divides by sqrt(0)
            op = rng.choice(["blend", "sbx", "sbxb", "esblend", "gauss", "poly", "eslog"])
            other = gen_free_genes(rng, rng.randint(0, 2))
            params = {"blend": [0.5], "sbx": [2.0], "sbxb": [2.0, 0.0, [1.0] * len(other)], "esblend": [0.5], "gauss": [0.0, [], 0.5],
                      "poly": [2.0, [], 1.0, 0.5], "eslog": [1.0, 0.5]}[op]
            es = op in ("esblend", "eslog")
            inds = [([], [] if es else None)] + ([(other, [1.0] * len(other) if es else None)] if NIND[op] == 2 else [])
            do_case(op, params, inds, [gen_u(rng) for _ in range(4)], [gen_z(rng) for _ in range(4)], False, ctor(op, params, inds))
        elif kind == "sbxb-low==up":
            b = rng.choice([0.0, 1.0, -2.5, 1e9])
            params = [gen_eta(rng), b, b]
            inds = [([b] * n, None), ([b] * n, None)]
            do_case("sbxb", params, inds, [gen_u(rng, 0.8) for _ in range(3 * n)], [], False, ctor("sbxb", params, inds))
        elif kind == "low==up":
            b = rng.choice([0.0, 1.0, -2.5])
            g = [b] * n
            eta = gen_eta(rng)
            do_case("poly", [eta, b, b, 1.0], [(g, None)], [gen_u(rng) for _ in range(2 * n)], [], False,
                    "CPoly %s %s %s %s %s" % (cfloat(eta), cbnd(b), cbnd(b), cfloat(1.0), cind(0, g, None)))
        elif kind == "outside":
            # genes outside [0, 1]: a negative power base with a fractional exponent gives a complex number, which
            # reaches a comparison (TypeError); with an integral exponent Python returns a float
            eta = rng.choice([0.5, 1.0, 2.5, 20.0, 0.0, 0.25, 3.0])
            sub = rng.random()
            if sub < 0.35:
                # polynomial: x > up and rand < 0.5  ->  xy = 1 - delta_1 < 0
                g1 = [rng.uniform(1.0, 2.0) if rng.random() < 0.7 else rng.uniform(-1.0, 2.0) for _ in range(n)]
                us = []
                for _i in range(n):
                    us += [gen_u(rng), rng.random() * 0.5 if rng.random() < 0.7 else gen_u(rng)]
                do_case("poly", [eta, 0.0, 1.0, 1.0], [(g1, None)], us, [], False,
                        "CPoly %s %s %s %s %s" % (cfloat(eta), cbnd(0.0), cbnd(1.0), cfloat(1.0), cind(0, g1, None)))
            elif sub < 0.7:
                # bounded SBX: smaller parent far below low -> beta = 1 + 2(x1-xl)/(x2-x1) < 0
                g1 = [rng.uniform(-3.0, -1.0) if rng.random() < 0.7 else rng.uniform(-1.0, 2.0) for _ in range(n)]
                g2 = [rng.uniform(0.0, 1.0) for _ in range(n)]
                do_case("sbxb", [eta, 0.0, 1.0], [(g1, None), (g2, None)], [gen_u(rng, 0.9) for _ in range(3 * n)], [], False,
                        "CSbxB %s %s %s %s %s" % (cfloat(eta), cbnd(0.0), cbnd(1.0), cind(0, g1, None), cind(1, g2, None)))
            else:
                g1 = [rng.uniform(-1.0, 2.0) for _ in range(n)]
                g2 = [rng.uniform(-1.0, 2.0) for _ in range(n)]
                do_case("sbxb", [eta, 0.0, 1.0], [(g1, None), (g2, None)], [gen_u(rng, 0.8) for _ in range(3 * n)], [], False,
                        "CSbxB %s %s %s %s %s" % (cfloat(eta), cbnd(0.0), cbnd(1.0), cind(0, g1, None), cind(1, g2, None)))
        elif kind == "exp-overflow":
            g = gen_free_genes(rng, n)
            st = [1.0] * n
            c = rng.choice([1e3, 1e4, 500.0])
            do_case("eslog", [c, 1.0], [(g, st)], [gen_u(rng) for _ in range(n)], [rng.choice([3.0, 8.0, -8.0, 0.5]) for _ in range(2 * n + 1)],
                    False, "CESLog %s %s %s" % (cfloat(c), cfloat(1.0), cind(0, g, st)))
        elif kind == "short-strategy":
            n = rng.randint(2, 5)
            g = gen_free_genes(rng, n)
            st = [1.0] * rng.randint(0, n - 1)
            indpb = rng.choice([1.0, 0.5, 0.0])
            do_case("eslog", [1.0, indpb], [(g, st)], [gen_u(rng) for _ in range(n)], [gen_z(rng) for _ in range(2 * n + 1)],
                    False, "CESLog %s %s %s" % (cfloat(1.0), cfloat(indpb), cind(0, g, st)))
        elif kind == "short-mu":
            n = rng.randint(2, 5)
            g = gen_free_genes(rng, n)
            mu = [0.0] * rng.randint(0, n - 1)
            sigma = 1.0 if rng.random() < 0.5 else [1.0] * rng.randint(0, n)
            do_case("gauss", [mu, sigma, 1.0], [(g, None)], [gen_u(rng) for _ in range(n)], [gen_z(rng) for _ in range(n)], False,
                    "CGauss %s %s %s %s" % (cbnd(mu), cbnd(sigma), cfloat(1.0), cind(0, g, None)))
        else:
            g1, g2 = gen_free_genes(rng, n), gen_free_genes(rng, n)
            do_case("sbx", [-1.0], [(g1, None), (g2, None)], [gen_u(rng) for _ in range(n)], [], False,
                    "CSbx %s %s %s" % (cfloat(-1.0), cind(0, g1, None), cind(1, g2, None)))

    # observation outside the statement (documented, not judged): mutPolynomialBounded tests `random() <= indpb`
    ob = execute("poly", [20.0, 0.0, 1.0, 0.0], [([0.5], None)], [0.0, 0.25], [], lf=False)
    run.extra_cov["observation_poly_indpb0_draw0"] = {"input": [0.5], "indpb": 0.0, "draws": [0.0, 0.25],
                                                      "output": ob.get("out_genes"), "mutated": ob.get("out_genes") != [[0.5]]}
    run.search_fn = search
    run.extra_cov["per_operator"] = stats
    run.correspond("all", "C10", terms, cases, shard=300, requires=["From Coq Require Import PrimFloat."])
    if gen_evaluable:
        # the same cases through the definitions regenerated from the source on this run: validates the translator
        # (and, when the equivalence broke, tells whether the regenerated definitions follow the implementation)
        run.correspond("regenerated", "C10_gen", terms, cases, check="check_gen", shard=300,
                       requires=["From Coq Require Import PrimFloat."])
