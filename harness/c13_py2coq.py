"""Fail-closed translator: the scalar / vector-of-scalars parameter and step-size code of deap/cma.py
class Strategy -> Gallina (tie (T) of property C13, DESIGN.md 2.3).

The working-tree source is parsed with `ast`; six units are regenerated, each refusable on its own
(a refused unit is emitted as an alias of the hand model with a `(* REFUSED *)` comment, so that
coq/Proofs/C13_gen_equiv.v always builds, and stays tied by the correspondence only):

  computeParams    Strategy.computeParams, the whole method     -> gen_computeParams Nm dim lambda_ chiN k
  hsig             the statement of Strategy.update binding `hsig`        -> gen_hsig Nm P st ps
  sigma            the statement of Strategy.update storing `self.sigma`  -> gen_sigma Nm P st ps
  count            the statement of Strategy.update storing `self.update_count` -> gen_count Nm P st ps
  chiN             the statement of Strategy.__init__ storing `self.chiN` -> gen_chiN Nm dim
  default_lambda   the default of `self.lambda_` in Strategy.__init__      -> gen_default_lambda dim (float instance)

The matrix code of `update` (numpy.dot / outer / eigh, the paths, C) is NOT translated: its statements are
walked only to know which attributes / locals they write, so that every attribute read inside a translated
fragment is resolved to the right version: `P` (a strategy parameter, never written by update), `st` (the value
before the call, if not written yet), the declared input `ps` (self.ps after its single, untranslated,
assignment) or a translated scalar (e.g. self.update_count after `+= 1`).  Reading anything else is refused.

Grammar (everything else raises Refuse; nothing is guessed)
  statements (computeParams)  self.<attr> = e | self.<attr> op= e | x = e | x op= e (op in + - * /) | docstring
               | if x == "superlinear": A elif x == "linear": B elif x == "equal": C [else: raise ...]
                 with one assignment to the same target per branch, x = params.get("weights", "superlinear")
               | if c: t = a else: t = b
  statements (update, around the fragments)  any assignment / augmented assignment (opaque unless it is a
               translatable scalar), `population.<method>(...)`, compound statements (their stores become
               opaque; one containing `return` before a fragment refuses the fragment); a call `self.m(...)`
               or `f(self)` makes every attribute opaque.
  expressions  int / float literals (see float_lit), names of translated locals, self.<attr> reads,
               + - * / on scalars (an int operand is injected with n_of_nat; int + int, int * int, int // int stay in nat),
               scalar - array, array / scalar, array ** k, x ** k (k int literal) and x ** e with e built from
               integral float literals, int attributes, + and * (repeated multiplication, as the hand model),
               one comparison (< > <= >= ==), conditional expressions, sqrt log exp (math), numpy.log numpy.sqrt
               numpy.exp numpy.arange(a, b) numpy.ones(n) numpy.sum sum numpy.linalg.norm, max(a, b) min(a, b),
               float(e), int(a / b) on ints, int(e) on a float (default_lambda only), params.get("key", default)
               for the keys of the signature table.
Types: N (Python int / nat), T (number of the class Num), V (1-D array = list T), S (weight scheme), B (bool).

Trusted: this file, its signature tables (ATTR_*, KEYS) and the vocabulary coq/Model/C13_GenRt.v.
"""
import ast
import os
from fractions import Fraction

N, T, V, S, B, I = "N", "T", "V", "S", "B", "I"
MAXLIT = 5000


class Refuse(Exception):
    def __init__(self, node, why):
        self.node = type(node).__name__ if not isinstance(node, str) else node
        self.line = getattr(node, "lineno", None)
        self.why = why
        Exception.__init__(self, "%s at line %s: %s" % (self.node, self.line, why))


def refuse(node, why):
    raise Refuse(node, why)


class Val(object):
    def __init__(self, text, kind, lit=None):
        self.text, self.kind, self.lit = text, kind, lit


# ---- signature tables ---------------------------------------------------------------------------
# attributes computeParams may read before assigning them (arguments of the regenerated definition)
CP_INPUTS = {"dim": Val("dim", N), "lambda_": Val("lambda_", N), "chiN": Val("chiN", T)}
# attributes computeParams must assign (fields of the record `params`, in constructor order)
CP_OUT = [("mu", N), ("weights", V), ("mueff", T), ("cc", T), ("cs", T), ("ccov1", T), ("ccovmu", T), ("damps", T)]
# params.get(key, default): field of the record `kargs`
KEYS = {"mu": ("k_mu", N), "ccum": ("k_ccum", T), "cs": ("k_cs", T), "ccov1": ("k_ccov1", T),
        "ccovmu": ("k_ccovmu", T), "damps": ("k_damps", T)}
SCHEMES = {"superlinear": "Superlinear", "linear": "Linear", "equal": "Equal"}
# update: strategy parameters (record `params`, never written by update) and state (record `state`)
UP_PARAMS = {"dim": ("p_dim", N), "lambda_": ("p_lambda", N), "mu": ("p_mu", N), "weights": ("p_weights", V),
             "mueff": ("p_mueff", T), "cc": ("p_cc", T), "cs": ("p_cs", T), "ccov1": ("p_ccov1", T),
             "ccovmu": ("p_ccovmu", T), "damps": ("p_damps", T), "chiN": ("p_chiN", T)}
UP_STATE = {"centroid": ("s_centroid", V), "sigma": ("s_sigma", T), "pc": ("s_pc", V), "ps": ("s_ps", V),
            "update_count": ("s_count", N)}
UP_NEW_INPUT = {"ps": Val("ps", V)}      # self.ps after its (single) untranslated assignment
ORDER = ["computeParams", "hsig", "sigma", "count", "chiN", "default_lambda"]
NAMES = {"computeParams": "Strategy.computeParams", "hsig": "Strategy.update: hsig",
         "sigma": "Strategy.update: self.sigma", "count": "Strategy.update: self.update_count",
         "chiN": "Strategy.__init__: self.chiN", "default_lambda": "Strategy.__init__: default lambda_"}
HEADS = {
    "computeParams": "Definition gen_computeParams {T : Type} (Nm : Num T) (dim lambda_ : nat) (chiN : T) (k : @kargs T) : @params T :=",
    "hsig": "Definition gen_hsig {T : Type} (Nm : Num T) (P : @params T) (st : @state T) (ps : list T) : T :=",
    "sigma": "Definition gen_sigma {T : Type} (Nm : Num T) (P : @params T) (st : @state T) (ps : list T) : T :=",
    "count": "Definition gen_count {T : Type} (Nm : Num T) (P : @params T) (st : @state T) (ps : list T) : nat :=",
    "chiN": "Definition gen_chiN {T : Type} (Nm : Num T) (dim : nat) : T :=",
    "default_lambda": "Definition gen_default_lambda (dim : nat) : nat :=",
}
PLACEHOLDER = {
    "computeParams": "compute_params Nm dim lambda_ chiN k",
    "hsig": "hsig_of Nm P st ps",
    "sigma": "m_sigma_of Nm P st ps",
    "count": "S (s_count st)",
    "chiN": "chiN_of Nm dim",
    "default_lambda": "default_lambda dim",
}


# ---- expressions --------------------------------------------------------------------------------
class Ex(object):
    def __init__(self, source, imports, attr, nm="Nm", params_name=None, float_mode=False):
        self.source = source
        self.math_names, self.math_module, self.numpy_name = imports
        self.attr = attr                  # callback: (attribute name, node) -> Val
        self.nm = nm
        self.params_name = params_name    # name of the dictionary argument of computeParams
        self.float_mode = float_mode
        self.env = {}                     # python local -> Val

    # -- coercions
    def toT(self, v, node):
        if v.kind == T:
            return v.text
        if v.kind == N:
            return "(n_of_nat %s %s)" % (self.nm, v.text)
        if v.kind == I:
            if not (0 <= v.lit <= MAXLIT):
                refuse(node, "integer literal %r outside 0..%d" % (v.lit, MAXLIT))
            return "(n_of_nat %s %d)" % (self.nm, v.lit)
        refuse(node, "a number is needed, got kind %s" % v.kind)

    def toN(self, v, node):
        if v.kind == N:
            return v.text
        if v.kind == I:
            if not (0 <= v.lit <= MAXLIT):
                refuse(node, "integer literal %r outside 0..%d" % (v.lit, MAXLIT))
            return "%d" % v.lit
        refuse(node, "an int is needed, got kind %s" % v.kind)

    def float_lit(self, node):
        """decimal literal -> the rational it denotes, written #p / #q with q = 1 (integral), q = 2^j reduced
        (dyadic, e.g. 0.5 = #1 / #2) or q = 10^k as written (1.4 = #14 / #10): the hand model's convention"""
        txt = ast.get_source_segment(self.source, node)
        try:
            fr = Fraction(txt)
        except (ValueError, TypeError):
            refuse(node, "float literal %r not in decimal form" % (txt,))
        if float(fr) != node.value or fr < 0:
            refuse(node, "float literal %r" % (txt,))
        n, d = fr.numerator, fr.denominator
        if d & (d - 1) != 0:            # not a power of two: keep the decimal denominator
            k = 0
            while (fr * 10 ** k).denominator != 1:
                k += 1
                if k > 6:
                    refuse(node, "float literal %r too fine" % (txt,))
            n, d = int(fr * 10 ** k), 10 ** k
        if n > MAXLIT or d > MAXLIT:
            refuse(node, "float literal %r outside the representable range of the translator" % (txt,))
        if d == 1:
            return Val("(n_of_nat %s %d)" % (self.nm, n), T, lit=fr)
        return Val("(n_div %s (n_of_nat %s %d) (n_of_nat %s %d))" % (self.nm, self.nm, n, self.nm, d), T, lit=fr)

    def expr(self, node):
        m = getattr(self, "e_" + type(node).__name__, None)
        if m is None:
            refuse(node, "expression form outside the grammar")
        return m(node)

    def e_Constant(self, node):
        v = node.value
        if isinstance(v, bool):
            refuse(node, "boolean constant")
        if isinstance(v, int):
            return Val(str(v), I, lit=v)
        if isinstance(v, float):
            return self.float_lit(node)
        refuse(node, "constant of type %s" % type(v).__name__)

    def e_Name(self, node):
        if node.id in self.env:
            v = self.env[node.id]
            if v is None:
                refuse(node, "read of the untranslated local %s" % node.id)
            return v
        refuse(node, "unknown name %s" % node.id)

    def e_Attribute(self, node):
        if isinstance(node.value, ast.Name) and node.value.id == "self":
            return self.attr(node.attr, node)
        refuse(node, "attribute access outside the grammar")

    def natmode(self, node):
        """exponent of **: a natural number built from integral literals, int attributes, + and *"""
        if isinstance(node, ast.Constant) and not isinstance(node.value, bool):
            v = node.value
            if isinstance(v, (int, float)) and v == int(v) and 0 <= v <= MAXLIT:
                return "%d" % int(v)
            refuse(node, "exponent literal %r" % (v,))
        if isinstance(node, (ast.Attribute, ast.Name)):
            v = self.expr(node)
            if v.kind != N:
                refuse(node, "non-integer inside an exponent")
            return v.text
        if isinstance(node, ast.BinOp) and isinstance(node.op, (ast.Add, ast.Mult)):
            return "(%s %s %s)" % (self.natmode(node.left), "+" if isinstance(node.op, ast.Add) else "*",
                                   self.natmode(node.right))
        refuse(node, "exponent outside the grammar")

    def e_BinOp(self, node):
        op = node.op
        if isinstance(op, ast.Pow):
            a = self.expr(node.left)
            if a.kind == V:
                b = self.expr(node.right)
                if b.kind != I or not (0 <= b.lit <= 64):
                    refuse(node, "array ** non-literal")
                return Val("(g_vpow %s %s %d)" % (self.nm, a.text, b.lit), V)
            e = self.natmode(node.right)
            return Val("(npow %s %s %s)" % (self.nm, self.toT(a, node.left), e), T)
        a, b = self.expr(node.left), self.expr(node.right)
        if isinstance(op, ast.FloorDiv) and a.kind in (N, I) and b.kind in (N, I):
            return Val("(Nat.div %s %s)" % (self.toN(a, node), self.toN(b, node)), N)
        if type(op) not in (ast.Add, ast.Sub, ast.Mult, ast.Div):
            refuse(node, "binary operator outside the grammar")
        if a.kind in (N, I) and b.kind in (N, I):
            if isinstance(op, (ast.Add, ast.Mult)):
                return Val("(%s %s %s)" % (self.toN(a, node), "+" if isinstance(op, ast.Add) else "*", self.toN(b, node)), N)
            refuse(node, "int - int or int / int")
        if a.kind == V or b.kind == V:
            if isinstance(op, ast.Sub) and b.kind == V and a.kind in (T, N, I):
                return Val("(g_ssub %s %s %s)" % (self.nm, self.toT(a, node.left), b.text), V)
            if isinstance(op, ast.Div) and a.kind == V and b.kind in (T, N, I):
                return Val("(g_vdivs %s %s %s)" % (self.nm, a.text, self.toT(b, node.right)), V)
            refuse(node, "array arithmetic outside the grammar")
        name = {ast.Add: "n_add", ast.Sub: "n_sub", ast.Mult: "n_mul", ast.Div: "n_div"}[type(op)]
        return Val("(%s %s %s %s)" % (name, self.nm, self.toT(a, node.left), self.toT(b, node.right)), T)

    def e_Compare(self, node):
        if len(node.ops) != 1:
            refuse(node, "chained comparison")
        op = type(node.ops[0])
        a, b = self.expr(node.left), self.expr(node.comparators[0])
        if a.kind in (N, I) and b.kind in (N, I):
            x, y = self.toN(a, node), self.toN(b, node)
            tab = {ast.Lt: "(Nat.ltb %s %s)" % (x, y), ast.LtE: "(Nat.leb %s %s)" % (x, y), ast.Gt: "(Nat.ltb %s %s)" % (y, x),
                   ast.GtE: "(Nat.leb %s %s)" % (y, x), ast.Eq: "(Nat.eqb %s %s)" % (x, y)}
        else:
            x, y = self.toT(a, node.left), self.toT(b, node.comparators[0])
            nm = self.nm
            tab = {ast.Lt: "(n_ltb %s %s %s)" % (nm, x, y), ast.Gt: "(n_ltb %s %s %s)" % (nm, y, x),
                   ast.LtE: "(g_leb %s %s %s)" % (nm, x, y), ast.GtE: "(g_leb %s %s %s)" % (nm, y, x),
                   ast.Eq: "(n_eqb %s %s %s)" % (nm, x, y)}
        if op not in tab:
            refuse(node, "comparison operator outside the grammar")
        return Val(tab[op], B)

    def e_IfExp(self, node):
        c = self.expr(node.test)
        if c.kind != B:
            refuse(node, "condition is not a comparison")
        a, b = self.expr(node.body), self.expr(node.orelse)
        if a.kind == b.kind and a.kind in (N, T, V):
            return Val("(if %s then %s else %s)" % (c.text, a.text, b.text), a.kind)
        if a.kind in (N, I) and b.kind in (N, I):
            return Val("(if %s then %s else %s)" % (c.text, self.toN(a, node), self.toN(b, node)), N)
        return Val("(if %s then %s else %s)" % (c.text, self.toT(a, node.body), self.toT(b, node.orelse)), T)

    def e_Call(self, node):
        f = node.func
        if node.keywords or any(isinstance(a, ast.Starred) for a in node.args):
            refuse(node, "keyword / starred arguments")
        args = node.args
        fname = None
        if isinstance(f, ast.Name):
            if f.id in self.env:
                refuse(node, "call of a local")
            if f.id in ("sqrt", "log", "exp"):
                if f.id not in self.math_names:
                    refuse(node, "%s is not the function imported from math" % f.id)
                fname = "math." + f.id
            elif f.id in ("sum", "max", "min", "int", "float"):
                fname = f.id
        elif isinstance(f, ast.Attribute):
            if isinstance(f.value, ast.Name) and f.value.id == self.math_module and f.attr in ("sqrt", "log", "exp"):
                fname = "math." + f.attr
            elif isinstance(f.value, ast.Name) and self.numpy_name and f.value.id == self.numpy_name:
                fname = "numpy." + f.attr
            elif (isinstance(f.value, ast.Attribute) and isinstance(f.value.value, ast.Name) and self.numpy_name
                  and f.value.value.id == self.numpy_name and f.value.attr == "linalg" and f.attr == "norm"):
                fname = "numpy.linalg.norm"
            elif (f.attr == "get" and isinstance(f.value, ast.Name) and self.params_name
                  and f.value.id == self.params_name and f.value.id not in self.env):
                return self.params_get(node)
        if fname is None:
            refuse(node, "call outside the grammar")
        nm = self.nm
        if fname in ("math.sqrt", "math.log", "math.exp", "numpy.sqrt", "numpy.log", "numpy.exp"):
            if len(args) != 1:
                refuse(node, "arity")
            a = self.expr(args[0])
            prim = {"sqrt": "n_sqrt", "log": "n_ln", "exp": "n_exp"}[fname.split(".")[1]]
            if a.kind == V:
                if fname != "numpy.log":
                    refuse(node, "%s of an array" % fname)
                return Val("(g_vlog %s %s)" % (nm, a.text), V)
            return Val("(%s %s %s)" % (prim, nm, self.toT(a, args[0])), T)
        if fname == "numpy.arange":
            if len(args) != 2:
                refuse(node, "numpy.arange arity")
            return Val("(g_arange %s %s %s)" % (nm, self.toN(self.expr(args[0]), args[0]), self.toN(self.expr(args[1]), args[1])), V)
        if fname == "numpy.ones":
            if len(args) != 1:
                refuse(node, "numpy.ones arity")
            return Val("(g_ones %s %s)" % (nm, self.toN(self.expr(args[0]), args[0])), V)
        if fname in ("sum", "numpy.sum"):
            if len(args) != 1:
                refuse(node, "sum arity")
            a = self.expr(args[0])
            if a.kind != V:
                refuse(node, "sum of a non-array")
            return Val("(vsum %s %s)" % (nm, a.text), T)
        if fname == "numpy.linalg.norm":
            if len(args) != 1:
                refuse(node, "norm arity")
            a = self.expr(args[0])
            if a.kind != V:
                refuse(node, "norm of a non-array")
            return Val("(norm %s %s)" % (nm, a.text), T)
        if fname in ("max", "min"):
            if len(args) != 2:
                refuse(node, "%s arity" % fname)
            a, b = self.expr(args[0]), self.expr(args[1])
            if a.kind in (N, I) and b.kind in (N, I):
                refuse(node, "%s of two ints" % fname)
            return Val("(g_%s %s %s %s)" % (fname, nm, self.toT(a, args[0]), self.toT(b, args[1])), T)
        if fname == "float":
            if len(args) != 1:
                refuse(node, "float arity")
            a = self.expr(args[0])
            if a.kind == B:
                return Val("(g_of_bool %s %s)" % (nm, a.text), T)
            return Val(self.toT(a, args[0]), T)
        if fname == "int":
            if len(args) != 1:
                refuse(node, "int arity")
            x = args[0]
            if isinstance(x, ast.BinOp) and isinstance(x.op, ast.Div):
                a, b = self.expr(x.left), self.expr(x.right)
                if a.kind in (N, I) and b.kind in (N, I):
                    return Val("(Nat.div %s %s)" % (self.toN(a, x), self.toN(b, x)), N)
            a = self.expr(x)
            if a.kind in (N, I):
                return Val(self.toN(a, x), N)
            if a.kind == T and self.float_mode:
                return Val("(ftrunc %s)" % a.text, N)
            refuse(node, "int() of a number of the generic class")
        refuse(node, "call of %s" % fname)

    def params_get(self, node):
        a = node.args
        if len(a) != 2 or not (isinstance(a[0], ast.Constant) and isinstance(a[0].value, str)):
            refuse(node, "params.get needs a literal key and a default")
        key = a[0].value
        if key == "weights":
            if not (isinstance(a[1], ast.Constant) and a[1].value == "superlinear"):
                refuse(node, "default of the weights scheme is not \"superlinear\"")
            return Val("(k_weights k)", S)
        if key not in KEYS:
            refuse(node, "params.get of the undeclared key %r" % key)
        field, kind = KEYS[key]
        d = self.expr(a[1])
        dt = self.toN(d, a[1]) if kind == N else self.toT(d, a[1])
        return Val("(getd (%s k) %s)" % (field, dt), kind)


# ---- helpers on statements ------------------------------------------------------------------------
def is_docstring(s):
    return isinstance(s, ast.Expr) and isinstance(s.value, ast.Constant) and isinstance(s.value.value, str)


def self_attr(node):
    if isinstance(node, ast.Attribute) and isinstance(node.value, ast.Name) and node.value.id == "self":
        return node.attr
    return None


def lets_text(lets, result):
    return "".join("  let %s := %s in\n" % (n, e) for n, e in lets) + "  " + result


AUGOPS = (ast.Add, ast.Sub, ast.Mult, ast.Div)


def aug_as_binop(s):
    fake = ast.BinOp(left=s.target, op=s.op, right=s.value)
    ast.copy_location(fake, s)
    # the target is re-read: same node in Load position (ctx is not inspected by the translator)
    return fake


def coerce_to(ex, v, kind, node):
    if kind == N:
        return Val(ex.toN(v, node), N)
    if kind == T:
        return Val(ex.toT(v, node), T)
    if v.kind != kind:
        refuse(node, "value of kind %s where %s is needed" % (v.kind, kind))
    return v


# ---- computeParams --------------------------------------------------------------------------------
def tr_computeParams(fdef, source, imports):
    a = fdef.args
    names = [x.arg for x in a.args]
    if len(names) != 2 or names[0] != "self" or a.vararg or a.kwarg or a.kwonlyargs or a.defaults or a.posonlyargs:
        refuse(fdef, "parameters %r differ from the signature table (self, params)" % names)
    if fdef.decorator_list:
        refuse(fdef, "decorator")
    assigned = {}
    out_kinds = dict(CP_OUT)

    def attr(name, node):
        if name in assigned:
            return assigned[name]
        if name in CP_INPUTS and name not in out_kinds:
            return CP_INPUTS[name]
        refuse(node, "read of self.%s before computeParams assigns it" % name)
    ex = Ex(source, imports, attr, params_name=names[1])
    lets = []

    def target_of(tg, node):
        """-> (python key for env/assigned, coq name, required kind or None)"""
        at = self_attr(tg)
        if at is not None:
            if at not in out_kinds:
                refuse(node, "assignment to the undeclared attribute self.%s" % at)
            return ("attr", at), "s_" + at, out_kinds[at]
        if isinstance(tg, ast.Name):
            if tg.id in ("self", names[1]):
                refuse(node, "assignment to a parameter")
            return ("name", tg.id), "v_" + tg.id, None
        refuse(node, "assignment target outside the grammar")

    def bind(key, coqname, kind, v, node):
        if kind is not None:
            v = coerce_to(ex, v, kind, node)
        elif v.kind == I:
            v = Val(ex.toN(v, node), N)
        if v.kind == B:
            refuse(node, "boolean bound to a name")
        lets.append((coqname, v.text))
        nv = Val(coqname, v.kind)
        if key[0] == "attr":
            assigned[key[1]] = nv
        else:
            ex.env[key[1]] = nv

    def single_assign(blk, node):
        blk = [s for s in blk if not is_docstring(s)]
        if len(blk) != 1 or not isinstance(blk[0], ast.Assign) or len(blk[0].targets) != 1:
            refuse(node, "a branch must be one assignment")
        return blk[0]

    for s in fdef.body:
        if is_docstring(s):
            continue
        if isinstance(s, ast.Assign):
            if len(s.targets) != 1:
                refuse(s, "multiple assignment targets")
            key, cn, kind = target_of(s.targets[0], s)
            v = ex.expr(s.value)
            if v.kind == S:
                if key[0] != "name":
                    refuse(s, "scheme stored in an attribute")
                lets.append((cn, v.text))
                ex.env[key[1]] = Val(cn, S)
                continue
            bind(key, cn, kind, v, s)
        elif isinstance(s, ast.AugAssign):
            if not isinstance(s.op, AUGOPS):
                refuse(s, "augmented operator outside the grammar")
            key, cn, kind = target_of(s.target, s)
            bind(key, cn, kind, ex.expr(aug_as_binop(s)), s)
        elif isinstance(s, ast.If):
            t = s.test
            subj = None
            if (isinstance(t, ast.Compare) and len(t.ops) == 1 and isinstance(t.ops[0], ast.Eq)
                    and isinstance(t.comparators[0], ast.Constant) and isinstance(t.comparators[0].value, str)):
                subj = ex.expr(t.left)
                if subj.kind != S:
                    refuse(s, "string comparison on a value that is not the weights scheme")
            if subj is not None:
                branches, cur, tgt = {}, s, None
                while True:
                    tt = cur.test
                    ok = (isinstance(tt, ast.Compare) and len(tt.ops) == 1 and isinstance(tt.ops[0], ast.Eq)
                          and isinstance(tt.comparators[0], ast.Constant) and isinstance(tt.comparators[0].value, str)
                          and ast.dump(tt.left) == ast.dump(t.left))
                    if not ok:
                        refuse(cur, "scheme chain with a test outside the grammar")
                    lit = tt.comparators[0].value
                    if lit not in SCHEMES or lit in branches:
                        refuse(cur, "unknown or repeated scheme %r" % lit)
                    asg = single_assign(cur.body, cur)
                    if tgt is None:
                        tgt = asg.targets[0]
                    elif ast.dump(tgt) != ast.dump(asg.targets[0]):
                        refuse(cur, "branches assign different targets")
                    branches[lit] = asg
                    if len(cur.orelse) == 1 and isinstance(cur.orelse[0], ast.If):
                        cur = cur.orelse[0]
                        continue
                    rest = [x for x in cur.orelse if not is_docstring(x)]
                    if rest and not (len(rest) == 1 and isinstance(rest[0], ast.Raise)):
                        refuse(cur, "the final else of the scheme chain must raise")
                    break
                if set(branches) != set(SCHEMES):
                    refuse(s, "scheme chain does not cover exactly superlinear / linear / equal")
                key, cn, kind = target_of(tgt, s)
                vals = {}
                for lit, asg in branches.items():
                    vals[lit] = coerce_to(ex, ex.expr(asg.value), kind or V, asg)
                txt = "(match %s with %s end)" % (subj.text, " ".join(
                    "| %s => %s" % (SCHEMES[l], vals[l].text) for l in ("superlinear", "linear", "equal")))
                bind(key, cn, kind, Val(txt, vals["linear"].kind), s)
            else:
                c = ex.expr(t)
                if c.kind != B:
                    refuse(s, "condition is not a comparison")
                a1, a2 = single_assign(s.body, s), single_assign(s.orelse, s)
                if ast.dump(a1.targets[0]) != ast.dump(a2.targets[0]):
                    refuse(s, "branches assign different targets")
                key, cn, kind = target_of(a1.targets[0], s)
                v1, v2 = ex.expr(a1.value), ex.expr(a2.value)
                k2 = kind or (V if v1.kind == V else T)
                v1, v2 = coerce_to(ex, v1, k2, a1), coerce_to(ex, v2, k2, a2)
                bind(key, cn, kind, Val("(if %s then %s else %s)" % (c.text, v1.text, v2.text), k2), s)
        else:
            refuse(s, "statement outside the grammar")
    for at, _ in CP_OUT:
        if at not in assigned:
            refuse(fdef, "self.%s is never assigned" % at)
    res = "mkParams dim lambda_ %s chiN" % " ".join("s_" + at for at, _ in CP_OUT)
    return lets_text(lets, res)


# ---- update: the scalar fragments -----------------------------------------------------------------
def stores_in(node):
    """names and self attributes stored anywhere inside a statement"""
    names, attrs = set(), set()
    for n in ast.walk(node):
        if isinstance(n, ast.Name) and isinstance(n.ctx, (ast.Store, ast.Del)):
            names.add(n.id)
        elif isinstance(n, ast.Attribute) and isinstance(n.ctx, (ast.Store, ast.Del)):
            at = self_attr(n)
            if at is None:
                attrs.add(None)        # a store through another object: unknown
            else:
                attrs.add(at)
        elif isinstance(n, ast.Subscript) and isinstance(n.ctx, (ast.Store, ast.Del)):
            b = n.value
            while isinstance(b, ast.Subscript):
                b = b.value
            at = self_attr(b)
            if at is not None:
                attrs.add(at)
            elif isinstance(b, ast.Name):
                names.add(b.id)
            else:
                attrs.add(None)
    return names, attrs


def clobbers(node):
    """a call that may change the strategy behind the translator's back"""
    for n in ast.walk(node):
        if isinstance(n, ast.Call):
            if self_attr(n.func) is not None:
                return True
            for a in list(n.args) + [k.value for k in n.keywords]:
                if isinstance(a, ast.Name) and a.id == "self":
                    return True
                if isinstance(a, ast.Starred):
                    return True
        if isinstance(n, (ast.Global, ast.Nonlocal, ast.With, ast.Try, ast.Yield, ast.YieldFrom, ast.Await,
                          ast.FunctionDef, ast.ClassDef, ast.Delete)):
            return True
    return False


def tr_update(fdef, source, imports, want):
    """-> {unit: text | Refuse} for the units in `want` (hsig, sigma, count)"""
    a = fdef.args
    names = [x.arg for x in a.args]
    if len(names) != 2 or names[0] != "self" or a.vararg or a.kwarg or a.kwonlyargs or a.defaults or a.posonlyargs \
            or fdef.decorator_list:
        r = Refuse(fdef, "parameters %r differ from the signature table (self, population)" % names)
        return {u: r for u in want}
    pop = names[1]
    version = {}        # attribute -> Val (translated / declared input) | None (opaque); absent = value before the call
    written = {}        # attribute -> number of top-level statements writing it
    state = {"all_opaque": False, "early_return": None}

    def attr(name, node):
        if state["all_opaque"]:
            refuse(node, "self.%s read after a call that may change the strategy" % name)
        if name in UP_PARAMS:
            if name in version:
                refuse(node, "strategy parameter self.%s is written by update" % name)
            f, kind = UP_PARAMS[name]
            return Val("(%s P)" % f, kind)
        if name in version:
            if version[name] is None:
                refuse(node, "read of self.%s after an untranslated assignment" % name)
            return version[name]
        if name in UP_STATE:
            f, kind = UP_STATE[name]
            return Val("(%s st)" % f, kind)
        refuse(node, "read of the undeclared attribute self.%s" % name)
    ex = Ex(source, imports, attr)
    ex.env[pop] = None
    lets = []
    out = {}
    total_names, total_attrs = stores_in(fdef)
    # each fragment's target must be stored exactly once in the whole method (hsig: once, or once per branch)
    nstores = {}
    for n in ast.walk(fdef):
        if isinstance(n, ast.Name) and isinstance(n.ctx, ast.Store):
            nstores[("name", n.id)] = nstores.get(("name", n.id), 0) + 1
        elif isinstance(n, ast.Attribute) and isinstance(n.ctx, ast.Store) and self_attr(n):
            nstores[("attr", n.attr)] = nstores.get(("attr", n.attr), 0) + 1

    def fragment(unit, fn, node):
        if unit in out:
            out[unit] = Refuse(node, "a second statement defines this unit")
            return
        try:
            if state["early_return"] is not None:
                refuse(node, "a statement at line %s may return before this one" % state["early_return"])
            out[unit] = fn()
        except Refuse as r:
            out[unit] = r

    def opaque(s):
        ns, ats = stores_in(s)
        for n_ in ns:
            ex.env[n_] = None
        for at in ats:
            if at is None:
                state["all_opaque"] = True
            elif at in UP_NEW_INPUT and at not in version and isinstance(s, ast.Assign):
                version[at] = UP_NEW_INPUT[at]
            else:
                version[at] = None

    def try_scalar(s, tg, value_node):
        """translate `tg = value` as a scalar binding if possible; returns True when done"""
        saved = len(lets)
        try:
            v = ex.expr(value_node)
            at = self_attr(tg)
            if v.kind == I:
                v = Val(ex.toN(v, s), N)
            if v.kind not in (N, T, V):
                return False
            if at is not None:
                kind = (UP_STATE.get(at) or (None, None))[1]
                if kind is None or kind != v.kind and not (kind == T and v.kind == N):
                    return False
                if kind == T:
                    v = Val(ex.toT(v, s), T)
                cn = "a_%s_%d" % (at, s.lineno)
                lets.append((cn, v.text))
                version[at] = Val(cn, kind)
            else:
                cn = "v_%s_%d" % (tg.id, s.lineno)
                lets.append((cn, v.text))
                ex.env[tg.id] = Val(cn, v.kind)
            return True
        except Refuse:
            del lets[saved:]
            return False

    def with_lets(v):
        return lets_text(list(lets), v.text)

    for s in fdef.body:
        if is_docstring(s):
            continue
        if clobbers(s):
            state["all_opaque"] = True
        if isinstance(s, ast.Return):
            state["early_return"] = s.lineno
            continue
        if isinstance(s, ast.Expr):
            c = s.value
            if not (isinstance(c, ast.Call) and isinstance(c.func, ast.Attribute) and isinstance(c.func.value, ast.Name)
                    and c.func.value.id == pop):
                state["all_opaque"] = True
            continue
        if isinstance(s, (ast.Assign, ast.AugAssign)):
            tgs = s.targets if isinstance(s, ast.Assign) else [s.target]
            tg = tgs[0] if len(tgs) == 1 else None
            value = s.value if isinstance(s, ast.Assign) else None
            if isinstance(s, ast.AugAssign) and isinstance(s.op, AUGOPS):
                value = aug_as_binop(s)
            at = self_attr(tg) if tg is not None else None
            is_hsig = isinstance(tg, ast.Name) and tg.id == "hsig"
            if is_hsig or at in ("sigma", "update_count"):
                unit = "hsig" if is_hsig else {"sigma": "sigma", "update_count": "count"}[at]
                key = ("name", "hsig") if is_hsig else ("attr", at)

                def fn(unit=unit, key=key, s=s, value=value, at=at):
                    if nstores.get(key, 0) != 1:
                        refuse(s, "%s is stored %d times in update" % (key[1], nstores.get(key, 0)))
                    if value is None:
                        refuse(s, "augmented operator outside the grammar")
                    v = ex.expr(value)
                    if unit == "count":
                        return with_lets(Val(ex.toN(v, s), N)), Val(ex.toN(v, s), N)
                    if v.kind == B:
                        refuse(s, "boolean stored without float()")
                    return with_lets(Val(ex.toT(v, s), T)), Val(ex.toT(v, s), T)
                fragment(unit, fn, s)
                r = out[unit]
                if isinstance(r, Refuse):
                    opaque(s)
                else:
                    out[unit], v = r
                    cn = ("v_hsig_%d" % s.lineno) if is_hsig else ("a_%s_%d" % (at, s.lineno))
                    lets.append((cn, v.text))
                    if is_hsig:
                        ex.env["hsig"] = Val(cn, T)
                    else:
                        version[at] = Val(cn, v.kind)
                continue
            if tg is not None and value is not None and (isinstance(tg, ast.Name) or (at is not None and at in UP_STATE
                                                                                       and UP_STATE[at][1] != V)):
                if try_scalar(s, tg, value):
                    continue
            opaque(s)
            continue
        if isinstance(s, ast.If) and s.orelse:
            # if c: hsig = a else: hsig = b
            b1 = [x for x in s.body if not is_docstring(x)]
            b2 = [x for x in s.orelse if not is_docstring(x)]
            if (len(b1) == 1 and len(b2) == 1 and all(isinstance(x, ast.Assign) and len(x.targets) == 1
                                                      and isinstance(x.targets[0], ast.Name) and x.targets[0].id == "hsig"
                                                      for x in (b1[0], b2[0]))):
                def fn(s=s, b1=b1, b2=b2):
                    if nstores.get(("name", "hsig"), 0) != 2:
                        refuse(s, "hsig is stored %d times in update" % nstores.get(("name", "hsig"), 0))
                    c = ex.expr(s.test)
                    if c.kind != B:
                        refuse(s, "condition is not a comparison")
                    v1, v2 = ex.expr(b1[0].value), ex.expr(b2[0].value)
                    v = Val("(if %s then %s else %s)" % (c.text, ex.toT(v1, s), ex.toT(v2, s)), T)
                    return with_lets(v), v
                fragment("hsig", fn, s)
                r = out["hsig"]
                if isinstance(r, Refuse):
                    opaque(s)
                else:
                    out["hsig"], v = r
                    cn = "v_hsig_%d" % s.lineno
                    lets.append((cn, v.text))
                    ex.env["hsig"] = Val(cn, T)
                continue
        # any other (compound) statement: its stores become opaque; a return inside may end the call early
        opaque(s)
        if any(isinstance(n, (ast.Return, ast.Raise)) for n in ast.walk(s)) and state["early_return"] is None:
            state["early_return"] = s.lineno
    for u in want:
        if u not in out:
            out[u] = Refuse(fdef, "no top-level statement of update defines this unit")
    return {u: out[u] for u in want}


# ---- __init__: chiN and the default lambda_ ----------------------------------------------------------
def init_statement(fdef, attr_name):
    """the single top-level statement of __init__ storing self.<attr_name>, after self.dim = len(self.centroid)"""
    found = []
    dim_stores = []
    for s in fdef.body:
        for n in ast.walk(s):
            if isinstance(n, ast.Attribute) and isinstance(n.ctx, ast.Store) and self_attr(n) == "dim":
                dim_stores.append(s)
            if isinstance(n, ast.Attribute) and isinstance(n.ctx, ast.Store) and self_attr(n) == attr_name:
                found.append(s)
    if len(found) != 1 or not isinstance(found[0], ast.Assign) or len(found[0].targets) != 1 \
            or self_attr(found[0].targets[0]) != attr_name:
        refuse(fdef, "self.%s is not assigned by exactly one top-level statement of __init__" % attr_name)
    s = found[0]
    if len(dim_stores) != 1 or dim_stores[0].lineno >= s.lineno:
        refuse(s, "self.dim is not assigned exactly once before self.%s" % attr_name)
    d = dim_stores[0]
    ok = (isinstance(d, ast.Assign) and len(d.targets) == 1 and self_attr(d.targets[0]) == "dim"
          and isinstance(d.value, ast.Call) and isinstance(d.value.func, ast.Name)
          and d.value.func.id == "len" and len(d.value.args) == 1 and self_attr(d.value.args[0]) == "centroid"
          and not d.value.keywords)
    if not ok:
        refuse(d, "self.dim is not len(self.centroid)")
    for x in fdef.body:
        if x.lineno < s.lineno and any(isinstance(n, ast.Return) for n in ast.walk(x)):
            refuse(x, "a return before self.%s in __init__" % attr_name)
    return s


def tr_chiN(fdef, source, imports):
    s = init_statement(fdef, "chiN")

    def attr(name, node):
        if name == "dim":
            return Val("dim", N)
        refuse(node, "read of self.%s in self.chiN" % name)
    ex = Ex(source, imports, attr)
    v = ex.expr(s.value)
    return "  " + ex.toT(v, s)


def tr_default_lambda(fdef, source, imports):
    s = init_statement(fdef, "lambda_")
    c = s.value
    kw = fdef.args.kwarg.arg if fdef.args.kwarg else None
    ok = (isinstance(c, ast.Call) and isinstance(c.func, ast.Attribute) and c.func.attr == "get" and not c.keywords
          and len(c.args) == 2 and isinstance(c.args[0], ast.Constant) and c.args[0].value == "lambda_"
          and (self_attr(c.func.value) == "params" or (isinstance(c.func.value, ast.Name) and c.func.value.id == kw)))
    if not ok:
        refuse(s, "self.lambda_ is not <kargs>.get(\"lambda_\", default)")

    def attr(name, node):
        if name == "dim":
            return Val("dim", N)
        refuse(node, "read of self.%s in the default of lambda_" % name)
    ex = Ex(source, imports, attr, nm="FloatNum", float_mode=True)
    v = ex.expr(c.args[1])
    return "  " + ex.toN(v, s)


# ---- driver ------------------------------------------------------------------------------------------
def module_imports(tree):
    names, mathmod, numpy_name = set(), None, None
    for n in tree.body:
        if isinstance(n, ast.ImportFrom) and n.module == "math":
            for a in n.names:
                if a.asname is None:
                    names.add(a.name)
        elif isinstance(n, ast.Import):
            for a in n.names:
                if a.name == "math":
                    mathmod = a.asname or "math"
                if a.name == "numpy":
                    numpy_name = a.asname or "numpy"
    # a module-level rebinding of one of these names makes them unknown
    for n in tree.body:
        bound = set()
        if isinstance(n, (ast.FunctionDef, ast.ClassDef)):
            bound.add(n.name)
        elif isinstance(n, (ast.Assign, ast.AugAssign, ast.AnnAssign, ast.For, ast.With, ast.If, ast.Try)):
            bound |= stores_in(n)[0]
        elif isinstance(n, (ast.Import, ast.ImportFrom)):
            for a in n.names:
                nm = a.asname or a.name.split(".")[0]
                if isinstance(n, ast.ImportFrom) and n.module == "math" and a.asname is None:
                    continue
                if isinstance(n, ast.Import) and a.name in ("math", "numpy"):
                    continue
                bound.add(nm)
        names -= bound
        if mathmod in bound:
            mathmod = None
        if numpy_name in bound:
            numpy_name = None
    return names, mathmod, numpy_name


HEADER = """(* GENERATED by harness/c13_py2coq.py from %s -- do not edit, never committed.
   Regenerated on every run of ./check C13; Proofs/C13_gen_equiv.v proves each definition equal to the hand model. *)
From Coq Require Import List Bool Arith PrimFloat.
From DV Require Import Base.C13_FloatFun Model.C13_CMAexec Model.C13_GenRt.
Import ListNotations.

"""


def translate_source(source, forced=(), origin="deap/cma.py"):
    """-> (coq text, {unit: None | Refuse})"""
    status = {}
    bodies = {}
    try:
        tree = ast.parse(source)
    except (SyntaxError, ValueError) as e:
        r = Refuse("Module", "cannot parse: %s" % e)
        status = {u: r for u in ORDER}
        tree = None
    if tree is not None:
        imports = module_imports(tree)
        cls = None
        for n in tree.body:
            if isinstance(n, ast.ClassDef) and n.name == "Strategy":
                cls = n if cls is None else False
        methods = {}
        if cls:
            for n in cls.body:
                if isinstance(n, ast.FunctionDef):
                    methods[n.name] = n if n.name not in methods else False
            if cls.decorator_list or cls.keywords:
                cls = None

        def method(name):
            if not cls:
                refuse("ClassDef", "class Strategy not found exactly once (undecorated)")
            m = methods.get(name)
            if not m:
                refuse("FunctionDef", "method Strategy.%s not found exactly once" % name)
            return m

        def guarded(unit, fn):
            if unit in forced:
                status[unit] = Refuse("FunctionDef", "refusal forced by the caller")
                return
            try:
                bodies[unit] = fn()
                status[unit] = None
            except Refuse as r:
                status[unit] = r
            except RecursionError:
                status[unit] = Refuse("FunctionDef", "expression too deeply nested")
            except Exception as e:  # noqa  (fail closed: an internal error is a refusal, never a guess)
                status[unit] = Refuse("FunctionDef", "translator internal error %s: %s" % (type(e).__name__, e))
        guarded("computeParams", lambda: tr_computeParams(method("computeParams"), source, imports))
        up = {}
        try:
            up = tr_update(method("update"), source, imports, ["hsig", "sigma", "count"])
        except Refuse as r:
            up = {u: r for u in ("hsig", "sigma", "count")}
        except Exception as e:  # noqa
            r = Refuse("FunctionDef", "translator internal error %s: %s" % (type(e).__name__, e))
            up = {u: r for u in ("hsig", "sigma", "count")}
        for u in ("hsig", "sigma", "count"):
            def fn(u=u):
                if isinstance(up[u], Refuse):
                    raise up[u]
                return up[u]
            guarded(u, fn)
        guarded("chiN", lambda: tr_chiN(method("__init__"), source, imports))
        guarded("default_lambda", lambda: tr_default_lambda(method("__init__"), source, imports))
    parts = [HEADER % origin]
    for u in ORDER:
        if status[u] is None:
            parts.append("(* %s *)\n%s\n%s.\n\n" % (NAMES[u], HEADS[u], bodies[u]))
        else:
            parts.append("(* %s *)\n(* REFUSED: %s *)\n%s\n  %s.\n\n"
                         % (NAMES[u], str(status[u]).replace("*)", "* )"), HEADS[u], PLACEHOLDER[u]))
    return "".join(parts), status


def translate_repo(repo, forced=()):
    path = os.path.join(repo, "deap", "cma.py")
    with open(path) as f:
        src = f.read()
    return translate_source(src, forced, origin=path)


if __name__ == "__main__":
    import sys
    txt, st = translate_repo(sys.argv[1] if len(sys.argv) > 1 else "/repo", tuple(sys.argv[2:]))
    print(txt)
    for k, v in st.items():
        print("(* %s: %s *)" % (k, "translated" if v is None else "REFUSED " + str(v)))
