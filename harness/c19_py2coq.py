"""Fail-closed translator: deap/tools/constraint.py (DeltaPenalty, ClosestValidPenalty) -> Gallina.

Tie (T) of property C19 (DESIGN.md 2.3).  The working-tree source of constraint.py is parsed with
Python's `ast`; the bodies of the two `__init__` methods and of the two `wrapper` closures are
compiled, statement by statement, into the exception + call-log monad of coq/Base/C19_PyRt.v and
written to coq/Gen/C19_gen.v (never committed) together with a fixed trailer that proves
    gen_delta_wrapper = Model.delta_wrapper,  gen_closest_wrapper = Model.closest_wrapper  (and the inits)
and restates the C19 property theorems on the regenerated definitions.  A semantic change of the
source therefore breaks a proof obligation; a syntactic change outside the grammar below makes the
translator REFUSE (class Refuse), and the check falls back to the correspondence tie.

Grammar (everything else is refused):
  statements   x = e | self.f = e (in __init__) | if c: ... [else: ...] | return e | raise IndexError(...)/TypeError(...)
               | a bare string (docstring)
  expressions  int/float constants, local names, self.<declared field>, individual.fitness.weights,
               calls of the declared callbacks  self.fbty_fct(i)  func(i, *args, **kwargs)  self.fbl_fct(i)
               self.dist_fct(i) / self.dist_fct(i, j);  tuple(<genexp>) with one `for` over a value or over
               zip(a, b, c) and a pure arithmetic body;  repeat(x)  isinstance(x, Sequence)  len(x);
               + - * on numbers, unary -, comparisons >= > <= < on numbers, == != on len() results,
               `is None` / `is not None` on the optional distance callback, `not`, conditional expressions.
Types: val (number | tuple | repeat object, see C19_PyRt.v), Q, I (individual), nat, bool and the callback types.
"""
import ast
import os
import re
from fractions import Fraction


class Refuse(Exception):
    def __init__(self, node, why):
        self.node = type(node).__name__ if not isinstance(node, str) else node
        self.line = getattr(node, "lineno", None)
        self.why = why
        Exception.__init__(self, "%s at line %s: %s" % (self.node, self.line, why))


def refuse(node, why):
    raise Refuse(node, why)


# ---- signature table ---------------------------------------------------------------------------
# type names: feas = I -> bool, evalfn = I -> Args -> val, closest = I -> I,
#             optdist1 = option (I -> val), optdist2 = option (I -> I -> val)
COQTYPE = {
    "feas": "I -> bool", "evalfn": "I -> Args -> val", "closest": "I -> I",
    "optdist1": "option (I -> val)", "optdist2": "option (I -> I -> val)",
    "val": "val", "Q": "Q", "I": "I", "nat": "nat", "bool": "bool",
}
CLASSES = {
    "DeltaPenalty": {
        "name": "delta", "record": "delta_self", "mk": "mk_delta_self", "prefix": "d_",
        "init_params": [("feasibility", "feas", False), ("delta", "val", False), ("distance", "optdist1", True)],
        "fields": [("fbty_fct", "feas"), ("delta", "val"), ("dist_fct", "optdist1")],
    },
    "ClosestValidPenalty": {
        "name": "closest", "record": "closest_self", "mk": "mk_closest_self", "prefix": "c_",
        "init_params": [("feasibility", "feas", False), ("feasible", "closest", False), ("alpha", "Q", False),
                        ("distance", "optdist2", True)],
        "fields": [("fbty_fct", "feas"), ("fbl_fct", "closest"), ("alpha", "Q"), ("dist_fct", "optdist2")],
    },
}
EXPECTED_IMPORTS = {"wraps": ("functools",), "repeat": ("itertools",), "Sequence": ("collections.abc", "collections")}
BUILTINS_USED = ("tuple", "zip", "len", "isinstance", "IndexError", "TypeError")
RESERVED = set("""fun forall exists match with end if then else let in as return fix cofix struct Type Prop Set
ret raise bind self W M I Args val iter Fin Rep Ok Exc VNum VTup VRep Q nat bool list option Some None true false
negb length map izip calls event outcome exn""".split())
EXCEPTIONS = ("IndexError", "TypeError")


def qlit(v):
    fr = Fraction(v)
    n, d = fr.numerator, fr.denominator
    if d == 1:
        return "%d" % n if n >= 0 else "(%d)" % n
    return "(%s # %d)" % ("%d" % n if n >= 0 else "(%d)" % n, d)


class FnTr:
    """Translator of one function body."""

    def __init__(self, cls, env, in_init, counter=None):
        self.cls = cls
        self.env = dict(env)       # python name -> type
        self.in_init = in_init
        self.counter = counter if counter is not None else [0]   # shared by sub-translators: fresh temporaries

    def temp(self):
        self.counter[0] += 1
        return "t%d" % self.counter[0]

    def sub(self):
        return FnTr(self.cls, self.env, self.in_init, self.counter)

    def local(self, node, name):
        if name in RESERVED or re.fullmatch(r"t\d+", name) or not re.fullmatch(r"[A-Za-z_][A-Za-z0-9_]*", name) \
                or name.startswith("gen_") or name.startswith("py_") or name.startswith("call_") \
                or name.startswith("d_") or name.startswith("c_") or name.startswith("mk_"):
            refuse(node, "local name %r clashes with the run-time library" % name)
        return name

    # ---- expressions: return (pure text, type); monadic sub-computations are appended to binds -----
    def expr(self, e, binds):
        if isinstance(e, ast.Constant):
            if isinstance(e.value, bool) or not isinstance(e.value, (int, float)):
                refuse(e, "constant %r" % (e.value,))
            if isinstance(e.value, float) and (e.value != e.value or e.value in (float("inf"), float("-inf"))):
                refuse(e, "non-finite constant")
            return qlit(e.value), "Q"
        if isinstance(e, ast.Name):
            if not isinstance(e.ctx, ast.Load):
                refuse(e, "name in store context")
            if e.id in self.env:
                return e.id, self.env[e.id]
            refuse(e, "unknown name %s" % e.id)
        if isinstance(e, ast.Attribute):
            return self.attribute(e)
        if isinstance(e, ast.UnaryOp):
            if isinstance(e.op, ast.Not):
                v, t = self.expr(e.operand, binds)
                if t != "bool":
                    refuse(e, "not of %s" % t)
                return "(negb %s)" % v, "bool"
            if isinstance(e.op, ast.USub):
                if isinstance(e.operand, ast.Constant) and isinstance(e.operand.value, (int, float)) \
                        and not isinstance(e.operand.value, bool):
                    return qlit(-Fraction(e.operand.value)), "Q"
                v, t = self.expr(e.operand, binds)
                if t != "Q":
                    refuse(e, "unary minus of %s" % t)
                return "(- %s)" % v, "Q"
            refuse(e, "unary operator %s" % type(e.op).__name__)
        if isinstance(e, ast.BinOp):
            ops = {ast.Add: "+", ast.Sub: "-", ast.Mult: "*"}
            if type(e.op) not in ops:
                refuse(e, "binary operator %s" % type(e.op).__name__)
            a, ta = self.expr(e.left, binds)
            b, tb = self.expr(e.right, binds)
            if ta != "Q" or tb != "Q":
                refuse(e, "arithmetic on %s, %s" % (ta, tb))
            return "(%s %s %s)" % (a, ops[type(e.op)], b), "Q"
        if isinstance(e, ast.Compare):
            return self.compare(e, binds)
        if isinstance(e, ast.IfExp):
            c, tc = self.expr(e.test, binds)
            if tc != "bool":
                refuse(e, "condition of type %s" % tc)
            n = len(binds)
            a, ta = self.expr(e.body, binds)
            b, tb = self.expr(e.orelse, binds)
            if len(binds) != n:
                refuse(e, "effects inside a conditional expression")
            if ta != tb or ta not in ("Q", "bool"):
                refuse(e, "conditional expression of types %s, %s" % (ta, tb))
            return "(if %s then %s else %s)" % (c, a, b), ta
        if isinstance(e, ast.Call):
            return self.call(e, binds)
        refuse(e, "expression outside the grammar")

    def attribute(self, e):
        # self.<field>
        if isinstance(e.value, ast.Name) and e.value.id == "self" and self.env.get("self") == "self":
            if self.in_init:
                refuse(e, "read of self.%s inside __init__" % e.attr)
            for f, t in self.cls["fields"]:
                if f == e.attr:
                    return "(%s%s self)" % (self.cls["prefix"], f), t
            refuse(e, "undeclared field self.%s" % e.attr)
        # <individual>.fitness.weights
        if e.attr == "weights" and isinstance(e.value, ast.Attribute) and e.value.attr == "fitness" \
                and isinstance(e.value.value, ast.Name) and self.env.get(e.value.value.id) == "I":
            return "(VTup (W %s))" % e.value.value.id, "val"
        refuse(e, "attribute .%s" % e.attr)

    def compare(self, e, binds):
        if len(e.ops) != 1:
            refuse(e, "chained comparison")
        op, rhs = e.ops[0], e.comparators[0]
        if isinstance(op, (ast.Is, ast.IsNot)):
            if not (isinstance(rhs, ast.Constant) and rhs.value is None):
                refuse(e, "`is` against something other than None")
            v, t = self.expr(e.left, binds)
            if t not in ("optdist1", "optdist2"):
                refuse(e, "`is None` on %s" % t)
            return ("(negb (is_some %s))" if isinstance(op, ast.Is) else "(is_some %s)") % v, "bool"
        a, ta = self.expr(e.left, binds)
        b, tb = self.expr(rhs, binds)
        if ta == "Q" and tb == "Q":
            qops = {ast.GtE: "py_ge", ast.Gt: "py_gt", ast.LtE: "py_le", ast.Lt: "py_lt"}
            if type(op) not in qops:
                refuse(e, "comparison %s on numbers" % type(op).__name__)
            return "(%s %s %s)" % (qops[type(op)], a, b), "bool"
        if ta == "nat" and tb == "nat":
            if isinstance(op, ast.NotEq):
                return "(negb (Nat.eqb %s %s))" % (a, b), "bool"
            if isinstance(op, ast.Eq):
                return "(Nat.eqb %s %s)" % (a, b), "bool"
            refuse(e, "comparison %s on lengths" % type(op).__name__)
        refuse(e, "comparison of %s with %s" % (ta, tb))

    def plain_args(self, e, n):
        if e.keywords or len(e.args) != n or any(isinstance(a, ast.Starred) for a in e.args):
            refuse(e, "call with unexpected arguments")

    def call(self, e, binds):
        f = e.func
        # builtins / imported names
        if isinstance(f, ast.Name) and f.id not in self.env:
            if f.id == "tuple":
                self.plain_args(e, 1)
                return self.tuple_gen(e.args[0], binds)
            if f.id == "repeat":
                self.plain_args(e, 1)
                v, t = self.expr(e.args[0], binds)
                if t != "val":
                    refuse(e, "repeat of %s" % t)
                x = self.temp()
                binds.append((x, "py_repeat %s" % v))
                return x, "val"
            if f.id == "len":
                self.plain_args(e, 1)
                v, t = self.expr(e.args[0], binds)
                if t != "val":
                    refuse(e, "len of %s" % t)
                x = self.temp()
                binds.append((x, "py_len %s" % v))
                return x, "nat"
            if f.id == "isinstance":
                self.plain_args(e, 2)
                if not (isinstance(e.args[1], ast.Name) and e.args[1].id == "Sequence"):
                    refuse(e, "isinstance against something other than Sequence")
                v, t = self.expr(e.args[0], binds)
                if t != "val":
                    refuse(e, "isinstance of %s" % t)
                return "(is_sequence %s)" % v, "bool"
            refuse(e, "call of unknown function %s" % f.id)
        # callbacks
        fv, ft = self.expr(f, binds)
        if ft == "evalfn":
            # func(x, *args, **kwargs) exactly: the extra arguments are passed through as one bundle
            if not (len(e.args) == 2 and isinstance(e.args[1], ast.Starred)
                    and isinstance(e.args[1].value, ast.Name) and e.args[1].value.id == "args"
                    and self.env.get("args") == "args"
                    and len(e.keywords) == 1 and e.keywords[0].arg is None
                    and isinstance(e.keywords[0].value, ast.Name) and e.keywords[0].value.id == "kwargs"):
                refuse(e, "evaluation function not called as func(x, *args, **kwargs)")
            v, t = self.expr(e.args[0], binds)
            if t != "I":
                refuse(e, "evaluation function applied to %s" % t)
            x = self.temp()
            binds.append((x, "call_func %s %s args" % (fv, v)))
            return x, "val"
        sigs = {"feas": (1, "call_feasibility", "bool"), "closest": (1, "call_closest", "I"),
                "optdist1": (1, "call_dist1", "val"), "optdist2": (2, "call_dist2", "val")}
        if ft in sigs:
            n, fn, rt = sigs[ft]
            self.plain_args(e, n)
            vs = []
            for a in e.args:
                v, t = self.expr(a, binds)
                if t != "I":
                    refuse(e, "callback applied to %s" % t)
                vs.append(v)
            x = self.temp()
            binds.append((x, "%s %s %s" % (fn, fv, " ".join(vs))))
            return x, rt
        refuse(e, "call of a value of type %s" % ft)

    def tuple_gen(self, g, binds):
        if not isinstance(g, ast.GeneratorExp):
            refuse(g, "tuple() of something other than a generator expression")
        if len(g.generators) != 1:
            refuse(g, "generator expression with %d for-clauses" % len(g.generators))
        c = g.generators[0]
        if c.ifs or c.is_async:
            refuse(g, "generator expression with a filter")
        it = c.iter
        if isinstance(it, ast.Call) and isinstance(it.func, ast.Name) and it.func.id == "zip" and "zip" not in self.env:
            self.plain_args(it, 3)
            vs = []
            for a in it.args:
                v, t = self.expr(a, binds)
                if t != "val":
                    refuse(it, "zip of %s" % t)
                vs.append(v)
            x = self.temp()
            binds.append((x, "py_zip3 %s" % " ".join(vs)))
            arity = 3
        else:
            v, t = self.expr(it, binds)
            if t != "val":
                refuse(g, "iteration over %s" % t)
            x = self.temp()
            binds.append((x, "py_iter %s" % v))
            arity = 1
        if arity == 1:
            if not isinstance(c.target, ast.Name):
                refuse(c.target, "loop target")
            names = [self.local(c.target, c.target.id)]
            pat = names[0]
        else:
            if not (isinstance(c.target, ast.Tuple) and len(c.target.elts) == arity
                    and all(isinstance(n, ast.Name) for n in c.target.elts)):
                refuse(c.target, "loop target does not unpack %d names" % arity)
            names = [self.local(n, n.id) for n in c.target.elts]
            if len(set(names)) != arity:
                refuse(c.target, "repeated name in loop target")
            pat = "'(%s)" % ", ".join(names)
        sub = self.sub()
        for n in names:
            sub.env[n] = "Q"
        inner = []
        body, bt = sub.expr(g.elt, inner)
        if inner:
            refuse(g.elt, "effects inside a generator expression")
        if bt != "Q":
            refuse(g.elt, "generator element of type %s" % bt)
        y = self.temp()
        binds.append((y, "py_tuple_gen (fun %s => %s) %s" % (pat, body, x)))
        return y, "val"

    # ---- monadic expression ------------------------------------------------------------------
    @staticmethod
    def chain(binds, last):
        return " ".join("%s <- %s ;;" % b for b in binds) + (" " if binds else "") + last

    def expr_m(self, e):
        binds = []
        v, t = self.expr(e, binds)
        if binds and binds[-1][0] == v:
            return self.chain(binds[:-1], binds[-1][1]), t
        return self.chain(binds, "ret %s" % v), t

    # ---- statements ----------------------------------------------------------------------------
    @staticmethod
    def terminates(stmts):
        if not stmts:
            return False
        s = stmts[-1]
        if isinstance(s, (ast.Return, ast.Raise)):
            return True
        if isinstance(s, ast.If):
            return FnTr.terminates(s.body) and FnTr.terminates(s.orelse)
        return False

    def target(self, t):
        """assignment target -> (coq variable, field or None)"""
        if isinstance(t, ast.Name):
            if t.id in ("self", "func", "individual", "args", "kwargs") or self.env.get(t.id) in (
                    "feas", "evalfn", "closest", "optdist1", "optdist2", "self", "args"):
                refuse(t, "assignment to parameter %s" % t.id)
            return self.local(t, t.id), None
        if self.in_init and isinstance(t, ast.Attribute) and isinstance(t.value, ast.Name) and t.value.id == "self":
            for f, _ in self.cls["fields"]:
                if f == t.attr:
                    return "self_%s" % f, f
            refuse(t, "assignment to undeclared field self.%s" % t.attr)
        refuse(t, "assignment target")

    def assigned(self, stmts):
        out = []
        for s in stmts:
            if isinstance(s, ast.Assign):
                if len(s.targets) != 1:
                    refuse(s, "multiple assignment")
                v, _ = self.target(s.targets[0])
                if v not in out:
                    out.append(v)
            elif isinstance(s, ast.If):
                for v in self.assigned(s.body) + self.assigned(s.orelse):
                    if v not in out:
                        out.append(v)
        return out

    def block(self, stmts, fall, ind):
        """Gallina text of type M T for the statement list; `fall` is a function env -> text used when
        control falls off the end (None: falling off the end is refused)."""
        pad = "  " * ind
        if not stmts:
            if fall is None:
                refuse("FunctionDef", "control reaches the end of the function without return")
            return pad + fall(self)
        s, rest = stmts[0], stmts[1:]
        if isinstance(s, ast.Expr):
            if isinstance(s.value, ast.Constant) and isinstance(s.value.value, str):
                return self.block(rest, fall, ind)
            refuse(s, "expression statement")
        if isinstance(s, ast.Return):
            if rest:
                refuse(rest[0], "unreachable statement")
            if self.in_init or s.value is None:
                refuse(s, "return without value / inside __init__")
            m, t = self.expr_m(s.value)
            if t != "val":
                refuse(s, "return of %s" % t)
            return pad + m
        if isinstance(s, ast.Raise):
            if rest:
                refuse(rest[0], "unreachable statement")
            x = s.exc
            if s.cause is not None or x is None:
                refuse(s, "raise form")
            if isinstance(x, ast.Call):
                if x.keywords or not all(isinstance(a, ast.Constant) and isinstance(a.value, str) for a in x.args):
                    refuse(s, "exception arguments")
                x = x.func
            if not (isinstance(x, ast.Name) and x.id in EXCEPTIONS and x.id not in self.env):
                refuse(s, "exception type")
            return pad + "raise %s" % x.id
        if isinstance(s, ast.Assign):
            if len(s.targets) != 1:
                refuse(s, "multiple assignment")
            v, field = self.target(s.targets[0])
            m, t = self.expr_m(s.value)
            if field is not None:
                want = dict(self.cls["fields"])[field]
                if t != want:
                    refuse(s, "self.%s assigned a %s, declared %s" % (field, t, want))
            elif t not in ("val", "I"):
                refuse(s, "local of type %s" % t)
            if v in self.env and self.env[v] != t:
                refuse(s, "local %s changes type from %s to %s" % (v, self.env[v], t))
            self.env[v] = t
            return pad + "%s <- (%s) ;;\n" % (v, m) + self.block(rest, fall, ind)
        if isinstance(s, ast.If):
            binds = []
            c, tc = self.expr(s.test, binds)
            if tc != "bool":
                refuse(s, "condition of type %s" % tc)
            pre = "".join(pad + "%s <- %s ;;\n" % b for b in binds)
            tb, te = self.terminates(s.body), self.terminates(s.orelse)
            if tb or te:
                # the non-terminating branch (if any) continues with the rest of the block
                if tb and te and rest:
                    refuse(rest[0], "unreachable statement")
                a, b = self.sub(), self.sub()
                ta = a.block(list(s.body) + ([] if tb else list(rest)), None if tb else fall, ind + 1)
                tb_ = b.block(list(s.orelse) + ([] if te else list(rest)), None if te else fall, ind + 1)
                return pre + pad + "if %s then (\n%s\n%s) else (\n%s\n%s)" % (c, ta, pad, tb_, pad)
            # neither branch terminates: thread the assigned variables
            vs = self.assigned(s.body)
            for v in self.assigned(s.orelse):
                if v not in vs:
                    vs.append(v)
            if not vs:
                refuse(s, "if statement without effect on locals")
            a, b = self.sub(), self.sub()

            def out(tr):
                for v in vs:
                    if v not in tr.env:
                        refuse(s, "%s may be unassigned after the if" % v)
                return "ret %s" % (vs[0] if len(vs) == 1 else "(%s)" % ", ".join(vs))
            ta = a.block(list(s.body), out, ind + 1)
            tb_ = b.block(list(s.orelse), out, ind + 1)
            for v in vs:
                if a.env[v] != b.env[v]:
                    refuse(s, "%s has different types in the two branches" % v)
                self.env[v] = a.env[v]
            if len(vs) == 1:
                head = pad + "%s <- (if %s then (\n%s\n%s) else (\n%s\n%s)) ;;\n" % (vs[0], c, ta, pad, tb_, pad)
            else:
                # tuple pattern: spelled with bind directly
                return pre + pad + "bind (if %s then (\n%s\n%s) else (\n%s\n%s)) (fun '(%s) =>\n%s)" % (
                    c, ta, pad, tb_, pad, ", ".join(vs), self.block(rest, fall, ind))
            return pre + head + self.block(rest, fall, ind)
        refuse(s, "statement outside the grammar")


# ---- module level ------------------------------------------------------------------------------
def check_bindings(tree):
    """The names the translation gives a fixed meaning to must not be rebound anywhere in the file."""
    bound = {}
    for n in ast.walk(tree):
        if isinstance(n, (ast.Import, ast.ImportFrom)):
            for a in n.names:
                nm = (a.asname or a.name).split(".")[0]
                bound.setdefault(nm, []).append(("import", getattr(n, "module", None), a.name, n))
        elif isinstance(n, ast.Name) and isinstance(n.ctx, (ast.Store, ast.Del)):
            bound.setdefault(n.id, []).append(("assign", None, None, n))
        elif isinstance(n, (ast.FunctionDef, ast.AsyncFunctionDef, ast.ClassDef)):
            bound.setdefault(n.name, []).append(("def", None, None, n))
        elif isinstance(n, ast.arg):
            bound.setdefault(n.arg, []).append(("arg", None, None, n))
        elif isinstance(n, (ast.Global, ast.Nonlocal)):
            refuse(n, "global/nonlocal declaration")
    for b in BUILTINS_USED:
        if b in bound:
            refuse(bound[b][0][3], "builtin %s is rebound" % b)
    for nm, mods in EXPECTED_IMPORTS.items():
        bs = bound.get(nm, [])
        if not bs:
            refuse("Module", "%s is not imported" % nm)
        for kind, mod, orig, node in bs:
            if kind != "import" or mod not in mods or orig != nm:
                refuse(node, "%s is bound by something other than `from %s import %s`" % (nm, mods[0], nm))
    for cname in CLASSES:
        if len(bound.get(cname, [])) != 1:
            refuse("Module", "class %s defined %d times" % (cname, len(bound.get(cname, []))))


def only_docstring_and(body, n):
    rest = [s for s in body if not (isinstance(s, ast.Expr) and isinstance(s.value, ast.Constant)
                                    and isinstance(s.value.value, str))]
    if len(rest) != n:
        refuse(body[0] if body else "ClassDef", "expected %d statements, found %d" % (n, len(rest)))
    return rest


def plain_params(fn, names, defaults_none=0, vararg=None, kwarg=None):
    a = fn.args
    if a.posonlyargs or a.kwonlyargs or a.kw_defaults:
        refuse(fn, "parameter form")
    if [x.arg for x in a.args] != names:
        refuse(fn, "parameters %r, expected %r" % ([x.arg for x in a.args], names))
    if (a.vararg.arg if a.vararg else None) != vararg or (a.kwarg.arg if a.kwarg else None) != kwarg:
        refuse(fn, "*args/**kwargs form")
    if len(a.defaults) != defaults_none or not all(isinstance(d, ast.Constant) and d.value is None for d in a.defaults):
        refuse(fn, "default values")


def translate_class(c, spec):
    if c.decorator_list or c.keywords or not (len(c.bases) == 1 and isinstance(c.bases[0], ast.Name)
                                              and c.bases[0].id == "object"):
        refuse(c, "class header")
    init, call = only_docstring_and(c.body, 2)
    for fn, nm in ((init, "__init__"), (call, "__call__")):
        if not isinstance(fn, ast.FunctionDef) or fn.name != nm or fn.decorator_list:
            refuse(fn, "expected method %s" % nm)
    name = spec["name"]
    rec = "%s I" % spec["record"]
    # -- __init__
    ps = spec["init_params"]
    plain_params(init, ["self"] + [p[0] for p in ps], defaults_none=sum(1 for p in ps if p[2]))
    if any(p[2] for p in ps[:-1]) and not all(p[2] for p in ps[[p[2] for p in ps].index(True):]):
        refuse(init, "defaults")
    tr = FnTr(spec, {"self": "self"}, True)
    for p, t, _ in ps:
        tr.env[p] = t

    def build(t):
        for f, ty in spec["fields"]:
            if t.env.get("self_%s" % f) != ty:
                refuse(init, "field self.%s not assigned in __init__" % f)
        return "ret (%s %s)" % (spec["mk"], " ".join("self_%s" % f for f, _ in spec["fields"]))
    body = tr.block(list(init.body), build, 2)
    out = "  Definition gen_%s_init %s : M (%s) :=\n%s.\n\n" % (
        name, " ".join("(%s : %s)" % (p, COQTYPE[t]) for p, t, _ in ps), rec, body)
    # -- __call__: def __call__(self, func): @wraps(func) def wrapper(individual, *args, **kwargs): ...; return wrapper
    plain_params(call, ["self", "func"])
    w, r = only_docstring_and(call.body, 2)
    if not (isinstance(w, ast.FunctionDef) and isinstance(r, ast.Return) and isinstance(r.value, ast.Name)
            and r.value.id == w.name):
        refuse(call, "__call__ is not `def wrapper ...; return wrapper`")
    d = w.decorator_list
    if not (len(d) == 1 and isinstance(d[0], ast.Call) and isinstance(d[0].func, ast.Name) and d[0].func.id == "wraps"
            and len(d[0].args) == 1 and not d[0].keywords and isinstance(d[0].args[0], ast.Name)
            and d[0].args[0].id == "func"):
        refuse(w, "wrapper is not decorated with exactly @wraps(func)")
    plain_params(w, ["individual"], vararg="args", kwarg="kwargs")
    tr = FnTr(spec, {"self": "self", "func": "evalfn", "individual": "I", "args": "args"}, False)
    body = tr.block(list(w.body), None, 2)
    out += "  Definition gen_%s_wrapper (self : %s) (func : I -> Args -> val) (individual : I) (args : Args) : M val :=\n%s.\n\n" % (
        name, rec, body)
    return out


HEADER = """(* GENERATED by harness/c19_py2coq.py from %s -- do not edit, never committed *)
From Coq Require Import List QArith Bool Arith.
From DV Require Import Base.C19_PyRt.
Import ListNotations.
Local Open Scope Q_scope.
Local Open Scope py_scope.

Section Gen.
  Context {I Args : Type} (W : I -> list Q).
  Local Notation M := (M I Args).

"""


def translate_source(src, origin="deap/tools/constraint.py"):
    """Python source text -> Gallina text of the Section Gen (raises Refuse)."""
    try:
        tree = ast.parse(src)
    except SyntaxError as e:  # not a translator decision, but fail closed all the same
        raise Refuse("Module", "syntax error: %s" % e)
    check_bindings(tree)
    out = HEADER % origin
    classes = {n.name: n for n in tree.body if isinstance(n, ast.ClassDef)}
    for cname, spec in CLASSES.items():
        if cname not in classes:
            refuse("Module", "class %s not found at module level" % cname)
        out += translate_class(classes[cname], spec)
    out += "End Gen.\n"
    return out


TRAILER = os.path.join(os.path.dirname(os.path.abspath(__file__)), "c19_gen_trailer.v.in")


DIAG_TRAILER = """
From DV Require Import Corr.C19.
Definition check_gen : case -> bool :=
  check_with (@gen_delta_init ind xargs) (@gen_delta_wrapper ind xargs)
             (@gen_closest_init ind xargs) (@gen_closest_wrapper ind xargs).
"""


def translate_repo(repo, trailer=True):
    """Full text of coq/Gen/C19_gen.v for the working tree `repo` (raises Refuse).
    trailer=False: the definitions with only the correspondence entry point (diagnosis when the
    equivalence with the model no longer checks)."""
    p = os.path.join(repo, "deap", "tools", "constraint.py")
    return translate_source(open(p).read(), p) + (open(TRAILER).read() if trailer else DIAG_TRAILER)


if __name__ == "__main__":
    import sys
    print(translate_repo(sys.argv[1] if len(sys.argv) > 1 else "/repo"))
