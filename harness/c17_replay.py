"""Replay ONE failing history of the C17 runtime part outside the check:

    VERIF_REPO=/repo /venv/bin/python harness/c17_replay.py '{"family": "gp", "seed": 1, "ngen": 5, "mode": "resume", "k": 2, "protocol": 2, ...}'

(the JSON is the "case" of a violation in replays/C17/*.json).  Runs the uninterrupted reference in a fresh
process, then the history (re-run / save+kill+resume / pool) and prints the first differing boundary component."""
import json
import os
import subprocess
import sys
import tempfile

HERE = os.path.dirname(os.path.abspath(__file__))
sys.path.insert(0, HERE)


def launch(spec, hashseed, repo):
    d = tempfile.mkdtemp(prefix="c17_replay_", dir="/var/tmp")
    spec = dict(spec, out=os.path.join(d, "out.json"), keep_text=True)
    sp = os.path.join(d, "spec.json")
    json.dump(spec, open(sp, "w"))
    env = dict(os.environ, PYTHONPATH=repo, PYTHONHASHSEED=str(hashseed), OMP_NUM_THREADS="1", OPENBLAS_NUM_THREADS="1",
               MKL_NUM_THREADS="1", PYTHONDONTWRITEBYTECODE="1")
    subprocess.run([sys.executable, os.path.join(HERE, "c17_families.py"), sp], env=env, check=False)
    return json.load(open(spec["out"]))


def main():
    import c17
    case = json.loads(sys.argv[1])
    repo = os.environ.get("VERIF_REPO", "/repo")
    if "family_key" in case:
        base = {"family": case["family_key"], "params": case.get("params", {}), "seed": case["seed"], "ngen": case["ngen"]}
    else:
        cfg = {c[0]: c for c in c17.CONFIGS}[case["family"]]
        base = {"family": cfg[1], "params": case.get("params", cfg[2]), "seed": case["seed"], "ngen": case["ngen"]}
    ref = launch(dict(base, mode="full"), "0", repo)
    mode = case["mode"]
    hs = case.get("hashseed", "0")
    if mode == "twice":
        other, skip = launch(dict(base, mode="twice"), "0", repo), None
        print("argument object fingerprints before / after run 1 / after run 2:", other.get("args_sha"))
        if case.get("which", "second") == "second":
            other = dict(other, boundaries=other.get("boundaries_b", []))
    elif mode == "rerun":
        other, skip = launch(dict(base, mode="full", perturb=case.get("perturb", 0)), hs, repo), None
    elif mode in ("resume", "save"):
        ck = tempfile.mkdtemp(prefix="c17_replay_ck_", dir="/var/tmp")
        sv = launch(dict(base, mode="save", k=case["k"], protocols=[case.get("protocol", 2)], ckpt=ck), "0", repo)
        print("save run:", sv["error"] or "ok", sv.get("unsupported_protocols"))
        other, skip = sv, None
        if mode == "resume":
            other = launch(dict(base, mode="resume", k=case["k"], protocol=case["protocol"], ckpt=ck, perturb=case.get("perturb", 0)),
                           hs, repo)
            skip = case["k"]
    else:
        other, skip = launch(dict(base, mode="pool", workers=case["workers"], pool_kind=case["pool_kind"],
                                  delay_seed=case["delay_seed"]), "0", repo), None
    if other["error"]:
        print("history raises:", other["error"]["type"], other["error"]["msg"])
        print(other["error"]["tb"])
        return 1
    d = c17.compare(ref, other, skip_stream_at=skip)
    if d is None:
        print("no difference: the history reproduces the uninterrupted run at every boundary")
        return 0
    g, comp = d
    print("FIRST DIFFERENCE at generation %s, component %s" % (g, comp))
    rb, ob = c17.bmap(ref)[g], c17.bmap(other)[g]
    print(json.dumps(c17.text_diff(rb["text"][comp], ob["text"][comp], 300), indent=1))
    return 1


if __name__ == "__main__":
    try:
        rc = main()
    finally:
        import glob
        import shutil
        for d in glob.glob("/var/tmp/c17_replay_*"):
            shutil.rmtree(d, ignore_errors=True)
    sys.exit(rc)
