"""operator tables of the ga_ops family (names only; the callables live in c17_families.GA_OPS)"""
SEL = ["tournament", "roulette", "best", "worst", "random", "sus", "double", "lexicase", "eps_lexicase", "auto_eps_lexicase",
       "nsga2", "spea2"]
CX = {"bits": ["one", "two", "uniform", "messy"], "perm": ["pmx", "upmx", "ordered"], "real": ["blend", "sbx", "sbx_bounded", "two"]}
MUT = {"bits": ["flip", "shuffle", "uniform_int", "inversion"], "perm": ["shuffle", "inversion"], "real": ["gaussian", "polynomial"]}


def draw(rng):
    rep = rng.choice(["bits", "perm", "real"])
    sel = rng.choice(SEL)
    loop = rng.choice(["simple", "plus"])
    if sel in ("best", "worst", "nsga2", "spea2"):
        loop = "plus"          # deterministic truncation selections only make sense on parents + offspring
    # weights: magnitude != 1; mixed sign except for the fitness-proportional selections (they need positive values)
    ws = [(1.0, 1.0), (2.0, 0.5), (0.1, 3.0)] + ([] if sel in ("roulette", "sus") else [(-0.3, 2.75), (1.5, -0.01)])
    return {"repr": rep, "sel": sel, "cx": rng.choice(CX[rep]), "mut": rng.choice(MUT[rep]), "loop": loop,
            "weights": list(rng.choice(ws))}
