import argparse
import importlib
import json
import os
import sys

sys.path.insert(0, os.path.dirname(os.path.abspath(__file__)))
import vlib  # noqa


def main():
    ap = argparse.ArgumentParser()
    ap.add_argument("pid")
    ap.add_argument("--tier", default=os.environ.get("VERIF_TIER", "quick"))
    ap.add_argument("--replay", default=None)
    a = ap.parse_args()
    seed = int(os.environ.get("VERIF_SEED", "0"))
    tier = a.tier if a.tier in ("quick", "thorough") else "quick"
    if a.replay:
        r = json.load(open(a.replay))
        seed, tier = int(r.get("seed", seed)), r.get("tier", tier)
    vlib.import_deap()
    mod = importlib.import_module(a.pid.lower())
    run = vlib.Run(a.pid, tier, seed)
    try:
        mod.main(run)
    except Exception:
        import traceback
        tb = traceback.format_exc()
        sys.stderr.write(tb)
        run.broken.append({"kind": "harness_exception", "where": ["harness/%s.py" % a.pid.lower()], "log": tb[-3000:]})
    sys.exit(run.finish())


main()
