import os, subprocess, sys, time
sys.path.insert(0, os.path.dirname(os.path.abspath(__file__)))
import vlib

t0 = time.time()
# regenerate translator outputs (coq/Gen/*.v are never committed) so that files depending on them build
import importlib
for mod in ("c01", "c19", "c20"):
    try:
        m = importlib.import_module(mod)
        if hasattr(m, "regen"):
            print("setup: regen %s: %s" % (mod, m.regen()))
    except Exception as e:  # noqa
        print("setup: regen %s skipped: %r" % (mod, e))
with vlib.BuildLock():
    vlib.ensure_makefile()
    p = subprocess.run(["timeout", "7200", "make", "-j%d" % vlib.NCPU, "-k"], cwd=vlib.COQ,
                       stdout=subprocess.PIPE, stderr=subprocess.STDOUT, text=True)
tail = p.stdout[-3000:]
if p.returncode != 0:
    print(tail)
    print("setup: coq build FAILED (%.0fs)" % (time.time() - t0))
    sys.exit(1)
# forbidden declarations
bad = subprocess.run("grep -rnE '\\b(Admitted|admit|Axiom|Parameter|Conjecture|Unset Guard|bypass_check|Admit Obligations)\\b' "
                     "--include=*.v Base Model Proofs Props Corr | grep -v '(\\*.*\\*)' || true",
                     shell=True, cwd=vlib.COQ, stdout=subprocess.PIPE, text=True).stdout
if bad.strip():
    print("setup: forbidden declarations found:\n" + bad)
    sys.exit(1)
print("setup: coq build ok, %d files, %.0fs" % (len(vlib.coq_sources()), time.time() - t0))
