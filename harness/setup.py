"""MANIFEST.setup_cmd: regenerate translator outputs, then a full .vo build of the Coq development.
Files belonging to properties that are claimed in MANIFEST.json must build; a failure elsewhere
(work in progress for a property not yet claimed) is reported but does not fail the setup."""
import importlib, json, os, re, subprocess, sys, time
sys.path.insert(0, os.path.dirname(os.path.abspath(__file__)))
import vlib

t0 = time.time()
os.environ.setdefault("PYTHONPATH", vlib.REPO)
sys.path.insert(0, vlib.REPO)
# regenerate translator outputs (coq/Gen/*.v are never committed) so that files depending on them build
for mod in ("c01", "c02", "c04", "c05", "c06", "c07", "c08", "c09", "c10", "c11", "c12", "c13", "c14", "c18", "c19", "c20"):
    try:
        m = importlib.import_module(mod)
        if hasattr(m, "regen"):
            print("setup: regen %s: %s" % (mod, m.regen()))
    except Exception as e:  # noqa
        print("setup: regen %s skipped: %r" % (mod, e))

claimed = []
try:
    claimed = [c["property_id"] for c in json.load(open(os.path.join(vlib.VERIF, "MANIFEST.json")))["checks"]]
except Exception as e:  # noqa
    print("setup: cannot read MANIFEST.json: %r" % e)

with vlib.BuildLock():
    vlib.ensure_makefile()
    p = subprocess.run(["timeout", "7200", "make", "-j%d" % vlib.NCPU, "-k"], cwd=vlib.COQ,
                       stdout=subprocess.PIPE, stderr=subprocess.STDOUT, text=True)
srcs = vlib.coq_sources()
missing = [s for s in srcs if not os.path.exists(os.path.join(vlib.COQ, s + "o"))]
fatal = [s for s in missing if any(re.match(r"(Base|Model|Proofs|Props|Corr|Gen)/%s([_.]|$)" % c, s) for c in claimed)
         or re.match(r"Base/(Corr|PyList|PyTuple)\.v", s)]
if missing:
    print(p.stdout[-3000:])
    print("setup: not built: %s" % " ".join(missing))
if fatal:
    print("setup: coq build FAILED for claimed properties: %s (%.0fs)" % (" ".join(fatal), time.time() - t0))
    sys.exit(1)
# forbidden declarations
bad = subprocess.run("grep -rnE '\\b(Admitted|admit|Axiom|Parameter|Conjecture|Unset Guard|bypass_check|Admit Obligations)\\b' "
                     "--include=*.v Base Model Proofs Props Corr || true",
                     shell=True, cwd=vlib.COQ, stdout=subprocess.PIPE, text=True).stdout
bad = "\n".join(l for l in bad.splitlines() if not re.search(r"\(\*.*(Admitted|admit|Axiom|Parameter|Conjecture).*\*\)", l))
if bad.strip():
    print("setup: WARNING forbidden-looking declarations (inspect):\n" + bad)
print("setup: coq build ok, %d/%d files, %.0fs" % (len(srcs) - len(missing), len(srcs), time.time() - t0))
