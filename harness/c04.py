"""C04 — Non-dominated sorting returns the exact Pareto ranking (deap/tools/emo.py).

Oracle: an independent peeling implementation of dominance depth (written here, on value*weight),
evaluated against tools.sortNondominated and tools.sortLogNondominated.
Correspondence: Model/C04_NDSort.v (sort_nd) and Model/C04_LogSort.v (sort_log and every helper)
recomputed inside coqc on the same populations / arguments and compared exactly, including the
order of the individuals inside each front; the helpers of the log-time sort are additionally
compared call by call on the arguments they receive inside real runs (traced) and on direct calls.
"""
import itertools
import signal
import time

from vlib import cz, czl, cbool, clist, cnatl


# ----------------------------------------------------------------------------------------------
# running the implementation under a CPU-time budget (a broken loop condition must become a
# reported failing input, not a hung or memory-exhausted check)
# ----------------------------------------------------------------------------------------------
class CpuBudgetExceeded(BaseException):
    pass


def _on_vtalarm(signum, frame):
    raise CpuBudgetExceeded()


def budgeted(fn, *args, **kw):
    """-> ('ok', result) | ('timeout', None) | ('raise', 'ExcName: msg'); budget is process CPU time, so
    machine load cannot trigger it (normal calls take well under a millisecond)."""
    budget = kw.pop("budget", 0.4)
    old = signal.signal(signal.SIGVTALRM, _on_vtalarm)
    signal.setitimer(signal.ITIMER_VIRTUAL, budget)
    try:
        return ("ok", fn(*args))
    except CpuBudgetExceeded:
        return ("timeout", None)
    except Exception as e:  # noqa
        return ("raise", "%s: %s" % (type(e).__name__, str(e)[:120]))
    finally:
        signal.setitimer(signal.ITIMER_VIRTUAL, 0)
        signal.signal(signal.SIGVTALRM, old)


# ----------------------------------------------------------------------------------------------
# independent oracle
# ----------------------------------------------------------------------------------------------
def o_dominates(a, b):
    """a dominates b: no worse everywhere, better somewhere (weighted values, maximisation)."""
    return all(x >= y for x, y in zip(a, b)) and any(x > y for x, y in zip(a, b))


def o_peel(ws):
    """dominance depth by peeling; returns list of fronts (sorted lists of indices)."""
    rem = list(range(len(ws)))
    fronts = []
    while rem:
        f = [i for i in rem if not any(o_dominates(ws[j], ws[i]) for j in rem)]
        fronts.append(f)
        fs = set(f)
        rem = [i for i in rem if i not in fs]
    return fronts


def o_expected(ws, k, ffo):
    if k == 0:
        return []
    fronts = o_peel(ws)
    if ffo:
        return fronts[:1]
    target = min(k, len(ws))
    out, tot = [], 0
    for f in fronts:
        out.append(f)
        tot += len(f)
        if tot >= target:
            break
    return out


# ----------------------------------------------------------------------------------------------
# generators
# ----------------------------------------------------------------------------------------------
def weak_orders(n):
    """all dense rankings of n items (surjections onto an initial segment 0..r)."""
    out = []
    for t in itertools.product(range(n), repeat=n):
        s = set(t)
        if s == set(range(len(s))):
            out.append(t)
    return out


def cwl(l):
    return clist([czl(x) for x in l])


def cfm(d):
    return clist(["(%s, %s)" % (czl(k), cz(v)) for k, v in d])


def main(run):
    from deap import base, tools
    from deap.tools import emo

    run.rule = ("populations as lists of value tuples with a weight-sign vector; every population is sorted by both procedures for "
                "every k in 0..n+1 and both values of first_front_only (random large populations: a spread of k). Exhaustive: all "
                "order types (dense weak orders per objective) of n<=3 individuals with 1..3 objectives and of n=4 with 1..2 objectives "
                "(3 objectives: sample; all in thorough), all populations over the grid {0,1,2}^m for small n*m; random: n<=40, 2..6 "
                "objectives, tie-heavy grids, duplicates, chains, antichains, mixed signs. Helpers of the log-time sort are compared on "
                "the calls traced inside real runs and on direct calls. Distinct = distinct (weights, values); non-trivial = at least "
                "two individuals.")
    run.trusted += ["Coq 8.16.1 kernel and vm_compute",
                    "hand-written models coq/Model/C04_NDSort.v, coq/Model/C04_LogSort.v tied by correspondence (harness/c04.py)",
                    "CPython dict insertion order, tuple comparison, list.sort stability, bisect_right, max/min first extremum as modelled",
                    "weighted values are value*weight (C01); floats restricted to integer-valued values (exact arithmetic, incl. the mean in median)"]
    run.assumptions += ["fitness values are finite (no NaN)", "all individuals have the same number of objectives",
                        "log-time variant: at least 2 objectives, non-empty population"]
    t_start = time.time()
    run.build_props()
    t_built = time.time()
    rng = run.rng

    classes = {}

    def fitcls(w):
        key = tuple(w)
        if key not in classes:
            classes[key] = type("F%d" % len(classes), (base.Fitness,), {"weights": tuple(float(x) for x in w)})
        return classes[key]

    class Ind(list):
        pass

    def mkpop(w, vals):
        C = fitcls(w)
        pop = []
        for v in vals:
            x = Ind(v)
            x.fitness = C()
            x.fitness.values = tuple(float(t) / scale[0] for t in v)
            pop.append(x)
        return pop

    scale = [1]     # values fed to DEAP are integers / scale[0] (1, 2 or 4: short dyadic floats, exact arithmetic)

    def to_int(t):
        out = []
        for x in t:
            y = float(x) * scale[0]
            assert y == int(y), (x, scale[0])
            out.append(int(y))
        return out

    terms, cases = [], []

    def add(term, case, nontrivial=True):
        terms.append(term)
        cases.append(case)
        run.note_case(case, nontrivial, sample=case if len(run.samples) < 6 and len(cases) % 211 == 1 else None)

    def canon(res, idmap, case, what):
        """fronts -> lists of input positions; checks identity and uniqueness."""
        out, seen = [], set()
        for fr in res:
            cur = []
            for x in fr:
                i = idmap.get(id(x))
                if i is None:
                    run.oracle_violation("%s: returned element is not an input object" % what, case)
                    return None
                if i in seen:
                    run.oracle_violation("%s: an individual is returned more than once" % what, case)
                    return None
                seen.add(i)
                cur.append(i)
            out.append(cur)
        return out

    def sort_case(w, vals, ks=None, log=True, count=True):
        """run both procedures for the given k's and both flags; oracle + one correspondence term."""
        if len(run.oracle_viol) >= 40:
            # enough concrete failing inputs for a replay; do not burn the budget on more of them
            run.extra_cov["cases_skipped_after_40_violations"] = run.extra_cov.get("cases_skipped_after_40_violations", 0) + 1
            return
        n = len(vals)
        pop = mkpop(w, vals)
        idmap = {id(x): i for i, x in enumerate(pop)}
        ws = [[a * b for a, b in zip(v, w)] for v in vals]          # independent of DEAP
        ws_impl = [to_int(x.fitness.wvalues) for x in pop]
        base_case = {"kind": "sort", "weights": list(w), "values": [list(v) for v in vals], "values_divided_by": scale[0]}
        if ws_impl != ws:
            run.oracle_violation("weighted values are not value*weight", base_case, observed=ws_impl)
        do_log = log and n >= 1 and len(w) >= 2
        if ks is None:
            ks = list(range(0, n + 2))
        calls = []
        failed = False
        for k in ks:
            for ffo in (False, True):
                case = dict(base_case, k=k, first_front_only=ffo)
                exp = o_expected(ws, k, ffo)
                if n == 0 and k != 0:
                    exp = [[]]      # outside the quantifier (population of 1..N); the code returns one empty front
                st, r1 = budgeted(tools.sortNondominated, pop, k, ffo)
                if st != "ok":
                    if n >= 1:      # the empty population is outside the quantifier: never reported as a failing input
                        run.oracle_violation("sortNondominated does not return fronts (%s)" % (st if st == "timeout" else r1), case)
                    failed = True
                    continue
                c1 = canon(r1, idmap, case, "sortNondominated")
                if c1 is None:
                    c1 = []
                elif [sorted(f) for f in c1] != exp:
                    what = "sortNondominated: fronts differ from dominance depth by peeling"
                    if k == 0:
                        what = "sortNondominated: k=0 does not return no front"
                    elif ffo:
                        what = "sortNondominated: first_front_only is not exactly the non-dominated set"
                    elif [sorted(f) for f in c1] == [sorted(f) for f in (o_peel(ws)[:len(c1)])]:
                        what = "sortNondominated: not exactly the leading fronts needed to reach k"
                    run.oracle_violation(what, case, observed=c1)
                front_of = {}
                for fi, fr in enumerate(c1):
                    for i in fr:
                        front_of[i] = fi
                for i in front_of:
                    for j in front_of:
                        if ws[i] == ws[j] and front_of[i] != front_of[j]:
                            run.oracle_violation("sortNondominated: equal fitnesses in different fronts", case, observed=c1)
                            break
                if do_log:
                    st, r2 = budgeted(tools.sortLogNondominated, pop, k, ffo)
                    if st != "ok":
                        run.oracle_violation("sortLogNondominated does not return fronts (%s)" % (st if st == "timeout" else r2), case)
                        failed = True
                        continue
                    # return shape: a flat list of individuals (first_front_only) or a list of fronts; the shape is
                    # not part of the statement (DESIGN App. B item 3), it is only tied by the correspondence
                    flat = isinstance(r2, list) and len(r2) > 0 and all(hasattr(e, "fitness") for e in r2)
                    c2 = canon([r2] if flat else r2, idmap, case, "sortLogNondominated")
                    if c2 is None:
                        c2 = [[]] if flat else []
                    else:
                        s2 = [sorted(f) for f in c2]
                        if s2 != exp:
                            what = "sortLogNondominated: fronts differ from dominance depth by peeling"
                            if k == 0:
                                what = "sortLogNondominated: k=0 does not return no front"
                            elif ffo:
                                what = "sortLogNondominated: first_front_only is not exactly the non-dominated set"
                            elif s2 == o_peel(ws)[:len(s2)]:
                                what = "sortLogNondominated: not exactly the leading fronts needed to reach k"
                            run.oracle_violation(what, case, observed=c2)
                        if s2 != [sorted(f) for f in c1]:
                            run.oracle_violation("the two procedures produce different rankings", case, observed=[c1, c2])
                    lg = ("(OLFlat %s)" % cnatl(c2[0])) if flat else ("(OLFronts %s)" % clist([cnatl(f) for f in c2]))
                else:
                    lg = "OLSkip"
                calls.append("(mkcall %s %s %s %s)" % (cz(k), cbool(ffo), clist([cnatl(f) for f in c1]), lg))
        case = dict(base_case, ks=list(ks))
        if failed:
            run.note_case(case, n >= 2)
            return
        # the statement says "leaving ... the input untouched": the caller's list (same objects, same order) and the
        # fitnesses read after all the calls are part of the correspondence term and of the oracle
        after = [idmap.get(id(x), n) for x in pop]
        try:
            wafter = [to_int(x.fitness.wvalues) for x in pop]
        except Exception:
            wafter = None
        if after != list(range(n)) or wafter != ws:
            run.oracle_violation("the input population (list order, objects or fitness values) was modified by the sort", case,
                                 observed={"positions": after, "wvalues": wafter})
            if wafter is None or any(len(t) != len(w) for t in wafter):
                return
        add("CSort %s %s %s %s" % (cwl(ws_impl), clist(calls), cnatl(after), cwl(wafter)), case, n >= 2)

    # -------- helper-level tracing inside real runs of sortLogNondominated --------
    helper_budget = {"A": run.scale(250, 2500), "B": run.scale(250, 2500), "sA": run.scale(150, 1500),
                     "sB": run.scale(150, 1500), "spA": run.scale(150, 1500), "spB": run.scale(150, 1500),
                     "med": run.scale(150, 1500), "dom": run.scale(300, 3000)}

    def tl(l):
        return [to_int(t) for t in l]

    def fml(d):
        return [(to_int(k), int(v)) for k, v in d.items()]

    def helper_case(kind, args, pre, post):
        if kind == "A":
            fs, obj = args
            add("CHelperA %s %s %s %s" % (cwl(tl(fs)), cz(obj), cfm(pre), cfm(post)),
                {"kind": "helperA", "fs": tl(fs), "obj": obj, "front": pre})
        elif kind == "B":
            b, wo, obj = args
            add("CHelperB %s %s %s %s %s" % (cwl(tl(b)), cwl(tl(wo)), cz(obj), cfm(pre), cfm(post)),
                {"kind": "helperB", "best": tl(b), "worst": tl(wo), "obj": obj, "front": pre})
        elif kind == "sA":
            (fs,) = args
            add("CSweepA %s %s %s" % (cwl(tl(fs)), cfm(pre), cfm(post)), {"kind": "sweepA", "fs": tl(fs), "front": pre})
        elif kind == "sB":
            b, wo = args
            add("CSweepB %s %s %s %s" % (cwl(tl(b)), cwl(tl(wo)), cfm(pre), cfm(post)),
                {"kind": "sweepB", "best": tl(b), "worst": tl(wo), "front": pre})

    def trace_run(w, vals):
        """run sortLogNondominated with logging wrappers around the helpers; emit helper cases."""
        if len(run.oracle_viol) >= 40:
            return
        orig = {n_: getattr(emo, n_) for n_ in ("sortNDHelperA", "sortNDHelperB", "sweepA", "sweepB", "splitA", "splitB",
                                                "median", "isDominated")}
        log = []

        def wrap_front(kind, name, nargs):
            f = orig[name]

            def g(*a):
                front = a[nargs]
                pre = fml(front)
                args = tuple(list(x) if isinstance(x, list) else x for x in a[:nargs])
                r = f(*a)
                log.append((kind, args, pre, fml(front)))
                return r
            return g

        def w_splitA(fs, obj):
            r = orig["splitA"](fs, obj)
            log.append(("spA", (list(fs), obj), None, r))
            return r

        def w_splitB(b, wo, obj):
            r = orig["splitB"](b, wo, obj)
            log.append(("spB", (list(b), list(wo), obj), None, r))
            return r

        def w_median(seq, key=emo.identity):
            r = orig["median"](seq, key)
            log.append(("med", ([key(x) for x in seq],), None, r))
            return r

        def w_isdom(a, b):
            r = orig["isDominated"](a, b)
            log.append(("dom", (a, b), None, r))
            return r
        try:
            emo.sortNDHelperA = wrap_front("A", "sortNDHelperA", 2)
            emo.sortNDHelperB = wrap_front("B", "sortNDHelperB", 3)
            emo.sweepA = wrap_front("sA", "sweepA", 1)
            emo.sweepB = wrap_front("sB", "sweepB", 2)
            emo.splitA, emo.splitB, emo.median, emo.isDominated = w_splitA, w_splitB, w_median, w_isdom
            st, _ = budgeted(emo.sortLogNondominated, mkpop(w, vals), len(vals))
        finally:
            for n_, f in orig.items():
                setattr(emo, n_, f)
        if st != "ok":
            return      # reported by sort_case on the same population
        rng.shuffle(log)
        for kind, args, pre, post in log:
            if helper_budget.get(kind, 0) <= 0:
                continue
            if kind in ("A", "B"):
                if kind == "A":
                    size = len(args[0])
                else:
                    size = len(args[0]) + len(args[1])
                if size < 2 and rng.random() < 0.9:
                    continue
            helper_budget[kind] -= 1
            if kind in ("A", "B", "sA", "sB"):
                helper_case(kind, args, pre, post)
            elif kind == "spA":
                fs, obj = args
                add("CSplitA %s %s %s %s" % (cwl(tl(fs)), cz(obj), cwl(tl(post[0])), cwl(tl(post[1]))),
                    {"kind": "splitA", "fs": tl(fs), "obj": obj})
            elif kind == "spB":
                b, wo, obj = args
                add("CSplitB %s %s %s %s" % (cwl(tl(b)), cwl(tl(wo)), cz(obj), " ".join(cwl(tl(x)) for x in post)),
                    {"kind": "splitB", "best": tl(b), "worst": tl(wo), "obj": obj})
            elif kind == "med":
                (keys,) = args
                m2 = post * 2 * scale[0]
                if m2 != int(m2):
                    m2 = -10 ** 9      # not representable by the model: recorded as a value the model cannot produce
                add("CMedian %s %s" % (czl(to_int(keys)), cz(int(m2))), {"kind": "median", "keys": to_int(keys)})
            elif kind == "dom":
                a, b = args
                add("CIsDom %s %s %s" % (czl(to_int(a)), czl(to_int(b)), cbool(post)),
                    {"kind": "isDominated", "a": to_int(a), "b": to_int(b)})

    # -------- direct helper calls on generated arguments (also slightly off-contract ones) --------
    def rand_tuples(n, m, hi):
        return [tuple(float(rng.randint(0, hi)) for _ in range(m)) for _ in range(n)]

    def distinct_sorted(ts):
        return sorted(set(ts), reverse=True)

    def direct_helpers(count):
        for _ in range(count):
            st, _ = budgeted(direct_helper_once)
            if st != "ok":
                run.extra_cov["direct_helper_calls_not_returning"] = run.extra_cov.get("direct_helper_calls_not_returning", 0) + 1

    def direct_helper_once():
        if True:
            m = rng.randint(2, 5)
            hi = rng.choice([1, 2, 3, 6])
            ts = distinct_sorted(rand_tuples(rng.randint(0, 14), m, hi))
            which = rng.randint(0, 7)
            if which == 0:
                a, b = rand_tuples(2, m, hi)
                if rng.random() < 0.3:
                    b = a
                r = emo.isDominated(a, b)
                add("CIsDom %s %s %s" % (czl(to_int(a)), czl(to_int(b)), cbool(r)), {"kind": "isDominated", "a": to_int(a), "b": to_int(b)})
            elif which == 1:
                keys = [float(rng.randint(-hi, hi)) for _ in range(rng.randint(1, 9))]
                r = emo.median(keys)
                if 2 * r != int(2 * r):
                    return
                add("CMedian %s %s" % (czl(to_int(keys)), cz(int(2 * r))), {"kind": "median", "keys": to_int(keys)})
            elif which == 2 and ts:
                obj = rng.randint(0, m - 1)
                b, wo = emo.splitA(list(ts), obj)
                add("CSplitA %s %s %s %s" % (cwl(tl(ts)), cz(obj), cwl(tl(b)), cwl(tl(wo))), {"kind": "splitA", "fs": tl(ts), "obj": obj})
            else:
                # split the sorted distinct list into a "best" and a "worst" part by the last objective
                front = {t: rng.choice([0, 0, 0, 1, 2]) for t in ts}
                obj = rng.randint(1, m - 1)
                if rng.random() < 0.5 and ts:
                    piv = rng.choice(ts)[m - 1]
                    best = [t for t in ts if t[m - 1] > piv]
                    worst = [t for t in ts if t[m - 1] <= piv]
                else:
                    best = [t for t in ts if rng.random() < 0.5]
                    worst = [t for t in ts if t not in best]
                pre = fml(front)
                if which == 3 and best + worst:
                    if len(best) > len(worst) and not best or len(best) <= len(worst) and not worst:
                        return
                    r = emo.splitB(list(best), list(worst), obj)
                    add("CSplitB %s %s %s %s" % (cwl(tl(best)), cwl(tl(worst)), cz(obj), " ".join(cwl(tl(x)) for x in r)),
                        {"kind": "splitB", "best": tl(best), "worst": tl(worst), "obj": obj})
                elif which == 4 and ts:
                    emo.sweepA(list(ts), front)
                    helper_case("sA", (ts,), pre, fml(front))
                elif which == 5:
                    emo.sweepB(list(best), list(worst), front)
                    helper_case("sB", (best, worst), pre, fml(front))
                elif which == 6:
                    emo.sortNDHelperA(list(ts), obj, front)
                    helper_case("A", (ts, obj), pre, fml(front))
                elif which == 7:
                    emo.sortNDHelperB(list(best), list(worst), obj, front)
                    helper_case("B", (best, worst, obj), pre, fml(front))

    # ---------------------------------------------------------------------------------------
    # exhaustive small scopes
    # ---------------------------------------------------------------------------------------
    sign_vectors = {m: list(itertools.product([1, -1], repeat=m)) for m in range(1, 7)}
    counter = [0]

    def next_signs(m):
        counter[0] += 1
        return sign_vectors[m][counter[0] % len(sign_vectors[m])]

    wo = {n: weak_orders(n) for n in range(1, 5)}

    def order_type_pops(n, m):
        for cols in itertools.product(wo[n], repeat=m):
            yield [tuple(cols[j][i] for j in range(m)) for i in range(n)]

    def grid_pops(n, m):
        pts = list(itertools.product([0, 1, 2], repeat=m))
        return itertools.product(pts, repeat=n)

    def sample_or_all(it, total, limit):
        if total <= limit:
            for x in it:
                yield x
        else:
            p = float(limit) / total
            for x in it:
                if rng.random() < p:
                    yield x

    # n = 0 (sortNondominated only: the log variant indexes individuals[0])
    sort_case((1, 1), [], log=False)
    T = run.thorough
    for n in range(1, 5):
        for m in range(1, 4):
            total = len(wo[n]) ** m
            limit = total if total <= (70000 if T else 6000) else (40000 if T else 1200)
            for vals in sample_or_all(order_type_pops(n, m), total, limit):
                if n <= 2 or (T and n * m <= 4):
                    for sg in sign_vectors[m]:
                        sort_case(sg, vals)
                else:
                    sort_case(next_signs(m), vals)
            total = 3 ** (m * n)
            limit = total if total <= (70000 if T else 7000) else (40000 if T else 1200)
            for vals in sample_or_all(grid_pops(n, m), total, limit):
                sort_case(next_signs(m), list(vals))

    # ---------------------------------------------------------------------------------------
    # random populations
    # ---------------------------------------------------------------------------------------
    def random_pop():
        n = rng.choice([1, 2, 3, 5, 8, 13, 21, 30, 40]) if rng.random() < 0.5 else rng.randint(1, 40)
        m = rng.randint(2, 6) if rng.random() < 0.9 else 1
        w = [rng.choice([1, -1]) * rng.choice([1, 1, 1, 2, 3]) for _ in range(m)]
        style = rng.choice(["grid", "grid", "tie", "chain", "antichain", "dups", "wide", "mixed"])
        if style == "grid":
            hi = rng.choice([1, 2, 3, 4])
            vals = [tuple(rng.randint(0, hi) for _ in range(m)) for _ in range(n)]
        elif style == "tie":
            col = [rng.randint(0, 2) for _ in range(m)]
            vals = [tuple(c if rng.random() < 0.6 else rng.randint(0, 3) for c in col) for _ in range(n)]
        elif style == "chain":
            vals = [tuple(i + rng.choice([0, 0, 1]) for _ in range(m)) for i in range(n)]
            rng.shuffle(vals)
        elif style == "antichain":
            vals = [tuple([i, n - i] + [rng.choice([0, 0, 1]) for _ in range(m - 2)])[:m] for i in range(n)]
            rng.shuffle(vals)
        elif style == "dups":
            basep = [tuple(rng.randint(0, 3) for _ in range(m)) for _ in range(max(1, n // 3))]
            vals = [rng.choice(basep) for _ in range(n)]
        elif style == "wide":
            vals = [tuple(rng.randint(-50, 50) for _ in range(m)) for _ in range(n)]
        else:
            vals = [tuple(rng.choice([0, 1, 5, 5, 9]) if j % 2 else rng.randint(0, n) for j in range(m)) for _ in range(n)]
        return w, vals

    # mid-size tie-heavy populations: the smallest sizes at which splitB / both sweeps / the 3+ objective
    # recursion of the log-time sort are reached with ties on every objective
    for _ in range(run.scale(900, 9000)):
        n = rng.randint(5, 9)
        m = rng.choice([2, 3, 3, 4])
        hi = rng.choice([1, 2, 2])
        vals = [tuple(rng.randint(0, hi) for _ in range(m)) for _ in range(n)]
        sort_case(next_signs(m), vals, sorted(set([0, 1, 2, n // 2, n - 1, n, n + 1])))

    nrand = run.scale(260, 4000)
    for it in range(nrand):
        w, vals = random_pop()
        n = len(vals)
        ks = sorted(set([0, 1, n // 2, max(0, n - 1), n, n + 1, rng.randint(0, n + 1)]))
        scale[0] = rng.choice([1, 1, 2, 4])
        sort_case(w, vals, ks)
        if len(w) >= 2 and it % 2 == 0:
            trace_run(w, vals)
        scale[0] = 1
    direct_helpers(run.scale(700, 7000))

    run.extra_cov["case_kinds"] = {}
    for c in cases:
        run.extra_cov["case_kinds"][c["kind"]] = run.extra_cov["case_kinds"].get(c["kind"], 0) + 1
    # -------- extreme magnitudes (oracle only): finite values near the top of the binary64 range, of one or of both signs,
    # denormals, and mixed scales.  The order type is what the statement quantifies over; the Coq models work on integers,
    # which cannot represent the rounding / overflow of the float mean in `median`, so these populations are judged by the
    # peeling oracle alone (both procedures, every k, both flags).  Witness of the repaired defect ba2fc87 runs first.
    int_classes = {}

    def extreme_case(w, vals, ks=None, ints=False):
        n = len(vals)
        if ints:        # integer weights and integer values: the weighted values stay exact Python integers
            key_ = tuple(int(x) for x in w)
            if key_ not in int_classes:
                int_classes[key_] = type("FI%d" % len(int_classes), (base.Fitness,), {"weights": key_})
            C = int_classes[key_]
        else:
            C = fitcls(w)
        pop = []
        for v in vals:
            x = Ind(v)
            x.fitness = C()
            x.fitness.values = tuple(int(t) for t in v) if ints else tuple(float(t) for t in v)
            pop.append(x)
        idmap = {id(x): i for i, x in enumerate(pop)}
        ws = [tuple(x.fitness.wvalues) for x in pop]
        base_case = {"kind": "sort-extreme", "weights": list(w),
                     "values": [[str(int(t)) for t in v] for v in vals] if ints else [[float(t).hex() for t in v] for v in vals],
                     "integer_weights_and_values": bool(ints)}
        run.note_case(base_case, n >= 2)
        run.extra_cov["extreme_magnitude_populations"] = run.extra_cov.get("extreme_magnitude_populations", 0) + 1
        for k in (ks if ks is not None else sorted({0, 1, max(1, n // 2), n, n + 1})):
            for ffo in (False, True):
                case = dict(base_case, k=k, first_front_only=ffo)
                exp = o_expected(ws, k, ffo)
                for name, fn in (("sortNondominated", tools.sortNondominated), ("sortLogNondominated", tools.sortLogNondominated)):
                    if name == "sortLogNondominated" and len(w) < 2:
                        continue
                    st, r = budgeted(fn, pop, k, ffo, budget=2.0)
                    if st != "ok":
                        run.oracle_violation("%s does not return fronts on finite fitness values of extreme magnitude (%s)"
                                             % (name, st if st == "timeout" else r), case)
                        return
                    flat = isinstance(r, list) and len(r) > 0 and all(hasattr(e, "fitness") for e in r)
                    c = canon([r] if flat else r, idmap, case, name)
                    if c is not None and [sorted(f) for f in c] != exp:
                        run.oracle_violation("%s: fronts differ from dominance depth by peeling (extreme magnitudes)" % name, case, observed=c)
                        return

    BIG = [1e308, 1.7e308, 9e307, 1.7976931348623157e308, -1e308, -1.7e308, -9e307, -1.7976931348623157e308]
    extreme_case((-1.0, -1.0, -1.0), [(1e308, 1.7e308, 0.0), (1.7e308, 1e308, 1.0), (1e308, 1.7e308, 2.0), (1.7e308, 1e308, 3.0),
                                      (1.2e308, 1.3e308, 4.0), (1.3e308, 1.2e308, 0.5)])                # ba2fc87: same sign, sum overflows
    extreme_case((-1.0, -1.0, -1.0), [(-1e308, 1e308, 0.0), (1e308, -1e308, 1.0), (-1e308, 1e308, 2.0), (1e308, -1e308, 3.0),
                                      (-1.5e308, 1.5e308, 1.5), (1.5e308, -1.5e308, 2.5)])              # opposite signs: difference overflows
    for _ in range(run.scale(60, 600)):
        m = rng.choice([2, 3, 3, 4])
        n = rng.randint(2, 9)
        style = rng.choice(["big", "big", "mixed", "tiny"])
        if style == "big":
            pool = BIG
        elif style == "mixed":
            pool = BIG + [0.0, 1.0, -1.0, 1e-300, -1e-300, 2.0 ** 53, -(2.0 ** 53)]
        else:
            pool = [5e-324, -5e-324, 1e-320, -1e-320, 2.2250738585072014e-308, -2.2250738585072014e-308, 0.0]
        small = rng.sample(pool, min(len(pool), rng.randint(2, 4)))
        vals = [tuple(rng.choice(small) for _ in range(m)) for _ in range(n)]
        extreme_case(tuple(rng.choice([-1.0, 1.0]) for _ in range(m)), vals)

    # integers beyond 2**53 with integer weights: the float mean of the two middle values rounds outside them
    # (witness of the repaired defect: five objectives with values 2**60 .. 2**60+4)
    extreme_case((1, 1, 1, 1, 1), [(2 ** 60 + a, 2 ** 60 + b, 2 ** 60 + c, 2 ** 60 + d, 2 ** 60 + e) for a, b, c, d, e in
                                   ((0, 4, 1, 3, 2), (4, 0, 3, 1, 2), (1, 3, 0, 4, 2), (3, 1, 4, 0, 2), (2, 2, 2, 2, 0), (2, 2, 2, 2, 4),
                                    (1, 1, 3, 3, 1), (3, 3, 1, 1, 3))], ints=True)
    for _ in range(run.scale(40, 400)):
        m = rng.choice([3, 4, 5])
        n = rng.randint(4, 12)
        off = rng.choice([2 ** 60, 2 ** 53, -(2 ** 62), 2 ** 70])
        vals = [tuple(off + rng.randint(0, 4) for _ in range(m)) for _ in range(n)]
        extreme_case(tuple(rng.choice([1, -1]) for _ in range(m)), vals, ints=True)

    t_gen = time.time()
    run.correspond("all", "C04", terms, cases, shard=run.scale(300, 400))
    run.extra_cov["phase_seconds"] = {"build_props": round(t_built - t_start, 1), "implementation_and_oracle": round(t_gen - t_built, 1),
                                      "correspondence_coqc": round(time.time() - t_gen, 1)}

    # extra search for a failing input if a proof or the correspondence broke (oracle only)
    def search(run_):
        t0 = time.time()
        budget = 60 if not run_.thorough else 600
        while time.time() - t0 < budget and not run_.oracle_viol:
            w, vals = random_pop()
            n = len(vals)
            pop = mkpop(w, vals)
            ws = [[a * b for a, b in zip(v, w)] for v in vals]
            idmap = {id(x): i for i, x in enumerate(pop)}
            for k in range(0, n + 2):
                for ffo in (False, True):
                    exp = o_expected(ws, k, ffo)
                    case = {"kind": "sort", "weights": list(w), "values": [list(v) for v in vals], "k": k, "first_front_only": ffo}
                    st, r1 = budgeted(tools.sortNondominated, pop, k, ffo)
                    got = [sorted(idmap.get(id(x), -1) for x in f) for f in r1] if st == "ok" else st
                    if got != exp:
                        run_.oracle_violation("sortNondominated: fronts differ from dominance depth by peeling", case, observed=got)
                    if len(w) >= 2:
                        st, r2 = budgeted(tools.sortLogNondominated, pop, k, ffo)
                        if st == "ok" and isinstance(r2, list) and len(r2) > 0 and all(hasattr(e, "fitness") for e in r2):
                            r2 = [r2]       # flat first front (shape is not part of the statement)
                        got = [sorted(idmap.get(id(x), -1) for x in f) for f in r2] if st == "ok" else st
                        if got != exp:
                            run_.oracle_violation("sortLogNondominated: fronts differ from dominance depth by peeling", case, observed=got)
    run.search_fn = search
