"""Self-test of the regeneration tie of C09 (not part of ./check; run by hand:
    /venv/bin/python harness/c09_gen_selftest.py [-j N] [name ...]).

Each variant is a textual edit of deap/tools/crossover.py / mutation.py (applied to a copy of the text, /repo is
never touched).  The edited text is translated by c09_py2coq; if the translator accepts the edited function,
its equivalence lemma (the text of `Lemma gen_<f>_eq` in coq/Proofs/C09_gen_equiv.v) is compiled against the
regenerated definition in a scratch directory.  Outcome per variant: `refused`, `equivalent`, or `broken`;
compared with what is expected:
    harmless rewrites must be `equivalent` or `refused` (never `broken`: that would be a false alarm),
    semantic mutants must be `broken` or `refused` (never `equivalent`: that would be unsound),
    known-limit entries are meaning-preserving rewrites the equivalence tactic does NOT absorb (loop fission /
    fusion): they come out `broken`, i.e. the check would report `no-failing-input-found` on them."""
import os
import re
import shutil
import subprocess
import sys
from concurrent.futures import ThreadPoolExecutor

HERE = os.path.dirname(os.path.abspath(__file__))
sys.path.insert(0, HERE)
import c09_py2coq  # noqa

VERIF = os.path.dirname(HERE)
COQ = os.path.join(VERIF, "coq")
REPO = os.environ.get("VERIF_REPO", "/repo")
SCRATCH = os.environ.get("C09_SELFTEST_DIR", "/var/tmp/c09_gen_selftest")

H, S, LIM = "harmless", "semantic", "known-limit"
VARIANTS = [
    # ---------------- harmless rewrites: equivalent or refused
    ("h_rename_locals", H, "cxTwoPoint", "crossover.py", [
        ("    cxpoint1 = random.randint(1, size)\n    cxpoint2 = random.randint(1, size - 1)\n    if cxpoint2 >= cxpoint1:\n        cxpoint2 += 1\n    else:  # Swap the two cx points\n        cxpoint1, cxpoint2 = cxpoint2, cxpoint1\n\n    ind1[cxpoint1:cxpoint2], ind2[cxpoint1:cxpoint2] \\\n        = ind2[cxpoint1:cxpoint2], ind1[cxpoint1:cxpoint2]",
         "    lo = random.randint(1, size)\n    hi = random.randint(1, size - 1)\n    if hi >= lo:\n        hi += 1\n    else:\n        lo, hi = hi, lo\n\n    ind1[lo:hi], ind2[lo:hi] = ind2[lo:hi], ind1[lo:hi]")]),
    ("h_flip_comparison", H, "cxTwoPoint", "crossover.py", [
        ("    if cxpoint2 >= cxpoint1:\n        cxpoint2 += 1\n    else:  # Swap the two cx points\n        cxpoint1, cxpoint2 = cxpoint2, cxpoint1\n\n    ind1[cxpoint1:cxpoint2], ind2",
         "    if cxpoint1 <= cxpoint2:\n        cxpoint2 = 1 + cxpoint2\n    else:  # Swap the two cx points\n        cxpoint1, cxpoint2 = cxpoint2, cxpoint1\n\n    ind1[cxpoint1:cxpoint2], ind2")]),
    ("h_branches_reordered", H, "cxTwoPoint", "crossover.py", [
        ("    if cxpoint2 >= cxpoint1:\n        cxpoint2 += 1\n    else:  # Swap the two cx points\n        cxpoint1, cxpoint2 = cxpoint2, cxpoint1\n\n    ind1[cxpoint1:cxpoint2], ind2",
         "    if cxpoint2 < cxpoint1:\n        cxpoint1, cxpoint2 = cxpoint2, cxpoint1\n    else:\n        cxpoint2 += 1\n\n    ind1[cxpoint1:cxpoint2], ind2")]),
    ("h_uniform_tmp", H, "cxUniform", "crossover.py", [
        ("        if random.random() < indpb:\n            ind1[i], ind2[i] = ind2[i], ind1[i]\n\n    return ind1, ind2\n\n\ndef cxPartialyMatched",
         "        if random.random() < indpb:\n            tmp = ind1[i]\n            ind1[i] = ind2[i]\n            ind2[i] = tmp\n\n    return ind1, ind2\n\n\ndef cxPartialyMatched")]),
    ("h_uniform_hoisted_draw", H, "cxUniform", "crossover.py", [
        ("        if random.random() < indpb:\n            ind1[i], ind2[i] = ind2[i], ind1[i]\n\n    return ind1, ind2\n\n\ndef cxPartialyMatched",
         "        u = random.random()\n        if indpb > u:\n            x2, x1 = ind2[i], ind1[i]\n            ind2[i], ind1[i] = x1, x2\n\n    return ind1, ind2\n\n\ndef cxPartialyMatched")]),
    ("h_onepoint_hoisted", H, "cxOnePoint", "crossover.py", [
        ("    cxpoint = random.randint(1, size - 1)\n    ind1[cxpoint:], ind2[cxpoint:] = ind2[cxpoint:], ind1[cxpoint:]",
         "    last = size - 1\n    cxpoint = random.randint(1, last)\n    tail1 = ind1[cxpoint:]\n    tail2 = ind2[cxpoint:]\n    ind1[cxpoint:] = tail2\n    ind2[cxpoint:] = tail1")]),
    ("h_shuffle_two_assignments", H, "mutShuffleIndexes", "mutation.py", [
        ("            individual[i], individual[swap_indx] = \\\n                individual[swap_indx], individual[i]",
         "            a = individual[i]\n            b = individual[swap_indx]\n            individual[i] = b\n            individual[swap_indx] = a")]),
    ("h_shuffle_conditional_expr", H, "mutShuffleIndexes", "mutation.py", [
        ("            if swap_indx >= i:\n                swap_indx += 1\n",
         "            swap_indx = swap_indx + 1 if swap_indx >= i else swap_indx\n")]),
    ("h_inversion_segment", H, "mutInversion", "mutation.py", [
        ("    individual[start_index:end_index] = individual[start_index:end_index][::-1]",
         "    segment = individual[start_index:end_index]\n    individual[start_index:end_index] = segment[::-1]")]),
    ("h_inversion_if_else", H, "mutInversion", "mutation.py", [
        ("    start_index = min(index_one, index_two)\n    end_index = max(index_one, index_two)\n",
         "    if index_one <= index_two:\n        start_index, end_index = index_one, index_two\n    else:\n        start_index, end_index = index_two, index_one\n")]),
    ("h_flipbit_len_hoisted", H, "mutFlipBit", "mutation.py", [
        ("    for i in range(len(individual)):\n        if random.random() < indpb:\n            individual[i] = type(individual[i])(not individual[i])",
         "    n = len(individual)\n    for k in range(n):\n        if random.random() < indpb:\n            bit = individual[k]\n            individual[k] = type(bit)(not bit)")]),
    ("h_uniformint_enumerate", H, "mutUniformInt", "mutation.py", [
        ("    for i, xl, xu in zip(range(size), low, up):\n        if random.random() < indpb:\n            individual[i] = random.randint(xl, xu)",
         "    for i, (xl, xu) in enumerate(zip(low, up)):\n        if i < size and random.random() < indpb:\n            individual[i] = random.randint(xl, xu)")]),
    ("h_pmx_temps_renamed", H, "cxPartialyMatched", "crossover.py", [
        ("        temp1 = ind1[i]\n        temp2 = ind2[i]\n        # Swap the matched value\n        ind1[i], ind1[p1[temp2]] = temp2, temp1\n        ind2[i], ind2[p2[temp1]] = temp1, temp2\n        # Position bookkeeping\n        p1[temp1], p1[temp2] = p1[temp2], p1[temp1]\n        p2[temp1], p2[temp2] = p2[temp2], p2[temp1]\n\n    return ind1, ind2\n\n\ndef cxUniformPartialyMatched",
         "        v1 = ind1[i]\n        v2 = ind2[i]\n        j1 = p1[v2]\n        ind1[i] = v2\n        ind1[j1] = v1\n        j2 = p2[v1]\n        ind2[i] = v1\n        ind2[j2] = v2\n        p1[v1], p1[v2] = p1[v2], p1[v1]\n        p2[v1], p2[v2] = p2[v2], p2[v1]\n\n    return ind1, ind2\n\n\ndef cxUniformPartialyMatched")]),
    ("h_ordered_swap_first", H, "cxOrdered", "crossover.py", [
        ("    if a > b:\n        a, b = b, a\n", "    if b < a:\n        b, a = a, b\n")]),
    ("h_ordered_k_single_stmt", H, "cxOrdered", "crossover.py", [
        ("    k1, k2 = b + 1, b + 1\n", "    k1 = b + 1\n    k2 = k1\n")]),
    ("h_messy_len_locals", H, "cxMessyOnePoint", "crossover.py", [
        ("    cxpoint1 = random.randint(0, len(ind1))\n    cxpoint2 = random.randint(0, len(ind2))\n",
         "    n1 = len(ind1)\n    n2 = len(ind2)\n    cxpoint1 = random.randint(0, n1)\n    cxpoint2 = random.randint(0, n2)\n")]),
    ("limit_pmx_init_two_loops", LIM, "cxPartialyMatched", "crossover.py", [
        ("    for i in range(size):\n        p1[ind1[i]] = i\n        p2[ind2[i]] = i\n    # Choose crossover points",
         "    for i in range(size):\n        p1[ind1[i]] = i\n    for i in range(size):\n        p2[ind2[i]] = i\n    # Choose crossover points")]),
    ("limit_ordered_loop_fission", LIM, "cxOrdered", "crossover.py", [
        ("            k1 += 1\n\n        if not holes2[temp2[(i + b + 1) % size]]:",
         "            k1 += 1\n\n    for i in range(size):\n        if not holes2[temp2[(i + b + 1) % size]]:")]),
    ("h_ordered_no_alias", H, "cxOrdered", "crossover.py", [
        ("        if not holes1[temp1[(i + b + 1) % size]]:\n            ind1[k1 % size] = temp1[(i + b + 1) % size]",
         "        if not holes1[ind1[(i + b + 1) % size]]:\n            ind1[k1 % size] = ind1[(i + b + 1) % size]")]),
    ("h_ordered_hoisted_index", H, "cxOrdered", "crossover.py", [
        ("        if not holes1[temp1[(i + b + 1) % size]]:\n            ind1[k1 % size] = temp1[(i + b + 1) % size]",
         "        j = (b + i + 1) % size\n        if not holes1[temp1[j]]:\n            ind1[k1 % size] = temp1[j]")]),
    ("h_uniformint_elif_to_else", H, "mutUniformInt", "mutation.py", [
        ("    if not isinstance(low, Sequence):\n        low = repeat(low, size)\n    elif len(low) < size:\n        raise IndexError(\"low must be at least the size of individual: %d < %d\" % (len(low), size))\n    if not isinstance(up, Sequence):\n        up = repeat(up, size)\n    elif len(up) < size:\n        raise IndexError(\"up must be at least the size of individual: %d < %d\" % (len(up), size))\n\n    for i, xl, xu in zip(range(size), low, up):\n        if random.random() < indpb:\n            individual[i] = random.randint(xl, xu)",
         "    if isinstance(low, Sequence):\n        if len(low) < size:\n            raise IndexError(\"low must be at least the size of individual: %d < %d\" % (len(low), size))\n    else:\n        low = repeat(low, size)\n    if isinstance(up, Sequence):\n        if size > len(up):\n            raise IndexError(\"up is too short\")\n    else:\n        up = repeat(up, size)\n\n    for i, xl, xu in zip(range(size), low, up):\n        if random.random() < indpb:\n            individual[i] = random.randint(xl, xu)")]),
    # ---------------- semantic mutants: broken or refused
    ("s_twopoint_second_range", S, "cxTwoPoint", "crossover.py", [
        ("    cxpoint1 = random.randint(1, size)\n    cxpoint2 = random.randint(1, size - 1)\n    if cxpoint2 >= cxpoint1:\n        cxpoint2 += 1\n    else:  # Swap the two cx points\n        cxpoint1, cxpoint2 = cxpoint2, cxpoint1\n\n    ind1[cxpoint1:cxpoint2], ind2",
         "    cxpoint1 = random.randint(1, size)\n    cxpoint2 = random.randint(1, size)\n    if cxpoint2 >= cxpoint1:\n        cxpoint2 += 1\n    else:  # Swap the two cx points\n        cxpoint1, cxpoint2 = cxpoint2, cxpoint1\n\n    ind1[cxpoint1:cxpoint2], ind2")]),
    ("s_uniform_size_cap", S, "cxUniform", "crossover.py", [
        ("    size = min(len(ind1), len(ind2))\n    for i in range(size):\n        if random.random() < indpb:\n            ind1[i], ind2[i]",
         "    size = min(len(ind1), len(ind2), 64)\n    for i in range(size):\n        if random.random() < indpb:\n            ind1[i], ind2[i]")]),
    ("s_uniform_le", S, "cxUniform", "crossover.py", [
        ("        if random.random() < indpb:\n            ind1[i], ind2[i] = ind2[i], ind1[i]",
         "        if random.random() <= indpb:\n            ind1[i], ind2[i] = ind2[i], ind1[i]")]),
    ("s_uniform_early_exit", S, "cxUniform", "crossover.py", [
        ("    size = min(len(ind1), len(ind2))\n    for i in range(size):\n        if random.random() < indpb:\n            ind1[i], ind2[i]",
         "    size = min(len(ind1), len(ind2))\n    if indpb >= 1.0:\n        ind1[:size], ind2[:size] = ind2[:size], ind1[:size]\n        return ind1, ind2\n\n    for i in range(size):\n        if random.random() < indpb:\n            ind1[i], ind2[i]")]),
    ("s_shuffle_rare_index", S, "mutShuffleIndexes", "mutation.py", [
        ("            swap_indx = random.randint(0, size - 2)\n", "            swap_indx = random.randint(0, min(size, 50) - 2)\n")]),
    ("s_shuffle_gt", S, "mutShuffleIndexes", "mutation.py", [
        ("            if swap_indx >= i:\n", "            if swap_indx > i:\n")]),
    ("s_flipbit_range_cap", S, "mutFlipBit", "mutation.py", [
        ("    for i in range(len(individual)):\n        if random.random() < indpb:\n            individual[i] = type(",
         "    for i in range(min(len(individual), 100)):\n        if random.random() < indpb:\n            individual[i] = type(")]),
    ("s_inversion_inclusive", S, "mutInversion", "mutation.py", [
        ("    individual[start_index:end_index] = individual[start_index:end_index][::-1]",
         "    individual[start_index:end_index + 1] = individual[start_index:end_index + 1][::-1]")]),
    ("s_inversion_size_guard", S, "mutInversion", "mutation.py", [
        ("    size = len(individual)\n    if size == 0:\n        return individual,\n\n    index_one",
         "    size = len(individual)\n    if size <= 1:\n        return individual,\n\n    index_one")]),
    ("s_uniformint_short_bound", S, "mutUniformInt", "mutation.py", [
        ("    elif len(up) < size:\n        raise IndexError(\"up must be at least the size of individual: %d < %d\" % (len(up), size))\n\n    for i, xl, xu in zip(range(size), low, up):\n        if random.random() < indpb:",
         "    elif len(up) < size - 1:\n        raise IndexError(\"up must be at least the size of individual: %d < %d\" % (len(up), size))\n\n    for i, xl, xu in zip(range(size), low, up):\n        if random.random() < indpb:")]),
    ("s_uniformint_swapped", S, "mutUniformInt", "mutation.py", [
        ("            individual[i] = random.randint(xl, xu)", "            individual[i] = random.randint(xu, xl)")]),
    ("s_pmx_from_one", S, "cxPartialyMatched", "crossover.py", [
        ("    cxpoint1 = random.randint(0, size)\n    cxpoint2 = random.randint(0, size - 1)",
         "    cxpoint1 = random.randint(1, size)\n    cxpoint2 = random.randint(0, size - 1)")]),
    ("s_upmx_wrong_table", S, "cxUniformPartialyMatched", "crossover.py", [
        ("            ind2[i], ind2[p2[temp1]] = temp1, temp2\n            # Position bookkeeping\n            p1[temp1], p1[temp2] = p1[temp2], p1[temp1]\n            p2[temp1], p2[temp2] = p2[temp2], p2[temp1]\n\n    return ind1, ind2\n\n\ndef cxOrdered",
         "            ind2[i], ind2[p1[temp1]] = temp1, temp2\n            # Position bookkeeping\n            p1[temp1], p1[temp2] = p1[temp2], p1[temp1]\n            p2[temp1], p2[temp2] = p2[temp2], p2[temp1]\n\n    return ind1, ind2\n\n\ndef cxOrdered")]),
    ("s_ordered_copy_not_alias", S, "cxOrdered", "crossover.py", [
        ("    temp1, temp2 = ind1, ind2\n", "    temp1, temp2 = ind1[:], ind2[:]\n")]),
    ("s_ordered_k_start", S, "cxOrdered", "crossover.py", [
        ("    k1, k2 = b + 1, b + 1\n", "    k1, k2 = b + 1, b\n")]),
    ("s_ordered_holes_ge", S, "cxOrdered", "crossover.py", [
        ("        if i < a or i > b:\n", "        if i < a or i >= b:\n")]),
    ("s_messy_wrong_point", S, "cxMessyOnePoint", "crossover.py", [
        ("    ind1[cxpoint1:], ind2[cxpoint2:] = ind2[cxpoint2:], ind1[cxpoint1:]",
         "    ind1[cxpoint1:], ind2[cxpoint2:] = ind2[cxpoint2:], ind1[cxpoint2:]")]),
    ("s_es_strategy_shift", S, "cxESTwoPoint", "crossover.py", [
        ("    ind1.strategy[pt1:pt2], ind2.strategy[pt1:pt2] = \\\n        ind2.strategy[pt1:pt2], ind1.strategy[pt1:pt2]",
         "    ind1.strategy[pt1:pt2], ind2.strategy[pt1:pt2] = \\\n        ind2.strategy[pt1:pt2 + 1], ind1.strategy[pt1:pt2 + 1]")]),
    ("s_onepoint_returns_swapped", S, "cxOnePoint", "crossover.py", [
        ("    ind1[cxpoint:], ind2[cxpoint:] = ind2[cxpoint:], ind1[cxpoint:]\n\n    return ind1, ind2",
         "    ind1[cxpoint:], ind2[cxpoint:] = ind2[cxpoint:], ind1[cxpoint:]\n\n    return ind2, ind1")]),
    ("s_onepoint_sequential", S, "cxOnePoint", "crossover.py", [
        ("    ind1[cxpoint:], ind2[cxpoint:] = ind2[cxpoint:], ind1[cxpoint:]\n",
         "    ind1[cxpoint:] = ind2[cxpoint:]\n    ind2[cxpoint:] = ind1[cxpoint:]\n")]),
]


def lemma_text(fn):
    src = open(os.path.join(COQ, "Proofs", "C09_gen_equiv.v")).read()
    m = re.search(r"Lemma gen_%s_eq\b.*?Qed\." % fn, src, re.S)
    return m.group(0)


PRE = """From Coq Require Import List ZArith QArith Bool Lia ZifyBool.
From DV Require Import Base.PyList Model.C09_SeqOps Model.C09_PyRt Proofs.C09_GenTac.
From Scr Require Import C09_gen.
Import ListNotations.
Local Open Scope Z_scope.
"""


def run_variant(v, sources):
    name, kind, fn, fname, edits = v
    srcs = dict(sources)
    for old, new in edits:
        if srcs[fname].count(old) != 1:
            return name, kind, "SETUP-ERROR: snippet occurs %d times" % srcs[fname].count(old)
        srcs[fname] = srcs[fname].replace(old, new)
    try:
        compile(srcs[fname], fname, "exec")
    except SyntaxError as e:
        return name, kind, "SETUP-ERROR: %s" % e
    text, status = c09_py2coq.translate_sources(srcs)
    others = [f for f, s in status.items() if s is not None and f != fn]
    if others:
        return name, kind, "SETUP-ERROR: other functions refused: %s" % others
    if status[fn] is not None:
        return name, kind, "refused (%s)" % status[fn]
    d = os.path.join(SCRATCH, name)
    shutil.rmtree(d, ignore_errors=True)
    os.makedirs(d)
    open(os.path.join(d, "C09_gen.v"), "w").write(text)
    open(os.path.join(d, "T.v"), "w").write(PRE + lemma_text(fn) + "\n")
    for f in ("C09_gen.v", "T.v"):
        p = subprocess.run(["timeout", "600", "coqc", "-Q", COQ, "DV", "-Q", d, "Scr", f], cwd=d,
                           stdout=subprocess.PIPE, stderr=subprocess.STDOUT, text=True)
        if p.returncode != 0:
            if f == "C09_gen.v":
                return name, kind, "GEN-DOES-NOT-COMPILE: " + p.stdout[-400:]
            return name, kind, "broken"
    return name, kind, "equivalent"


def main():
    args = sys.argv[1:]
    jobs = 4
    if args[:1] == ["-j"]:
        jobs = int(args[1])
        args = args[2:]
    sources = {f: open(os.path.join(REPO, "deap", "tools", f)).read() for f in c09_py2coq.FILES}
    todo = [v for v in VARIANTS if not args or v[0] in args]
    bad = 0
    with ThreadPoolExecutor(jobs) as ex:
        for name, kind, res in ex.map(lambda v: run_variant(v, sources), todo):
            ok = (res.startswith("refused") or res == ("equivalent" if kind == H else "broken")
                  or (kind == LIM and res == "equivalent"))
            bad += not ok
            print("%-30s %-9s %-4s %s" % (name, kind, "ok" if ok else "BAD", res))
            sys.stdout.flush()
    shutil.rmtree(SCRATCH, ignore_errors=True)
    print("%d variants, %d unexpected" % (len(todo), bad))
    return 1 if bad else 0


if __name__ == "__main__":
    sys.exit(main())
