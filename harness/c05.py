"""C05 — NSGA-II selection (deap/tools/emo.py: selNSGA2, assignCrowdingDist).

For every generated call the harness
  * runs tools.selNSGA2 on fresh individuals, recording what the sorter (sortNondominated /
    sortLogNondominated, wrapped in the emo namespace) returned during that call,
  * evaluates the property statement directly on what came back (oracle, independent of the Coq
    model: own peeling depths, own crowding formula in exact rationals),
  * writes the call as Coq terms: CSelF (IEEE floats, compared bit for bit) and CSelQ (exact
    rationals; selection compared when the float computation is provably exact).
"""
import glob
import itertools
import json
import math
import os
from fractions import Fraction

import vlib
from vlib import cz, czl, cnat, cnatl, cbool, clist, copt, cq, cfloat, guarded

INF = float("inf")
GEN = os.path.join(vlib.COQ, "Gen", "C05_gen.v")


def regen(repo=None):
    """Tie (T): regenerate coq/Gen/C05_gen.v from the working tree's deap/tools/emo.py (harness/c05_py2coq.py).
    Returns (ok, message, status) -- status: function -> None (translated) | Refuse (placeholder = the hand model);
    ok is False when nothing could be translated."""
    import c05_py2coq
    repo = repo or vlib.REPO
    try:
        txt, status = c05_py2coq.translate_repo(repo)
    except Exception as e:  # noqa  (a translator crash is a refusal of everything: fail closed)
        r = c05_py2coq.Refuse("Module", "translator error %s: %s" % (type(e).__name__, e))
        txt, status = c05_py2coq.translate_source("\x00")      # all placeholders
        status = {k: r for k in status}
    with vlib.BuildLock():
        os.makedirs(os.path.dirname(GEN), exist_ok=True)
        old = open(GEN).read() if os.path.exists(GEN) else None
        if old != txt:
            with open(GEN, "w") as f:
                f.write(txt)
    done = [k for k, v in status.items() if v is None]
    refused = ["%s (%s)" % (k, v) for k, v in status.items() if v is not None]
    msg = "regenerated: %s" % (", ".join(done) or "nothing")
    if refused:
        msg += "; translator refused: " + "; ".join(refused)
    return bool(done), msg, status


def tie_T(run):
    """Regenerate, build the equivalence and the restated theorems.  Returns the name of the Corr check to evaluate:
    "check_both" when the regenerated definitions were built and are (provably) the model, "check" otherwise."""
    ok, msg, status = regen()
    refused = {k: v for k, v in status.items() if v is not None}
    done = [k for k, v in status.items() if v is None]
    run.extra_cov["regenerated_functions"] = done
    run.extra_cov["translator_refused"] = {k: str(v) for k, v in refused.items()}
    for k, v in refused.items():
        run.notes.append("tie: correspondence-only (translator refused %s at line %s in %s: %s)" % (v.node, v.line, k, v.why))
    if not ok:
        run.extra_cov["tie"] = "correspondence-only (%s)" % msg
        return "check"
    if run.build_props(props="Props/C05_gen.v"):
        run.notes.append("tie: regenerated (%s)" % ", ".join(done))
        run.extra_cov["tie"] = ("translation (regenerated definitions proved to compute the hand model: %s) + correspondence%s"
                                % (", ".join(done), "; correspondence-only for " + ", ".join(sorted(refused)) if refused else ""))
        run.trusted.append("translator harness/c05_py2coq.py and its signature table (source text of deap/tools/emo.py -> coq/Gen/C05_gen.v) "
                           "with the statement vocabulary coq/Model/C05_GenRt.v; the regenerated definitions are proved to refine the "
                           "hand model (Proofs/C05_gen_equiv.v) and are evaluated against the implementation on every run")
        return "check_both"
    run.extra_cov["tie"] = "translator succeeded but the regenerated definitions are no longer (provably) the model"
    try:        # keep the offending text for the replay
        with open(os.path.join(run.rundir, "C05_gen.v.broken"), "w") as f:
            f.write(open(GEN).read())
    except OSError:
        pass
    return "check"


# ----------------------------------------------------------------------------
# independent oracle helpers (no DEAP code, no model code)
# ----------------------------------------------------------------------------
def dominates(a, b):
    """a, b weighted-value tuples (maximisation)."""
    return all(x >= y for x, y in zip(a, b)) and any(x > y for x, y in zip(a, b))


def peel_depths(wvs):
    """dominance depth of every point: 0 = dominated by nobody, then peel."""
    n = len(wvs)
    depth = [None] * n
    rem = list(range(n))
    d = 0
    while rem:
        front = [i for i in rem if not any(dominates(wvs[j], wvs[i]) for j in rem)]
        assert front, "dominance cycle"
        for i in front:
            depth[i] = d
        rem = [i for i in rem if depth[i] is None]
        d += 1
    return depth


def formula_crowding(vals):
    """Crowding distance by the textbook formula, exact rationals; vals: list of tuples of floats whose
    values are pairwise distinct per objective.  Returns list of Fraction or INF."""
    n = len(vals)
    nobj = len(vals[0])
    out = [Fraction(0)] * n
    for j in range(n):
        total = Fraction(0)
        inf = False
        for i in range(nobj):
            col = [Fraction(v[i]) for v in vals]
            x = col[j]
            lo, hi = min(col), max(col)
            if x == lo or x == hi:
                inf = True
                break
            nxt = min(c for c in col if c > x)
            prv = max(c for c in col if c < x)
            total += (nxt - prv) / (nobj * (hi - lo))
        out[j] = INF if inf else total
    return out


def extremes_have_inf(vals, cds):
    """for every objective some individual holding the minimum and some individual holding the maximum value
    has an infinite distance (with pairwise distinct values: *the* two extremes); tie-robust"""
    if not vals:
        return True
    for i in range(len(vals[0])):
        col = [v[i] for v in vals]
        lo, hi = min(col), max(col)
        if not any(c == lo and d == INF for c, d in zip(col, cds)):
            return False
        if not any(c == hi and d == INF for c, d in zip(col, cds)):
            return False
    return True


def distinct_per_objective(vals):
    if not vals:
        return True
    for i in range(len(vals[0])):
        col = [v[i] for v in vals]
        if len(set(col)) != len(col):
            return False
    return True


def is_pow2(fr):
    fr = Fraction(fr)
    if fr <= 0:
        return False
    n, d = fr.numerator, fr.denominator
    return (n & (n - 1)) == 0 and (d & (d - 1)) == 0


def float_exact_ok(front_vals):
    """Sufficient condition (from inputs only) for assignCrowdingDist's float arithmetic on this list to be
    exact: power-of-two number of objectives, short dyadic values, every objective range 0 or a power of 2."""
    if not front_vals:
        return True
    nobj = len(front_vals[0])
    if nobj & (nobj - 1):
        return False
    for v in front_vals:
        for x in v:
            if not (abs(x) < 2 ** 20 and (x * 1024.0) == int(x * 1024.0)):
                return False
    for i in range(nobj):
        col = [v[i] for v in front_vals]
        r = Fraction(max(col)) - Fraction(min(col))
        if r != 0 and not is_pow2(r):
            return False
    return True


# ----------------------------------------------------------------------------
# Coq literals
# ----------------------------------------------------------------------------
def cqinf(x):
    if x == INF:
        return "Inf"
    if x != x or x == -INF:
        return "(Fin ((-1) # 1))"      # never produced by the model: forces a disagreement
    return "(Fin %s)" % cq(x)


def cfl(l):
    return clist([cfloat(x) for x in l])


def cql(l):
    return clist([cq(x) for x in l])


def correspond_robust(run, terms, cases, shard, check="check", requires=(), prefix="all"):
    """run.correspond in chunks of NCPU shards; a chunk in which a coqc process died without any output
    (killed by the kernel's OOM killer / timeout on an overloaded machine) is evaluated again, at most twice.
    A chunk counts only if a complete coqc evaluation of all its shards succeeded; Coq errors with a message
    and genuine disagreements are never retried away."""
    import time
    per = shard * max(1, vlib.NCPU)
    retried = 0
    for c, start in enumerate(range(0, len(terms), per)):
        t, cs = terms[start:start + per], cases[start:start + per]
        for attempt in range(3):
            g = "%s_%d" % (prefix, c) if attempt == 0 else "%s_%d_retry%d" % (prefix, c, attempt)
            before = len(run.disagreements)
            traces_before = run.traces
            run.correspond(g, "C05", t, cs, shard=shard, check=check, requires=list(requires))
            new = run.disagreements[before:]
            killed = [d for d in new if d.get("coq_error") is not None and not (d["coq_error"].get("log") or "").strip()]
            if not killed or attempt == 2:
                break
            # infrastructure failure: forget this attempt completely and evaluate the chunk again
            del run.disagreements[before:]
            run.traces = traces_before
            run.corr_groups[g + "_killed"] = run.corr_groups.pop(g)
            retried += 1
            time.sleep(5 + 10 * attempt)
    if retried:
        run.notes.append("%d correspondence chunk(s) re-evaluated after coqc was killed without output (machine overload)" % retried)


def main(run):
    from deap import base, tools
    from deap.tools import emo

    run.rule = ("exhaustive: all populations (as sequences) of 1..3 points (thorough: multisets of 4 as well) over the grid {0,1,2}^2 "
                "and {0,1}^3, all min/max sign vectors, every k in 0..n+2, both sorting back-ends; random: n in 1..30, 2-4 objectives, "
                "random weight signs and magnitudes, value families: tie-heavy integer grids, dyadic, power-of-two grids (float arithmetic exact), "
                "random doubles, per-objective-distinct permutations, objectives on large offsets (1e3..1e9, both signs) with spreads 1e-3..1 or on "
                "1e-9 scales around 0 (single fronts of 4..8 with every k, and multi-front populations), injected duplicates, k in 0..n+2; "
                "corpus/C05*.json first; direct assignCrowdingDist calls on lists "
                "of 0..10 individuals. A case is distinct by (weights, values, k, back-end); non-trivial = the last front is cut strictly inside "
                "or crowding distances contain a finite non-zero value.")
    run.trusted += [
        "Coq 8.16.1 kernel and vm_compute (incl. primitive floats = IEEE binary64 as in CPython)",
        "hand-written model coq/Model/C05_Nsga2.v tied by correspondence (harness/c05.py): floats bit-exact, rationals exact where float arithmetic is exact by construction, 2^-40 relative otherwise",
        "Python list.sort/sorted stability (incl. reverse=True) modelled by stable insertion sort (coq/Base/C05_Sort.v)",
        "first half of Props/C05.v: theorems relative to fronts_correct, which is decided in Coq on the fronts the implementation's sorter returned in every case",
        "second half (C05_full_*): the sort is inside the model (property C04's models coq/Model/C04_NDSort.v, C04_LogSort.v, proved correct there); tied here by evaluating sel_nsga2_full (the model sorts by itself) against the fronts of the implementation's sorter and the list selNSGA2 returned, both back-ends, every case",
        "C04's model of median() carries the doubled median of integer images (order-isomorphic per objective to the weighted values); the log-time sort's output does not depend on the pivot value (only ranks and the lexicographic order decide it)",
        "harness: object identity by position of id() in the input list; float.hex literals; Fraction(float) exact",
    ]
    run.assumptions += ["fitness values finite (no NaN/inf), all individuals have the same number of objectives",
                        "individuals are distinct objects with distinct fitness objects", "k >= 0, population non-empty"]
    # ---- tie (T): regenerate Gen/C05_gen.v from the working tree, re-prove `regenerated refines model` and the theorems.
    # The two builds (coqc: ~20 s each, mostly Print Assumptions) run while the cases are generated; both are joined
    # before the correspondence.
    import threading
    tie_box = {}

    def props_thread():
        try:
            run.build_props()
        except BaseException as e:  # noqa  (re-raised in the main thread)
            tie_box["error"] = e

    def tie_thread():
        try:
            tie_box["check"] = tie_T(run)
        except BaseException as e:  # noqa  (re-raised in the main thread)
            tie_box["error"] = e
    props_th = threading.Thread(target=props_thread, name="C05-props")
    props_th.start()
    tie_th = threading.Thread(target=tie_thread, name="C05-tie-T")
    tie_th.start()
    import time as _t
    t_gen0 = _t.time()
    rng = run.rng

    import array
    import copy
    import numpy

    classes = {}

    def fitcls(w):
        key = tuple((type(x).__name__, x) for x in w)
        if key not in classes:
            classes[key] = type("F%d" % len(classes), (base.Fitness,), {"weights": tuple(w)})
        return classes[key]

    class Ind(list):
        pass

    class IndArr(numpy.ndarray):
        pass

    class IndTyped(array.array):
        pass

    class IndObj(object):
        def __init__(self, g):
            self.genes = [g]

    def mkind_py(j, container):
        if container == "ndarray":
            return numpy.array([j, j + 1]).view(IndArr)
        if container == "array":
            return IndTyped("d", [float(j)])
        if container == "object":
            return IndObj(j)
        return Ind([j])

    def genes_of(ind):
        if isinstance(ind, numpy.ndarray):
            return ind.tolist()
        if isinstance(ind, IndObj):
            return list(ind.genes)
        return list(ind)

    def typed_weights(w, vtype):
        if vtype == "int":
            return [int(x) if float(x) == int(x) else float(x) for x in w]
        return [float(x) for x in w]

    def typed_values(v, vtype):
        if vtype == "np64":
            return tuple(numpy.float64(x) for x in v)
        if vtype == "f32":
            return tuple(numpy.float32(x) for x in v)
        if vtype == "int":
            return tuple(x if isinstance(x, int) else (int(x) if float(x) == int(x) else float(x)) for x in v)
        return tuple(float(x) for x in v)

    def build(w, vals, vtype="float", container="list"):
        """vtype: how the fitness values are handed to DEAP (python floats / numpy.float64 scalars / python ints with
        integer weights / numpy.float32 scalars); container: the individual's type (selection must not care)."""
        C = fitcls(typed_weights(w, vtype))
        pop = []
        for j, v in enumerate(vals):
            ind = mkind_py(j, container)
            ind.fitness = C()
            ind.fitness.values = typed_values(v, vtype)
            pop.append(ind)
        return pop

    def rank_image(pop):
        """order-isomorphic integer image of the weighted values, per objective"""
        nobj = len(pop[0].fitness.wvalues) if pop else 0
        maps = []
        for i in range(nobj):
            col = sorted(set(ind.fitness.wvalues[i] for ind in pop))
            maps.append({x: r for r, x in enumerate(col)})
        return [[maps[i][ind.fitness.wvalues[i]] for i in range(nobj)] for ind in pop]

    terms, cases = [], []
    all_k_nd_later = []
    stats = {"sel_calls": 0, "exact_q": 0, "cut_inside": 0, "formula_checked_fronts": 0, "crowd_calls": 0,
             "log_calls": 0, "k_gt_n": 0, "with_duplicates": 0, "with_stale_crowding_dist": 0, "oracle_only_calls": 0,
             "routes": {}, "vtypes": {}, "containers": {}}

    with_gen = []       # per term: also evaluated through the regenerated definitions (tie (T))

    def add(term, case, nontrivial=True, gen=True):
        terms.append(term)
        cases.append(case)
        with_gen.append(gen)

    toolboxes = {}

    def call_route(route, pop, k, nd):
        if route == "keyword":
            return tools.selNSGA2(pop, k, nd=nd)
        if route == "emo":
            return emo.selNSGA2(pop, k, nd)
        if route == "toolbox":
            if nd not in toolboxes:
                tb = base.Toolbox()
                tb.register("select", tools.selNSGA2, nd=nd)
                toolboxes[nd] = tb
            return toolboxes[nd].select(pop, k)
        if route == "default" and nd == "standard":
            return tools.selNSGA2(pop, k)
        return tools.selNSGA2(pop, k, nd)

    # ------------------------------------------------------------------------
    def sel_call(pop, case, k, nd, route="positional", tol=None, emit=True):
        """One call of selNSGA2 on existing individual objects (which may carry a crowding_dist from earlier calls).
        The oracle judges this call on its own: inputs = the objects' current fitnesses + their stale attributes."""
        n = len(pop)
        pos = {id(ind): j for j, ind in enumerate(pop)}
        pre_cd = [getattr(ind.fitness, "crowding_dist", None) for ind in pop]
        pre_ids = [id(ind) for ind in pop]
        pre_vals = [tuple(ind.fitness.values) for ind in pop]
        pre_types = [tuple(type(x) for x in ind.fitness.values) for ind in pop]
        pre_wvals = [tuple(ind.fitness.wvalues) for ind in pop]
        pre_genes = [genes_of(ind) for ind in pop]
        rec = []
        orig = (emo.sortNondominated, emo.sortLogNondominated)

        def wrap(f, name):
            def g(*a, **kw):
                r = f(*a, **kw)
                rec.append((name, [list(fr) for fr in r]))
                return r
            return g
        emo.sortNondominated, emo.sortLogNondominated = wrap(orig[0], "standard"), wrap(orig[1], "log")
        try:
            status, res = guarded(call_route, route, pop, k, nd)
        finally:
            emo.sortNondominated, emo.sortLogNondominated = orig
        case = dict(case, kind="sel", k=k, nd=nd, route=route,
                    pre_crowding_dist=[repr(x) for x in pre_cd] if any(x is not None for x in pre_cd) else None)
        stats["sel_calls"] += 1
        stats["log_calls"] += nd == "log"
        stats["k_gt_n"] += k > n
        stats["routes"][route] = stats["routes"].get(route, 0) + 1
        stats["with_stale_crowding_dist"] += any(x is not None for x in pre_cd)
        if status != "ok":
            run.note_case(case, True)
            run.oracle_violation("selNSGA2 raised %s" % res, case)
            return None
        if len(rec) != 1 or rec[0][0] != nd:
            run.note_case(case, True)
            run.oracle_violation("selNSGA2 did not call the selected sorting back-end exactly once", case,
                                 observed=[r[0] for r in rec])
            return None
        # ---- the arguments are left alone; the result is a new list of references ----
        if [id(ind) for ind in pop] != pre_ids:
            run.oracle_violation("selNSGA2 modified the list of individuals it was given", case)
            return None
        if res is pop or not isinstance(res, list):
            run.oracle_violation("selNSGA2 did not return a new list", case)
        if ([tuple(ind.fitness.values) for ind in pop] != pre_vals or [tuple(ind.fitness.wvalues) for ind in pop] != pre_wvals
                or [tuple(type(x) for x in ind.fitness.values) for ind in pop] != pre_types
                or [genes_of(ind) for ind in pop] != pre_genes):
            run.oracle_violation("selNSGA2 changed an individual's genes or fitness values", case)
        # ---- observations ----
        sel_uid, unknown = [], 0
        for x in res:
            if id(x) in pos:
                sel_uid.append(pos[id(x)])
            else:
                sel_uid.append(n + unknown)
                unknown += 1
        fronts_uid = [[pos.get(id(x), n) for x in fr] for fr in rec[0][1]]
        cd_raw = [getattr(ind.fitness, "crowding_dist", None) for ind in pop]
        cd = [None if x is None else float(x) for x in cd_raw]
        obs_vals = [tuple(float(x) for x in ind.fitness.values) for ind in pop]     # exact conversions
        wvs = pre_wvals
        case["observed"] = {"selected": sel_uid, "fronts": fronts_uid, "crowding_dist": [repr(x) for x in cd]}
        ftol = Fraction(1, 10 ** 12) if tol is None else Fraction(tol)
        # ---- oracle: the property statement on the implementation ----
        depth = peel_depths(wvs)
        selset = set(sel_uid)
        if len(res) != min(k, n):
            run.oracle_violation("selNSGA2 returned %d individuals, expected min(k, n) = %d" % (len(res), min(k, n)), case)
        if unknown:
            run.oracle_violation("a selected individual is not one of the input objects", case)
        if len(selset) != len(sel_uid):
            run.oracle_violation("an individual was selected twice", case)
        excluded = [j for j in range(n) if j not in selset]
        insel = [j for j in sel_uid if j < n]
        if insel and excluded and min(depth[j] for j in excluded) < max(depth[j] for j in insel):
            run.oracle_violation("an excluded individual belongs to a strictly better front than a selected one", case)
        partial = sorted(d for d in set(depth) if any(depth[j] == d for j in insel) and any(depth[j] == d for j in excluded))
        if len(partial) > 1:
            run.oracle_violation("more than one front taken partially", case, observed=partial)
        for d in partial[:1]:
            kept = [cd[j] for j in insel if depth[j] == d]
            dropped = [cd[j] for j in excluded if depth[j] == d]
            if any(x is None for x in kept + dropped):
                run.oracle_violation("individual of the cut front has no crowding_dist", case)
            elif min(kept) < max(dropped):
                run.oracle_violation("a dropped individual of the cut front has a larger crowding distance than a kept one", case)
        # crowding formula on every front that took part in the selection and whose values are distinct per objective
        maxd = max([depth[j] for j in insel], default=-1)
        for d in range(maxd + 1):
            members = [j for j in range(n) if depth[j] == d]
            fv = [obs_vals[j] for j in members]
            if not extremes_have_inf(fv, [cd[j] for j in members]):
                run.oracle_violation("an objective's extreme individuals of a front do not have infinite crowding distance", case,
                                     observed={"front_depth": d})
            if not distinct_per_objective(fv):
                continue
            stats["formula_checked_fronts"] += 1
            exp = formula_crowding(fv)
            for j, e in zip(members, exp):
                o = cd[j]
                ok = (o is not None) and ((o == INF) if e == INF else (math.isfinite(o) and abs(Fraction(o) - e) <= ftol * max(1, e)))
                if not ok:
                    run.oracle_violation("crowding distance differs from the formula (inf at extremes, else sum of neighbour gaps / (nobj*range))",
                                         case, observed={"uid": j, "got": repr(o), "expected": str(e)})
                    break
        # hypothesis of the theorems, checked independently as well: fronts = peeling layers cut at min(k, n)
        exp_fronts = []
        if k > 0:
            tot = 0
            for d in range(max(depth) + 1):
                layer = sorted(j for j in range(n) if depth[j] == d)
                exp_fronts.append(layer)
                tot += len(layer)
                if tot >= min(k, n):
                    break
        if [sorted(f) for f in fronts_uid] != exp_fronts:
            run.oracle_violation("the sorting back-end did not return the dominance-depth fronts cut at the first prefix reaching k",
                                 case, observed=fronts_uid)
        # ---- coverage ----
        cut_inside = bool(partial)
        finite_cd = any(x not in (None, INF, 0.0) for x in cd)
        stats["cut_inside"] += cut_inside
        stats["with_duplicates"] += len(set(wvs)) < n
        run.note_case(case, cut_inside or finite_cd, sample=case if stats["sel_calls"] % 501 == 7 else None)
        if not emit:
            stats["oracle_only_calls"] += 1
            return res
        # ---- correspondence terms ----
        img = rank_image(pop)
        fu = clist([cnatl(f) for f in fronts_uid])
        stale = any(x is not None for x in pre_cd)
        popf = clist(["(%s, %s)" % (czl(img[j]), cfl(obs_vals[j])) for j in range(n)])
        # every selNSGA2 call goes through the hand model; every second one (float instance) and every call on objects
        # that carry attributes from earlier calls (both instances) also through the regenerated definitions
        use_gen = stale or stats["sel_calls"] % 2 == 0
        add("CSelF %s %s %s %s %s %s %s" % (cbool(nd == "standard"), cnat(k), popf, fu, cnatl(sel_uid),
                                            clist([copt(x, cfloat) for x in pre_cd]) if stale else "[]",
                                            clist([copt(x, cfloat) for x in cd])), case, gen=use_gen)
        exact = all(float_exact_ok([obs_vals[j] for j in f if j < n]) for f in fronts_uid)
        stats["exact_q"] += exact
        popq = clist(["(%s, %s)" % (czl(img[j]), cql(obs_vals[j])) for j in range(n)])
        add("CSelQ %s %s %s %s %s %s %s %s" % (cbool(exact), cbool(nd == "standard"), cnat(k), popq, fu, cnatl(sel_uid),
                                            clist([copt(None if x is None else float(x), cqinf) for x in pre_cd]) if stale else "[]",
                                            clist([copt(x, cqinf) for x in cd])), case, gen=use_gen and stale)
        return res

    # ------------------------------------------------------------------------
    def full_case(w, vals, k, nd):
        """Calls outside the preconditions of the C05_full_ theorems (another `nd`, empty population): the end-to-end
        model sel_nsga2_full must raise exactly when the implementation raises, and select the same otherwise.
        Model tie only (the property statement says nothing about these calls)."""
        pop = build(w, vals)
        pos = {id(ind): j for j, ind in enumerate(pop)}
        status, res = guarded(tools.selNSGA2, pop, k, nd)
        case = {"kind": "full", "weights": list(w), "values": [list(v) for v in vals], "k": k, "nd": repr(nd)}
        stats["full_only_calls"] = stats.get("full_only_calls", 0) + 1
        if status == "ok":
            obs = [pos.get(id(x), len(pop)) for x in res]
            case["observed"] = obs
        else:
            obs = None
            case["observed"] = "raised %s" % (res,)
        run.note_case(case, True)
        img = rank_image(pop)
        popq = clist(["(%s, %s)" % (czl(img[j]), cql([float(x) for x in pop[j].fitness.values])) for j in range(len(pop))])
        ndn = {"standard": 0, "log": 1}.get(nd, 2) if isinstance(nd, str) else 2
        add("CFullQ %s %s %s %s" % (cnat(ndn), cnat(k), popq, copt(obs, cnatl)), case)

    for nd_ in ("standard", "log", "Standard", "", "fast", None, 0):
        for k_ in (0, 1, 3):
            full_case([1, -1], [], k_, nd_)                      # empty population
            if nd_ not in ("standard", "log"):
                full_case([1, -1], [(0, 2), (1, 1), (2, 0), (0, 0)], k_, nd_)
    for _ in range(run.scale(6, 40)):                            # valid calls through the same term
        n_ = rng.randint(1, 8)
        vals_ = [[rng.randint(0, 3), rng.randint(0, 3)] for _ in range(n_)]
        full_case([rng.choice([1, -1]), rng.choice([1, -1])], vals_, rng.randint(0, n_ + 2), rng.choice(["standard", "log"]))

    ROUTES = ["positional", "positional", "keyword", "emo", "toolbox", "default"]

    def sel_case(w, vals, k, nd, vtype="float", container="list", route=None):
        if route is None:
            route = rng.choice(ROUTES)
        stats["vtypes"][vtype] = stats["vtypes"].get(vtype, 0) + 1
        stats["containers"][container] = stats["containers"].get(container, 0) + 1
        pop = build(w, vals, vtype, container)
        case = {"weights": list(w), "values": [list(v) for v in vals], "value_type": vtype, "container": container}
        return sel_call(pop, case, k, nd, route, tol=(1e-5 if vtype == "f32" else None), emit=(vtype != "f32"))

    # ------------------------------------------------------------------------
    def crowd_case(w, vals):
        pop = build(w, vals)
        status, res = guarded(emo.assignCrowdingDist, pop)
        case = {"kind": "crowd", "weights": list(w), "values": [list(v) for v in vals]}
        stats["crowd_calls"] += 1
        if status != "ok":
            run.note_case(case, True)
            run.oracle_violation("assignCrowdingDist raised %s" % res, case)
            return
        cd = [getattr(ind.fitness, "crowding_dist", None) for ind in pop]
        case["observed"] = [repr(x) for x in cd]
        obs_vals = [tuple(ind.fitness.values) for ind in pop]
        if any(x is None for x in cd):
            run.note_case(case, True)
            run.oracle_violation("assignCrowdingDist left an individual without crowding_dist", case)
            return
        if pop and not extremes_have_inf(obs_vals, cd):
            run.oracle_violation("an objective's extreme individuals do not have infinite crowding distance", case)
        if pop and distinct_per_objective(obs_vals):
            exp = formula_crowding(obs_vals)
            for j, (o, e) in enumerate(zip(cd, exp)):
                ok = (o == INF) if e == INF else (math.isfinite(o) and abs(Fraction(o) - e) <= Fraction(1, 10 ** 12) * max(1, e))
                if not ok:
                    run.oracle_violation("crowding distance differs from the formula (inf at extremes, else sum of neighbour gaps / (nobj*range))",
                                         case, observed={"index": j, "got": repr(o), "expected": str(e)})
                    break
        run.note_case(case, any(x not in (INF, 0.0) for x in cd))
        add("CCrowdF %s %s" % (clist([cfl(v) for v in obs_vals]), cfl(cd)), case)
        exact = float_exact_ok(obs_vals)
        add("CCrowdQ %s %s %s" % (cbool(exact), clist([cql(v) for v in obs_vals]), clist([cqinf(x) for x in cd])), case)

    # ------------------------------------------------------------------------
    # corpus: past misses, run first (every k, both back-ends)
    for path in sorted(glob.glob(os.path.join(vlib.VERIF, "corpus", "C05*.json"))):
        for c in json.load(open(path)).get("cases", []):
            for k in range(0, len(c["values"]) + 3):
                for nd in ("standard", "log"):
                    sel_case(c["weights"], c["values"], k, nd)
            crowd_case(c["weights"], c["values"])
            stats["corpus_cases"] = stats.get("corpus_cases", 0) + 1

    # ------------------------------------------------------------------------
    # objectives on a large offset relative to their spread (or on a tiny scale around 0): a single front of
    # 4..8 individuals with pairwise distinct values, every k, both back-ends.  Catches tolerance-based range
    # tests / cancellation-sensitive rewrites of the crowding computation.
    def offset_column(n):
        kind = rng.choice(["big", "big", "big", "tiny", "plain"])
        if kind == "big":
            off = rng.choice([1, -1]) * rng.choice([1e3, 1e4, 1e5, 1e6, 1e7, 1e8, 1e9, 12345.678, 2.0 ** 30])
            spread = rng.choice([1e-3, 1e-2, 0.1, 0.5, 1.0])
        elif kind == "tiny":
            off, spread = 0.0, rng.choice([1e-9, 1e-10, 3e-9])
        else:
            off, spread = rng.choice([0.0, 1.0, -5.0]), rng.choice([1.0, 10.0, 100.0])
        us = sorted(rng.sample(range(0, 1001), n))
        return [off + spread * (u / 1000.0) for u in us]

    def offset_front(n, nobj, colgen=None):
        colgen = colgen or offset_column
        w = [rng.choice([1, -1]) * rng.choice([1, 1, 2, 0.5]) for _ in range(nobj)]
        cols = [colgen(n) for _ in range(nobj)]
        # weighted objective 0 ascending, weighted objective 1 descending: all mutually non-dominated
        if w[0] < 0:
            cols[0].reverse()
        if w[1] > 0:
            cols[1].reverse()
        for i in range(2, nobj):
            rng.shuffle(cols[i])
        vals = [[cols[i][j] for i in range(nobj)] for j in range(n)]
        rng.shuffle(vals)
        return w, vals

    n_off = 0
    while n_off < run.scale(36, 400):
        n = rng.randint(4, 8)
        nobj = rng.choice([2, 2, 3, 4])
        w, vals = offset_front(n, nobj)
        if not distinct_per_objective([tuple(float(x) for x in v) for v in vals]):
            continue
        n_off += 1
        all_k_nd_later.append((w, vals))

    # ------------------------------------------------------------------------
    # exhaustive small scopes
    def all_k_nd(w, vals):
        for k in range(0, len(vals) + 3):
            for nd in ("standard", "log"):
                sel_case(w, vals, k, nd)

    for w_, vals_ in all_k_nd_later:
        all_k_nd(w_, vals_)
    stats["offset_fronts"] = len(all_k_nd_later)

    grid2 = list(itertools.product([0, 1, 2], repeat=2))
    grid3 = list(itertools.product([0, 1], repeat=3))
    signs2 = list(itertools.product([1, -1], repeat=2))
    signs3 = list(itertools.product([1, -1], repeat=3))
    if run.thorough:
        for n in (1, 2, 3):
            for vals in itertools.product(grid2, repeat=n):
                for w in (signs2 if n < 3 else rng.sample(signs2, 2)):
                    all_k_nd(w, vals)
        for vals in itertools.combinations_with_replacement(grid2, 4):
            vals = list(vals)
            rng.shuffle(vals)
            all_k_nd(rng.choice(signs2), vals)
        for n in (1, 2, 3):
            for vals in itertools.product(grid3, repeat=n):
                all_k_nd(rng.choice(signs3), vals)
    else:
        for n in (1, 2):
            for vals in itertools.product(grid2, repeat=n):
                for w in (signs2 if n == 1 else [rng.choice(signs2)]):
                    all_k_nd(w, vals)
        # n = 3: every multiset once (random order, random signs), every k, both back-ends
        for vals in itertools.combinations_with_replacement(grid2, 3):
            vals = list(vals)
            rng.shuffle(vals)
            all_k_nd(rng.choice(signs2), vals)
        for vals in itertools.combinations_with_replacement(grid3, 2):
            all_k_nd(rng.choice(signs3), list(vals))

    # ------------------------------------------------------------------------
    # random populations
    def rand_weights(nobj):
        return [rng.choice([1, -1]) * rng.choice([1, 1, 1, 2, 0.5, 3, 0.1]) for _ in range(nobj)]

    def rand_values(n, nobj):
        fam = rng.choice(["grid", "grid", "dyadic", "pow2", "pow2", "double", "perm", "perm", "anti", "offset"])
        if fam == "anti" and nobj < 2:
            fam = "perm"
        if fam == "grid":
            g = rng.choice([1, 2, 3, 4, 8])
            vals = [[rng.randint(0, g) for _ in range(nobj)] for _ in range(n)]
        elif fam == "dyadic":
            vals = [[rng.randint(-40, 40) / 8.0 for _ in range(nobj)] for _ in range(n)]
        elif fam == "pow2":
            s = rng.choice([1, 2, 0.5, 4])
            vals = [[rng.choice([0, s, 2 * s]) for _ in range(nobj)] for _ in range(n)]
        elif fam == "double":
            sc = rng.choice([1.0, 10.0, 1e-3, 1e6])
            vals = [[rng.random() * sc for _ in range(nobj)] for _ in range(n)]
        elif fam == "offset":
            # multi-front populations whose objectives sit on large offsets / tiny scales
            cols = []
            for _ in range(nobj):
                c = offset_column(n) if n <= 1001 else [float(x) for x in range(n)]
                rng.shuffle(c)
                cols.append(c)
            vals = [[cols[i][j] for i in range(nobj)] for j in range(n)]
        elif fam == "perm":
            # pairwise distinct per objective; a few fronts
            cols = []
            for _ in range(nobj):
                c = list(range(n))
                rng.shuffle(c)
                cols.append([x * rng.choice([1, 1, 3]) + 0 for x in c] if rng.random() < 0.5 else
                            sorted(rng.sample(range(4 * n + 4), n), key=lambda _x: rng.random()))
            vals = [[cols[i][j] for i in range(nobj)] for j in range(n)]
        else:
            # one big front: anti-correlated first two objectives, distinct values
            xs = rng.sample(range(3 * n + 3), n)
            vals = [[x, -x if rng.random() < 0.9 else -x + 1] + [rng.randint(0, 2) for _ in range(nobj - 2)] for x in xs]
        if n > 1 and rng.random() < 0.35:
            for _ in range(rng.randint(1, max(1, n // 3))):
                vals[rng.randrange(n)] = list(vals[rng.randrange(n)])
        return vals

    for _ in range(run.scale(200, 3000)):
        n = rng.choice([1, 2, 3, 4, 5, 6, 8, 10, 12, 16, 20, 30]) if rng.random() < 0.7 else rng.randint(1, 30)
        nobj = rng.choice([2, 2, 3, 4])
        vals = rand_values(n, nobj)
        w = rand_weights(nobj) if rng.random() < 0.7 else [rng.choice([1, -1]) for _ in range(nobj)]
        ks = {rng.randint(0, n + 2), rng.randint(0, n + 2), rng.choice([0, 1, n // 2, n - 1, n, n + 1, n + 2])}
        # how the values reach DEAP and what kind of object an individual is must not matter
        r = rng.random()
        integral = all(float(x) == int(x) for v in vals for x in v)
        vtype = "float" if r < 0.72 else "np64" if r < 0.86 else ("int" if integral else "np64") if r < 0.96 else "f32"
        container = rng.choice(["list", "list", "list", "ndarray", "array", "object"])
        for k in sorted(x for x in ks if x >= 0):
            for nd in ("standard", "log"):
                sel_case(w, vals, k, nd, vtype, container)

    # ------------------------------------------------------------------------
    # value domains: signed zeros and subnormals, near-ties a few ulps apart, integers beyond 2**53
    def ulp_column(n):
        b = rng.choice([1.0, 1000.0, 1e-3, -7.5, 2.0 ** 40, -1e9])
        return [b + m * math.ulp(b) for m in sorted(rng.sample(range(0, 48), n))]

    for _ in range(run.scale(8, 80)):
        n = rng.randint(4, 8)
        w, vals = offset_front(n, rng.choice([2, 3]), ulp_column)
        if distinct_per_objective([tuple(v) for v in vals]):
            all_k_nd(w, vals)

    def subnormal_column(n):
        # a whole objective inside the subnormal range: its range is positive but below the smallest normal double
        sgn = rng.choice([1.0, -1.0])
        return [sgn * m * 5e-324 for m in sorted(rng.sample(range(0, 64), n))]

    for _ in range(run.scale(8, 80)):
        n = rng.randint(4, 8)
        nobj = rng.choice([2, 3])
        mixed = rng.random() < 0.5          # one subnormal objective next to ordinary ones, or all subnormal
        cols = [0] if mixed else list(range(nobj))
        w, vals = offset_front(n, nobj, lambda m: subnormal_column(m))
        if mixed:
            w2, vals2 = offset_front(n, nobj)
            key0 = sorted(range(n), key=lambda j: vals[j][0])
            key1 = sorted(range(n), key=lambda j: vals2[j][1])
            for a, b in zip(key0, key1):            # keep the anti-chain shape: objective 1 from the ordinary front
                for i in range(1, nobj):
                    vals[a][i] = vals2[b][i]
            w = [w[0]] + list(w2[1:])
        w = [x if abs(x) != 0.5 else (1 if x > 0 else -1) for x in w]      # keep subnormal values exact under the weights
        if distinct_per_objective([tuple(v) for v in vals]):
            stats["subnormal_range_fronts"] = stats.get("subnormal_range_fronts", 0) + 1
            all_k_nd(w, vals)
    for _ in range(run.scale(8, 80)):
        n = rng.randint(1, 8)
        nobj = rng.choice([2, 3])
        vals = [[rng.choice([0.0, -0.0, 0.0, 1.0, -1.0, 5e-324, -5e-324, 2.5]) for _ in range(nobj)] for _ in range(n)]
        all_k_nd([rng.choice([1, -1]) for _ in range(nobj)], vals)
    for _ in range(run.scale(6, 60)):
        n = rng.randint(2, 7)
        nobj = rng.choice([2, 3])
        vals = [[2 ** 53 + rng.randint(0, 6) for _ in range(nobj)] for _ in range(n)]
        w = [rng.choice([1, -1]) for _ in range(nobj)]
        for k in range(0, n + 3):
            for nd in ("standard", "log"):
                sel_case(w, vals, k, nd, "int")

    # ------------------------------------------------------------------------
    # state carried by the objects between calls: generations of an NSGA-II loop re-using the same individuals
    # (survivors keep the crowding_dist written by earlier calls, clones inherit it, values are re-assigned with
    # and without `del`), the same list passed to successive calls with another k / the other back-end, two
    # populations sharing individuals.  Every call is judged on its own.
    def current_case(pop, w, t):
        return {"weights": list(w), "values": [[float(x) for x in ind.fitness.values] for ind in pop], "sequence_step": t}

    for _ in range(run.scale(40, 400)):
        nobj = rng.choice([2, 2, 3])
        w = rand_weights(nobj) if rng.random() < 0.5 else [rng.choice([1, -1]) for _ in range(nobj)]
        pop = build(w, rand_values(rng.randint(3, 10), nobj))
        for t in range(rng.randint(2, 4)):
            n = len(pop)
            k = rng.choice([n // 2, n // 2, rng.randint(0, n + 2), n, 1])
            nd = rng.choice(["standard", "log"])
            res = sel_call(pop, current_case(pop, w, t), k, nd, rng.choice(ROUTES))
            if res is None:
                break
            if rng.random() < 0.6:      # the very same list again: other k, other back-end
                sel_call(pop, current_case(pop, w, t), rng.randint(0, n + 2), "log" if nd == "standard" else "standard",
                         rng.choice(ROUTES))
            survivors = list(res) if len(res) >= 2 else list(pop[:2])
            offspring = []
            rows = rand_values(len(survivors) + 3, nobj)
            for row in rows[:rng.randint(1, len(rows))]:
                c = copy.deepcopy(rng.choice(survivors))
                r = rng.random()
                if r < 0.5:
                    del c.fitness.values
                    c.fitness.values = tuple(float(x) for x in row)
                elif r < 0.75:
                    c.fitness.values = tuple(float(x) for x in row)     # re-assigned without del
                offspring.append(c)                                      # else: an equal-fitness clone
            pop = survivors + offspring + build(w, rand_values(rng.randint(1, 3), nobj))
            if rng.random() < 0.5:
                rng.shuffle(pop)
            if len(pop) > 30:
                pop = pop[:30]

    # ------------------------------------------------------------------------
    # direct assignCrowdingDist calls (any list, not only a front)
    crowd_case([1, 1], [])
    for n in (1, 2, 3):
        for vals in itertools.combinations_with_replacement([(0, 0), (0, 1), (1, 0), (2, 1), (1, 2)], n):
            vals = list(vals)
            rng.shuffle(vals)
            crowd_case([1, -1], vals)
    for _ in range(run.scale(150, 2500)):
        n = rng.randint(0, 10)
        nobj = rng.choice([1, 2, 3, 4])
        vals = rand_values(n, nobj) if n else []
        crowd_case(rand_weights(nobj), vals)

    run.extra_cov["c05_stats"] = stats
    timing = {"generation_s": round(_t.time() - t_gen0, 1)}
    run.extra_cov["c05_timing"] = timing
    props_th.join()
    tie_th.join()
    timing["tie_join_wait_s"] = round(_t.time() - t_gen0 - timing["generation_s"], 1)
    if "error" in tie_box:
        raise tie_box["error"]
    gen_check = tie_box["check"]
    # the model and (when they are provably the model) the regenerated definitions are evaluated on every case
    reqs = ["From DV Require Import Gen.C05_gen."] if gen_check != "check" else []
    n_dis = len(run.disagreements)
    import time as _time
    t_corr = _time.time()
    # shards of similar cost: the generators emit families of very different size one after the other
    order = list(range(len(terms)))
    rng.shuffle(order)
    terms, cases, with_gen = [terms[i] for i in order], [cases[i] for i in order], [with_gen[i] for i in order]
    if gen_check == "check_both":
        # one pass; per term: the hand model, or the hand model and the regenerated definitions
        run.extra_cov["terms_also_through_regenerated_definitions"] = sum(1 for g in with_gen if g)
        correspond_robust(run, ["(%s, %s)" % (cbool(g), x) for g, x in zip(with_gen, terms)], cases, shard=run.scale(380, 400),
                          check="(fun p : bool * case => if fst p then check_both (snd p) else check (snd p))", requires=reqs)
    else:
        correspond_robust(run, terms, cases, shard=run.scale(380, 400))
    timing["correspondence_s"] = round(_time.time() - t_corr, 1)
    new_dis = [d for d in run.disagreements[n_dis:] if d.get("index") is not None]
    if gen_check == "check_both" and new_dis:
        # which of the two disagrees with the implementation?
        traces = run.traces
        try:
            sub_t = [d["term"] for d in new_dis if len(d["term"]) < 3990][:200]
            bad_model = run.correspond("diagnosis_model", "C05", sub_t, None, check="(fun p : bool * case => check (snd p))")
            bad_gen = run.correspond("diagnosis_regenerated", "C05", sub_t, None, check="(fun p : bool * case => check_gen (snd p))", requires=reqs)
            run.notes.append("diagnosis: of %d disagreeing cases the hand model disagrees on %d, the regenerated definitions on %d"
                             % (len(sub_t), len(bad_model), len(bad_gen)))
        except Exception as e:  # noqa
            run.notes.append("diagnosis step failed: %r" % (e,))
        run.traces = traces
        for g in ("diagnosis_model", "diagnosis_regenerated"):
            run.corr_groups.pop(g, None)
        run.disagreements = [d for d in run.disagreements if d.get("group") not in ("diagnosis_model", "diagnosis_regenerated")]
    elif gen_check == "check" and run.extra_cov.get("regenerated_functions") and "no longer" in str(run.extra_cov.get("tie")):
        # translated but not provably the model: do the regenerated definitions at least agree with the implementation?
        traces = run.traces
        try:
            rc, out = vlib.coqc_file(GEN, cwd=vlib.COQ)
            if rc == 0:
                bad_gen = run.correspond("diagnosis_regenerated", "C05", terms, cases, check="check_gen",
                                         requires=["From DV Require Import Gen.C05_gen."], shard=run.scale(150, 400))
                g = run.corr_groups.pop("diagnosis_regenerated", {})
                run.disagreements = [d for d in run.disagreements if d.get("group") != "diagnosis_regenerated"]
                run.notes.append("diagnosis: the regenerated definitions (not provably the model) disagree with the "
                                 "implementation on %d of %d cases (errors: %s)" % (len(bad_gen), len(terms), g.get("errors")))
            else:
                run.notes.append("diagnosis: the regenerated definitions do not compile: " + out[-400:])
        except Exception as e:  # noqa
            run.notes.append("diagnosis step failed: %r" % (e,))
        run.traces = traces

    # only runs when an obligation or the correspondence broke and the oracle has no failing input yet:
    # more oracle-only random calls (the terms they append are not evaluated)
    def search(run_):
        import time
        t_end = time.time() + run_.scale(45, 300)
        rounds = 0
        while time.time() < t_end and not run_.oracle_viol:
            rounds += 1
            # a regenerated definition that is no longer the model may differ from it only beyond the sizes the regular
            # generators reach (a threshold on the number of objectives, the population size, k): every other round is wide
            wide = rounds % 2 == 0
            n = rng.randint(31, 70) if wide and rng.random() < 0.5 else rng.randint(1, 30)
            nobj = rng.randint(5, 9) if wide else rng.choice([2, 3, 4])
            vals = rand_values(n, nobj)
            w = rand_weights(nobj)
            ks = range(0, n + 3) if not wide else sorted({0, 1, n // 3, n // 2, n - 1, n, n + 2, rng.randint(0, n)})
            for k in ks:
                for nd in ("standard", "log"):
                    sel_case(w, vals, k, nd)
            crowd_case(w, vals[:rng.randint(0, n)])
    run.search_fn = search
