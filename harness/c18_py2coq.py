"""Fail-closed translator: methods of Logbook, Statistics, MultiStatistics (deap/tools/support.py) -> Gallina.

Tie (T) of property C18 (DESIGN.md 2.3).  The working-tree source is parsed with Python's `ast`; the body of every
method of the table FUNCS is compiled, statement by statement, into the state-and-exception monad
`M S X = S -> S * res X` of coq/Model/C18_GenRt.v over the object's state (lb / stats / mstats) and written to
coq/Gen/C18_gen.v (never committed).  coq/Proofs/C18_gen_equiv.v proves that the regenerated methods are the hand
model coq/Model/C18_Logbook.v; coq/Props/C18_gen.v restates C18 theorems on them.  A construct outside the grammar
makes the translator REFUSE that method (class Refuse): its definition is then the hand model's form of the method
(a placeholder, reported as such), so that the committed equivalence file always builds and the other methods keep
the regenerated tie.

Grammar (everything else is refused)
  methods      plain `def` (only `@property` on Logbook.stream), parameters exactly as in the signature table
  statements   docstring | x = e | a, b = e1, e2 (targets: locals, self.buffindex) | x += e | x -= e | self.buffindex op= e
               | d[k] = e (d a local dict) | del d[k] | d.update(e) | l.append(e) (l a local list) | self.append(d)
               | self.pop(e) | self.chapters[k].record(**d) | self.functions[k] = e | self.fields.append(e)
               | if/elif/else (a branch may end in return only if the statement then is the last of its block or the
                 whole branch returns) | isinstance(x, dict) / isinstance(key, slice) as the test of an if (narrowing)
               | for x in <list> | for k, v in list(<dict>.items()) | for k, v in <dict>.items() (body must not change
                 that dict) | for k, f in self.functions.items() | for c in self.chapters.values()
               | for s in self.values() | for k, s in self.items()   (body of a loop over sub-objects: method calls on the
                 loop variable and assignments to locals only) | return e
               no while / break / continue / try / with / nested def / lambda / global
  expressions  int constants, None (as default of .get), names, self.buffindex, len(self), len(l), + - * on ints,
               == != < <= > >= on ints, not / and / or on bools, a if c else b (pure scalar branches),
               isinstance(v, dict), l[i] (IndexError modelled),
               entry.get(k[, None]) on a stored record, [e for x in <list | self>], tuple(e for x in <list>),
               {k: v for k, v in d.items() if c}, {ke: ve for k, v in d.items()}, {ke: ve for k, s in self.items()}
               (MultiStatistics; = the loop acc[ke] = ve), dict() / {}, d.copy(), d.items(),
               list(e), sorted(e, reverse=True), reversed(e), range(*key.indices(len(self))) (key narrowed to a slice),
               super(..).pop(i) / list.pop(self, i), self.pop(i), self.__str__(i), partial(function, *args, **kargs),
               f(values) for a local f bound to a registered function, self.key(e), s.compile(data)
Types          Z, bool, name, value, dict, item (a stored record), lists / tuples of these, dkey / slice, fn.
"""
import ast
import os

FILE = ("deap", "tools", "support.py")


class Refuse(Exception):
    def __init__(self, node, why):
        self.node = type(node).__name__ if not isinstance(node, str) else node
        self.line = getattr(node, "lineno", None)
        self.why = why
        Exception.__init__(self, "%s at line %s: %s" % (self.node, self.line, why))


def refuse(node, why):
    raise Refuse(node, why)


# ---- signature table (trusted) -------------------------------------------------------------------------
# key: (class, method, [(param, type)], vararg, kwarg, decorators, Coq header, result type, placeholder term)
FUNCS = {
    "record": ("Logbook", "record", [], None, "infos", (),
               "Definition gen_record_body (uid : nat) (self_record : dict -> M lb unit) (v_infos : dict) : M lb unit",
               "unit", "record_body uid self_record v_infos"),
    "select": ("Logbook", "select", [], "names", None, (),
               "Definition gen_select (v_names : list name) : M lb selres", "selres", "select_model v_names"),
    "pop": ("Logbook", "pop", [("index", "Z")], None, None, (),
            "Definition gen_pop_body (self_pop : Z -> M lb item) (v_index : Z) : M lb item", "item",
            "pop_body self_pop v_index"),
    "delitem": ("Logbook", "__delitem__", [("key", "dkey")], None, None, (),
                "Definition gen_delitem (v_key : dkey) : M lb unit", "unit", "delitem_model v_key"),
    "stream": ("Logbook", "stream", [], None, None, ("property",),
               "Definition gen_stream : M lb (list nat * bool)", "text", "stream_model"),
    "st_register": ("Statistics", "register", [("name", "name"), ("function", "fn0")], "args", "kargs", (),
                    "Definition gen_st_register {A B C Args : Type} (v_name : name) (v_function : Args -> list B -> C) "
                    "(v_args : Args) : M (stats A B C) unit", "unit", "st_register_model v_name v_function v_args"),
    "st_compile": ("Statistics", "compile", [("data", "list obj")], None, None, (),
                   "Definition gen_st_compile {A B C : Type} (v_data : list A) : M (stats A B C) (list (name * C))",
                   "dict", "st_compile_model v_data"),
    "ms_compile": ("MultiStatistics", "compile", [("data", "list obj")], None, None, (),
                   "Definition gen_ms_compile {A B C : Type} (v_data : list A) : M (mstats A B C) "
                   "(list (name * list (name * C)))", "dict", "ms_compile_model v_data"),
    "ms_register": ("MultiStatistics", "register", [("name", "name"), ("function", "fn0")], "args", "kargs", (),
                    "Definition gen_ms_register {A B C Args : Type} (v_name : name) (v_function : Args -> list B -> C) "
                    "(v_args : Args) : M (mstats A B C) unit", "unit", "ms_register_model v_name v_function v_args"),
}
ORDER = ["record", "select", "pop", "delitem", "stream", "st_register", "st_compile", "ms_compile", "ms_register"]
POP_DEFAULT = 0            # `def pop(self, index=0)`: the model's OPop None is pop(0)
BUILTINS = ("len", "isinstance", "dict", "list", "tuple", "sorted", "reversed", "range", "slice", "super", "partial",
            "property", "defaultdict", "object")
# what the classes may define besides the translated methods: anything else that could change the meaning of
# len(self) / iteration / self.append / attribute access / the dict protocol makes the translator refuse the class
MEMBERS = {"Logbook": ("__init__", "record", "select", "stream", "__delitem__", "pop", "__txt__", "__str__"),
           "Statistics": ("__init__", "register", "compile"),
           "MultiStatistics": ("compile", "fields", "register")}
INITS = {
    "Logbook": ("self", [], ["self.buffindex = 0", "self.chapters = defaultdict(Logbook)", "self.columns_len = None",
                             "self.header = None", "self.log_header = True"]),
    "Statistics": ("self, key=identity", ["identity"], ["self.key = key", "self.functions = dict()", "self.fields = []"]),
}


def is_list(t):
    return t.startswith("list ") or t.startswith("tuple ")


def elem(t):
    return t.split(" ", 1)[1]


def cn(name):
    return "v_" + name


def zlit(v):
    return "%d" % v if v >= 0 else "(%d)" % v


def is_self(e):
    return isinstance(e, ast.Name) and e.id == "self"


def self_attr(e):
    if isinstance(e, ast.Attribute) and is_self(e.value):
        return e.attr
    return None


def is_call(e, fname, nargs=None):
    return isinstance(e, ast.Call) and isinstance(e.func, ast.Name) and e.func.id == fname and not e.keywords \
        and (nargs is None or len(e.args) == nargs) and not any(isinstance(a, ast.Starred) for a in e.args)


def is_method(e, meth, nargs=None):
    return isinstance(e, ast.Call) and isinstance(e.func, ast.Attribute) and e.func.attr == meth and not e.keywords \
        and (nargs is None or len(e.args) == nargs) and not any(isinstance(a, ast.Starred) for a in e.args)


def assigned(stmts):
    """locals a block may rebind or change in place, in order of first occurrence"""
    found = []
    for s in stmts:
        for n in ast.walk(s):
            x = None
            if isinstance(n, ast.Name) and isinstance(n.ctx, (ast.Store, ast.Del)):
                x = n
            elif isinstance(n, ast.Subscript) and isinstance(n.ctx, (ast.Store, ast.Del)) and isinstance(n.value, ast.Name):
                x = n.value
            elif isinstance(n, ast.Call) and isinstance(n.func, ast.Attribute) and isinstance(n.func.value, ast.Name) \
                    and n.func.attr in ("update", "append", "pop", "clear", "extend", "insert", "remove", "reverse", "sort",
                                        "setdefault", "popitem"):
                x = n.func.value
            if x is not None and x.id != "self":
                found.append((x.lineno, x.col_offset, x.id))
    out = []
    for _, _, x in sorted(found):
        if x not in out:
            out.append(x)
    return out


def touches_self(stmts):
    """may the code change the object (or anything reachable from self)?  Used for loops over self / views of its
    attributes: the regenerated loop iterates a snapshot, which is only right when the body leaves the object alone."""
    for s in stmts:
        for n in ast.walk(s):
            if isinstance(n, ast.Call):
                for w in ast.walk(n.func):
                    if isinstance(w, ast.Name) and w.id in ("self", "super", "list", "dict", "setattr", "delattr"):
                        return True
            if isinstance(n, (ast.Attribute, ast.Subscript)) and isinstance(n.ctx, (ast.Store, ast.Del)):
                for w in ast.walk(n):
                    if isinstance(w, ast.Name) and w.id == "self":
                        return True
    return False


def always_returns(stmts):
    if not stmts:
        return False
    s = stmts[-1]
    if isinstance(s, ast.Return):
        return True
    if isinstance(s, ast.If):
        return always_returns(s.body) and always_returns(s.orelse)
    return False


def pat(names):
    if not names:
        return "_"
    if len(names) == 1:
        return cn(names[0])
    return "'(%s)" % ", ".join(cn(x) for x in names)


def tup(names):
    if not names:
        return "tt"
    if len(names) == 1:
        return cn(names[0])
    return "(%s)" % ", ".join(cn(x) for x in names)


class FnTr(object):
    def __init__(self, key, cls, rettype, available):
        self.key, self.cls, self.rettype, self.available = key, cls, rettype, available
        self.counter = 0
        self.sub = None            # (loop variable, class of the sub-object) inside a loop over sub-objects

    def temp(self):
        self.counter += 1
        return "t%d" % self.counter

    @staticmethod
    def emit(binds):
        return "".join("bind (%s) (fun %s => " % (m, x) for x, m in binds), ")" * len(binds)

    def wrap(self, binds, body):
        a, b = self.emit(binds)
        return a + body + b

    # ---- expressions: (text, type); monadic reads / effects are appended to binds in evaluation order ----
    def expr(self, e, env, binds):
        if isinstance(e, ast.Constant):
            if isinstance(e.value, bool):
                return ("true" if e.value else "false"), "bool"
            if isinstance(e.value, int):
                return zlit(e.value), "Z"
            refuse(e, "constant %r" % (e.value,))
        if isinstance(e, ast.Name):
            if e.id in env:
                return cn(e.id), env[e.id]
            refuse(e, "unknown name %s (or a local that is not bound on every path)" % e.id)
        if isinstance(e, ast.Attribute):
            return self.attribute(e, env, binds)
        if isinstance(e, ast.UnaryOp):
            if isinstance(e.op, ast.Not):
                v, t = self.expr(e.operand, env, binds)
                if t != "bool":
                    refuse(e, "not of %s" % t)
                return "(negb %s)" % v, "bool"
            if isinstance(e.op, ast.USub):
                v, t = self.expr(e.operand, env, binds)
                if t != "Z":
                    refuse(e, "unary minus of %s" % t)
                return "(- %s)" % v, "Z"
            refuse(e, "unary operator")
        if isinstance(e, ast.BinOp):
            a, ta = self.expr(e.left, env, binds)
            b, tb = self.expr(e.right, env, binds)
            ops = {ast.Add: "+", ast.Sub: "-", ast.Mult: "*"}
            if ta != "Z" or tb != "Z" or type(e.op) not in ops:
                refuse(e, "operator %s on %s, %s" % (type(e.op).__name__, ta, tb))
            return "(%s %s %s)" % (a, ops[type(e.op)], b), "Z"
        if isinstance(e, ast.Compare):
            if len(e.ops) != 1:
                refuse(e, "comparison chain")
            a, ta = self.expr(e.left, env, binds)
            b, tb = self.expr(e.comparators[0], env, binds)
            tbl = {ast.Eq: "(%s =? %s)", ast.NotEq: "(negb (%s =? %s))", ast.Lt: "(%s <? %s)", ast.LtE: "(%s <=? %s)",
                   ast.Gt: "(%s >? %s)", ast.GtE: "(%s >=? %s)"}
            if ta != "Z" or tb != "Z" or type(e.ops[0]) not in tbl:
                refuse(e, "comparison %s of %s and %s" % (type(e.ops[0]).__name__, ta, tb))
            return tbl[type(e.ops[0])] % (a, b), "bool"
        if isinstance(e, ast.BoolOp):
            parts = []
            for x in e.values:
                n = len(binds)
                v, t = self.expr(x, env, binds)
                if t != "bool" or (parts and len(binds) != n):
                    refuse(x, "operand of and/or that is not a pure bool")
                parts.append(v)
            out = parts[-1]
            for v in reversed(parts[:-1]):
                out = "(%s %s %s)" % ("orb" if isinstance(e.op, ast.Or) else "andb", v, out)
            return out, "bool"
        if isinstance(e, ast.IfExp):
            c, tc = self.expr(e.test, env, binds)
            n = len(binds)
            a, ta = self.expr(e.body, env, binds)
            b, tb = self.expr(e.orelse, env, binds)
            if tc != "bool" or ta != tb or ta not in ("Z", "bool", "name") or len(binds) != n:
                refuse(e, "conditional expression whose branches are not pure values of one scalar type")
            return "(if %s then %s else %s)" % (c, a, b), ta
        if isinstance(e, ast.Subscript):
            if isinstance(e.slice, ast.Slice):
                refuse(e, "slice expression")
            v, t = self.expr(e.value, env, binds)
            i, ti = self.expr(e.slice, env, binds)
            if not is_list(t) or ti != "Z":
                refuse(e, "subscript %s[%s]" % (t, ti))
            x = self.temp()
            binds.append((x, "indexM %s %s" % (v, i)))
            return x, elem(t)
        if isinstance(e, (ast.ListComp, ast.GeneratorExp)):
            return self.comprehension(e, env, binds, "list")
        if isinstance(e, ast.DictComp):
            return self.dictcomp(e, env, binds)
        if isinstance(e, ast.Dict) and not e.keys:
            return "[]", "dict"
        if isinstance(e, ast.Call):
            return self.call(e, env, binds)
        refuse(e, "expression outside the grammar")

    def attribute(self, e, env, binds):
        a = self_attr(e)
        if a is not None and self.sub is not None:
            refuse(e, "self inside a loop over sub-objects")
        if a == "buffindex" and self.cls == "Logbook":
            x = self.temp()
            binds.append((x, "get_buffindex"))
            return x, "Z"
        refuse(e, "attribute .%s" % e.attr)

    def iterable(self, it, env, binds):
        """-> (text, element type, pattern maker)"""
        if is_self(it) and self.cls == "Logbook" and self.sub is None:
            x = self.temp()
            binds.append((x, "iter_self"))
            return x, "item"
        v, t = self.expr(it, env, binds)
        if not is_list(t):
            refuse(it, "iteration over %s" % t)
        return v, elem(t)

    def target(self, tg, et, env):
        """loop / comprehension target -> (pattern, new env)"""
        env = dict(env)
        if isinstance(tg, ast.Name):
            env[tg.id] = et
            return cn(tg.id), env
        if isinstance(tg, ast.Tuple) and len(tg.elts) == 2 and all(isinstance(x, ast.Name) for x in tg.elts) \
                and et.startswith("pair "):
            _, ta, tb = et.split(" ", 2)
            env[tg.elts[0].id] = ta
            env[tg.elts[1].id] = tb
            return "'(%s, %s)" % (cn(tg.elts[0].id), cn(tg.elts[1].id)), env
        refuse(tg, "loop target for elements of type %s" % et)

    READS = ("indexM ", "iter_self", "len_self", "get_buffindex", "get_key", "get_functions", "get_fields", "ret ", "mapM ")

    def only_reads(self, node, inner):
        """the element expression of a comprehension is evaluated once per element while the iteration is under way:
        it may read the object but must not change it (the regenerated loop iterates a snapshot)"""
        for _, m in inner:
            # (a nested mapM was itself checked when it was built)
            if not m.startswith(self.READS):
                refuse(node, "comprehension whose element expression has an effect (%s)" % m.split(" ")[0])

    def comprehension(self, e, env, binds, kind):
        if len(e.generators) != 1 or e.generators[0].ifs or e.generators[0].is_async:
            refuse(e, "comprehension with several clauses / a condition")
        g = e.generators[0]
        it, et = self.iterable(g.iter, env, binds)
        p, env2 = self.target(g.target, et, env)
        inner = []
        v, t = self.expr(e.elt, env2, inner)
        x = self.temp()
        if inner:
            self.only_reads(e, inner)
            binds.append((x, "mapM (fun %s => %s) %s" % (p, self.wrap(inner, "ret %s" % v), it)))
            return x, "%s %s" % (kind, t)
        return "(map (fun %s => %s) %s)" % (p, v, it), "%s %s" % (kind, t)

    def dictcomp(self, e, env, binds):
        if len(e.generators) != 1 or e.generators[0].is_async or len(e.generators[0].ifs) > 1:
            refuse(e, "dict comprehension with several clauses / conditions")
        g = e.generators[0]
        if self.cls == "MultiStatistics" and self.sub is None and is_method(g.iter, "items", 0) and is_self(g.iter.func.value) \
                and not g.ifs and isinstance(g.target, ast.Tuple) and len(g.target.elts) == 2 \
                and all(isinstance(x, ast.Name) for x in g.target.elts):
            # {ke: ve for k, s in self.items()}  =  acc = {}; for k, s in self.items(): acc[ke] = ve
            kn, var = g.target.elts[0].id, g.target.elts[1].id
            env2 = dict(env)
            env2[kn] = "name"
            env2.pop(var, None)
            self.sub = (var, "Statistics")
            try:
                inner = []
                k, tk = self.expr(e.key, env2, inner)
                v, tv = self.expr(e.value, env2, inner)
            finally:
                self.sub = None
            if tk != "name":
                refuse(e, "key of type %s" % tk)
            x = self.temp()
            binds.append((x, "for_items (fun %s acc => %s) []" % (cn(kn), self.wrap(inner, "ret (dict_set %s %s acc)" % (k, v)))))
            return x, "dict"
        it, et = self.iterable(g.iter, env, binds)
        if not et.startswith("pair name "):
            refuse(e, "dict comprehension over %s" % et)
        p, env2 = self.target(g.target, et, env)
        inner = []
        k, tk = self.expr(e.key, env2, inner)
        v, tv = self.expr(e.value, env2, inner)
        if tk != "name":
            refuse(e, "key of type %s" % tk)
        if g.ifs:
            c, tc = self.expr(g.ifs[0], env2, inner)
            if tc != "bool" or inner or not (isinstance(e.key, ast.Name) and isinstance(e.value, ast.Name)
                                             and isinstance(g.target, ast.Tuple)
                                             and [x.id for x in g.target.elts] == [e.key.id, e.value.id]):
                refuse(e, "conditional dict comprehension that is not a filter")
            return "(dict_filter (fun %s %s => %s) %s)" % (k, v, c, it), "dict"
        if inner:
            self.only_reads(e, inner)
            x = self.temp()
            binds.append((x, "mapM (fun %s => %s) %s" % (p, self.wrap(inner, "ret (%s, %s)" % (k, v)), it)))
            return "(dict_of %s)" % x, "dict"
        return "(dict_of (map (fun %s => (%s, %s)) %s))" % (p, k, v, it), "dict"

    def call(self, e, env, binds):
        f = e.func
        # ---- builtins ----
        if is_call(e, "len", 1):
            if is_self(e.args[0]) and self.cls == "Logbook" and self.sub is None:
                x = self.temp()
                binds.append((x, "len_self"))
                return x, "Z"
            v, t = self.expr(e.args[0], env, binds)
            if not is_list(t):
                refuse(e, "len of %s" % t)
            return "(zlen %s)" % v, "Z"
        if is_call(e, "isinstance", 2) and isinstance(e.args[1], ast.Name) and e.args[1].id == "dict":
            v, t = self.expr(e.args[0], env, binds)
            if t != "value":
                refuse(e, "isinstance(%s, dict)" % t)
            return "(is_dictb %s)" % v, "bool"
        if is_call(e, "dict", 0):
            return "[]", "dict"
        if is_call(e, "list", 1):
            v, t = self.expr(e.args[0], env, binds)
            if not is_list(t):
                refuse(e, "list(%s)" % t)
            return v, "list " + elem(t)
        if is_call(e, "tuple", 1):
            if isinstance(e.args[0], ast.GeneratorExp):
                return self.comprehension(e.args[0], env, binds, "tuple")
            v, t = self.expr(e.args[0], env, binds)
            if not is_list(t):
                refuse(e, "tuple(%s)" % t)
            return v, "tuple " + elem(t)
        if is_call(e, "reversed", 1):
            v, t = self.expr(e.args[0], env, binds)
            if not is_list(t):
                refuse(e, "reversed(%s)" % t)
            return "(rev %s)" % v, t
        if isinstance(f, ast.Name) and f.id == "sorted" and len(e.args) == 1 and len(e.keywords) == 1 \
                and e.keywords[0].arg == "reverse" and isinstance(e.keywords[0].value, ast.Constant) \
                and e.keywords[0].value.value is True:
            v, t = self.expr(e.args[0], env, binds)
            if t != "list Z":
                refuse(e, "sorted(%s)" % t)
            return "(sort_desc %s)" % v, t
        if isinstance(f, ast.Name) and f.id == "range" and len(e.args) == 1 and isinstance(e.args[0], ast.Starred) \
                and not e.keywords and is_method(e.args[0].value, "indices", 1):
            k = e.args[0].value.func.value
            if not (isinstance(k, ast.Name) and env.get(k.id) == "slice"):
                refuse(e, "range(*x.indices(..)) of something that is not known to be a slice")
            n, tn = self.expr(e.args[0].value.args[0], env, binds)
            if tn != "Z":
                refuse(e, "indices(%s)" % tn)
            x = self.temp()
            binds.append((x, "slice_range %s_start %s_stop %s_step %s" % (cn(k.id), cn(k.id), cn(k.id), n)))
            return x, "list Z"
        if isinstance(f, ast.Name) and f.id == "partial" and self.key in ("st_register",) and len(e.args) == 2 \
                and isinstance(e.args[0], ast.Name) and env.get(e.args[0].id) == "fn0" \
                and isinstance(e.args[1], ast.Starred) and isinstance(e.args[1].value, ast.Name) \
                and env.get(e.args[1].value.id) == "varargs" and len(e.keywords) == 1 and e.keywords[0].arg is None \
                and isinstance(e.keywords[0].value, ast.Name) and env.get(e.keywords[0].value.id) == "kwargs":
            return "(%s v_args)" % cn(e.args[0].id), "fn"
        if isinstance(f, ast.Name) and env.get(f.id) == "fn" and len(e.args) == 1 and not e.keywords \
                and not isinstance(e.args[0], ast.Starred):
            v, t = self.expr(e.args[0], env, binds)
            if t != "tuple keyed":
                refuse(e, "registered function applied to %s" % t)
            return "(%s %s)" % (cn(f.id), v), "result"
        # ---- methods ----
        if isinstance(f, ast.Attribute):
            return self.method_call(e, env, binds)
        refuse(e, "call outside the grammar")

    def super_pop(self, e):
        """super(..).pop(i) / list.pop(self, i) -> the index expression"""
        f = e.func
        if e.keywords or f.attr != "pop" or any(isinstance(a, ast.Starred) for a in e.args):
            return None
        if isinstance(f.value, ast.Call) and isinstance(f.value.func, ast.Name) and f.value.func.id == "super" \
                and not f.value.keywords and len(e.args) == 1:
            a = f.value.args
            if len(a) == 0:
                return e.args[0]
            if len(a) == 2 and is_self(a[1]):
                c = a[0]
                if isinstance(c, ast.Name) and c.id == "Logbook":
                    return e.args[0]
                if isinstance(c, ast.Attribute) and is_self(c.value) and c.attr == "__class__":
                    return e.args[0]
            return None
        if isinstance(f.value, ast.Name) and f.value.id == "list" and len(e.args) == 2 and is_self(e.args[0]):
            return e.args[1]
        return None

    def method_call(self, e, env, binds):
        f = e.func
        m = f.attr
        # a method of the sub-object a loop runs over
        if self.sub is not None and isinstance(f.value, ast.Name) and f.value.id == self.sub[0]:
            return self.own_method(e, self.sub[1], env, binds, True)
        if self.sub is not None and any(is_self(n) for n in ast.walk(e)):
            refuse(e, "self inside a loop over sub-objects")
        if self.cls == "Logbook":
            idx = self.super_pop(e)
            if idx is not None:
                i, ti = self.expr(idx, env, binds)
                if ti != "Z":
                    refuse(e, "list.pop(%s)" % ti)
                x = self.temp()
                binds.append((x, "super_pop %s" % i))
                return x, "item"
        if is_self(f.value):
            if self.cls == "Logbook" and m == "__str__" and is_method(e, "__str__", 1):
                i, ti = self.expr(e.args[0], env, binds)
                if ti != "Z":
                    refuse(e, "__str__(%s)" % ti)
                x = self.temp()
                binds.append((x, "str_self %s" % i))
                return x, "text"
            if self.cls == "Logbook" and m == "append" and is_method(e, "append", 1) and self.key == "record":
                v, t = self.expr(e.args[0], env, binds)
                if t != "dict":
                    refuse(e, "self.append(%s)" % t)
                x = self.temp()
                binds.append((x, "list_append uid %s" % v))
                return x, "unit"
            if self.cls == "Statistics" and m == "key" and is_method(e, "key", 1):
                v, t = self.expr(e.args[0], env, binds)
                if t != "obj":
                    refuse(e, "self.key(%s)" % t)
                x = self.temp()
                binds.append((x, "get_key"))
                return "(%s %s)" % (x, v), "keyed"
            return self.own_method(e, self.cls, env, binds, False)
        # self.chapters[key].record(**d)
        if self.cls == "Logbook" and self.key == "record" and m == "record" and isinstance(f.value, ast.Subscript) \
                and self_attr(f.value.value) == "chapters" and not e.args and len(e.keywords) == 1 \
                and e.keywords[0].arg is None:
            k, tk = self.expr(f.value.slice, env, binds)
            d, td = self.expr(e.keywords[0].value, env, binds)
            if tk != "name" or td != "dict":
                refuse(e, "chapters[%s].record(**%s)" % (tk, td))
            x = self.temp()
            binds.append((x, "in_chapter %s (self_record %s)" % (k, d)))
            return x, "unit"
        # methods of local values
        if m == "items" and is_method(e, "items", 0):
            if self.cls == "Statistics" and self_attr(f.value) == "functions":
                x = self.temp()
                binds.append((x, "get_functions"))
                return x, "list pair name fn"
            v, t = self.expr(f.value, env, binds)
            if t != "dict":
                refuse(e, "items of %s" % t)
            return v, "list pair name value"
        if m == "copy" and is_method(e, "copy", 0):
            v, t = self.expr(f.value, env, binds)
            if t != "dict":
                refuse(e, "copy of %s" % t)
            return v, "dict"
        if m == "get" and (is_method(e, "get", 1) or (is_method(e, "get", 2) and isinstance(e.args[1], ast.Constant)
                                                     and e.args[1].value is None)):
            v, t = self.expr(f.value, env, binds)
            k, tk = self.expr(e.args[0], env, binds)
            if t != "item" or tk != "name":
                refuse(e, "%s.get(%s)" % (t, tk))
            return "(rec_get %s %s)" % (k, v), "optz"
        refuse(e, "method call .%s outside the grammar" % m)

    def own_method(self, e, cls, env, binds, on_sub):
        """self.m(args) / sub.m(args) resolved to a translated method"""
        m = e.func.attr
        if e.keywords and not (cls == "Statistics" and m == "register"):
            refuse(e, "keyword arguments")
        x = self.temp()
        if cls == "Logbook" and m == "pop" and len(e.args) <= 1 and not any(isinstance(a, ast.Starred) for a in e.args):
            if e.args:
                i, ti = self.expr(e.args[0], env, binds)
                if ti != "Z":
                    refuse(e, "pop(%s)" % ti)
            else:
                i = zlit(POP_DEFAULT)
            if self.key == "pop":
                if not on_sub:
                    refuse(e, "pop calls itself on the same object")
                binds.append((x, "self_pop %s" % i))
            else:
                if "pop" not in self.available:
                    refuse(e, "no translated method pop to resolve to")
                binds.append((x, "gen_pop %s" % i))
            return x, "item"
        if cls == "Statistics" and m == "compile" and on_sub and is_method(e, "compile", 1):
            v, t = self.expr(e.args[0], env, binds)
            if t != "list obj" or "st_compile" not in self.available:
                refuse(e, "compile(%s)" % t)
            binds.append((x, "gen_st_compile %s" % v))
            return x, "srec"
        if cls == "Statistics" and m == "register" and on_sub and self.key == "ms_register" and len(e.args) == 3 \
                and len(e.keywords) == 1 and e.keywords[0].arg is None:
            a = e.args
            ok = isinstance(a[0], ast.Name) and env.get(a[0].id) == "name" and isinstance(a[1], ast.Name) \
                and env.get(a[1].id) == "fn0" and isinstance(a[2], ast.Starred) and isinstance(a[2].value, ast.Name) \
                and env.get(a[2].value.id) == "varargs" and isinstance(e.keywords[0].value, ast.Name) \
                and env.get(e.keywords[0].value.id) == "kwargs"
            if not ok or "st_register" not in self.available:
                refuse(e, "register call that does not pass (name, function, *args, **kargs) on")
            binds.append((x, "gen_st_register %s %s v_args" % (cn(a[0].id), cn(a[1].id))))
            return x, "unit"
        refuse(e, "call of method %s.%s" % (cls, m))

    # ---- statements -------------------------------------------------------------------------------------
    def block(self, stmts, env, k):
        """k: env -> text of what follows the block (None: the block must end in return)"""
        if not stmts:
            if k is None:
                refuse("FunctionDef", "a path falls off the end of a method that returns a value")
            return k(env)
        s, rest = stmts[0], stmts[1:]
        nxt = lambda env2: self.block(rest, env2, k)   # noqa
        if isinstance(s, ast.Expr):
            if isinstance(s.value, ast.Constant) and isinstance(s.value.value, str):
                return nxt(env)
            return self.expr_stmt(s.value, env, nxt)
        if isinstance(s, ast.Pass):
            return nxt(env)
        if isinstance(s, ast.Return):
            if rest:
                refuse(s, "code after return")
            return self.ret(s, env)
        if isinstance(s, ast.Assign):
            if len(s.targets) != 1:
                refuse(s, "chained assignment")
            tg = s.targets[0]
            if isinstance(tg, ast.Tuple):
                if not (isinstance(s.value, ast.Tuple) and len(tg.elts) == len(s.value.elts)):
                    refuse(s, "tuple assignment from something that is not a tuple display of the same length")
                binds = []
                vals = []
                for x in s.value.elts:          # right-hand sides first, left to right
                    v, t = self.expr(x, env, binds)
                    y = self.temp()
                    binds.append((y, "ret %s" % v))
                    vals.append((y, t))
                a, b = self.emit(binds)
                return a + self.assign_all(list(zip(tg.elts, vals)), env, nxt) + b
            binds = []
            v, t = self.expr(s.value, env, binds)
            a, b = self.emit(binds)
            return a + self.assign_all([(tg, (v, t))], env, nxt) + b
        if isinstance(s, ast.AugAssign):
            if not isinstance(s.op, (ast.Add, ast.Sub)):
                refuse(s, "augmented assignment operator")
            load = ast.copy_location(ast.Name(id=s.target.id, ctx=ast.Load()), s.target) if isinstance(s.target, ast.Name) \
                else ast.copy_location(ast.Attribute(value=s.target.value, attr=s.target.attr, ctx=ast.Load()), s.target) \
                if isinstance(s.target, ast.Attribute) else refuse(s, "augmented assignment target")
            binds = []
            v, t = self.expr(ast.copy_location(ast.BinOp(left=load, op=s.op, right=s.value), s), env, binds)
            a, b = self.emit(binds)
            return a + self.assign_all([(s.target, (v, t))], env, nxt) + b
        if isinstance(s, ast.Delete):
            if len(s.targets) != 1 or not (isinstance(s.targets[0], ast.Subscript) and isinstance(s.targets[0].value, ast.Name)
                                           and not isinstance(s.targets[0].slice, ast.Slice)):
                refuse(s, "del of something that is not d[k]")
            d = s.targets[0].value.id
            if env.get(d) != "dict":
                refuse(s, "del on %s" % env.get(d))
            binds = []
            kk, tk = self.expr(s.targets[0].slice, env, binds)
            if tk != "name":
                refuse(s, "del d[%s]" % tk)
            binds.append((cn(d), "dict_delM %s %s" % (kk, cn(d))))
            a, b = self.emit(binds)
            return a + nxt(env) + b
        if isinstance(s, ast.If):
            return self.if_stmt(s, rest, env, k)
        if isinstance(s, ast.For):
            return self.for_stmt(s, env, nxt)
        refuse(s, "statement outside the grammar")

    def assign_all(self, pairs, env, nxt):
        if not pairs:
            return nxt(env)
        (tg, (v, t)), more = pairs[0], pairs[1:]
        env = dict(env)
        if isinstance(tg, ast.Name):
            if tg.id == "self" or (self.sub and tg.id == self.sub[0]):
                refuse(tg, "assignment to %s" % tg.id)
            if t in ("unit",):
                refuse(tg, "binding a name to no value")
            env[tg.id] = t
            return "let %s := %s in %s" % (cn(tg.id), v, self.assign_all(more, env, nxt))
        if isinstance(tg, ast.Attribute) and self_attr(tg) == "buffindex" and self.cls == "Logbook" and self.sub is None:
            if t != "Z":
                refuse(tg, "self.buffindex = %s" % t)
            return "bind (set_buffindex %s) (fun _ => %s)" % (v, self.assign_all(more, env, nxt))
        if isinstance(tg, ast.Subscript) and not isinstance(tg.slice, ast.Slice):
            binds = []
            if isinstance(tg.value, ast.Name) and env.get(tg.value.id) == "dict":
                kk, tk = self.expr(tg.slice, env, binds)
                if tk != "name" or binds:
                    refuse(tg, "d[%s] = .." % tk)
                d = cn(tg.value.id)
                return "let %s := dict_set %s %s %s in %s" % (d, kk, v, d, self.assign_all(more, env, nxt))
            if self.cls == "Statistics" and self_attr(tg.value) == "functions" and self.sub is None and t == "fn":
                kk, tk = self.expr(tg.slice, env, binds)
                if tk != "name" or binds:
                    refuse(tg, "self.functions[%s] = .." % tk)
                x = self.temp()
                return "bind get_functions (fun %s => bind (set_functions (dict_set %s %s %s)) (fun _ => %s))" \
                    % (x, kk, v, x, self.assign_all(more, env, nxt))
        refuse(tg, "assignment target")

    def expr_stmt(self, e, env, nxt):
        if not isinstance(e, ast.Call):
            refuse(e, "expression statement")
        f = e.func
        if isinstance(f, ast.Attribute) and isinstance(f.value, ast.Name) and f.value.id in env \
                and not (self.sub and f.value.id == self.sub[0]):
            x, t = f.value.id, env[f.value.id]
            if f.attr == "update" and t == "dict" and is_method(e, "update", 1):
                binds = []
                v, tv = self.expr(e.args[0], env, binds)
                if tv != "dict":
                    refuse(e, "update(%s)" % tv)
                return self.wrap(binds, "let %s := dict_update %s %s in %s" % (cn(x), cn(x), v, nxt(env)))
            refuse(e, "method %s on a local of type %s" % (f.attr, t))
        if self.cls == "Statistics" and isinstance(f, ast.Attribute) and f.attr == "append" and self.sub is None \
                and self_attr(f.value) == "fields" and is_method(e, "append", 1):
            binds = []
            v, tv = self.expr(e.args[0], env, binds)
            if tv != "name":
                refuse(e, "fields.append(%s)" % tv)
            x = self.temp()
            return self.wrap(binds, "bind get_fields (fun %s => bind (set_fields (%s ++ [%s])) (fun _ => %s))"
                             % (x, x, v, nxt(env)))
        binds = []
        self.expr(e, env, binds)
        if not binds:
            refuse(e, "call without an effect the translator knows")
        binds[-1] = ("_", binds[-1][1])
        return self.wrap(binds, nxt(env))

    def ret(self, s, env):
        if s.value is None or (isinstance(s.value, ast.Constant) and s.value.value is None):
            if self.rettype != "unit":
                refuse(s, "return without a value")
            return "ret tt"
        binds = []
        v, t = self.expr(s.value, env, binds)
        want = self.rettype
        if want == "selres":
            if t == "list optz":
                v = "(Sel1 %s)" % v
            elif t == "tuple list optz":
                v = "(SelN %s)" % v
            else:
                refuse(s, "select returns %s" % t)
        elif want == "dict" and self.key == "st_compile":
            if t != "dict":
                refuse(s, "compile returns %s" % t)
        elif t != want:
            refuse(s, "returns %s where %s is expected" % (t, want))
        return self.wrap(binds, "ret %s" % v)

    def narrowing(self, test, env):
        """isinstance(x, dict) / isinstance(x, slice), possibly negated -> (name, kind, negated)"""
        neg = False
        if isinstance(test, ast.UnaryOp) and isinstance(test.op, ast.Not):
            test, neg = test.operand, True
        if is_call(test, "isinstance", 2) and isinstance(test.args[0], ast.Name) and isinstance(test.args[1], ast.Name):
            x, c = test.args[0].id, test.args[1].id
            if c == "dict" and env.get(x) == "value":
                return x, "dict", neg
            if c == "slice" and env.get(x) == "dkey":
                return x, "slice", neg
        return None

    def if_stmt(self, s, rest, env, k):
        nar = self.narrowing(s.test, env)
        body, orelse = s.body, s.orelse
        rb, ro = always_returns(body), always_returns(orelse)
        av = [x for x in assigned(body + orelse) if x in env]
        if rb and ro:
            if rest:
                refuse(s, "code after an if whose branches both return")
            mk = lambda blk, env2: self.block(blk, env2, None)   # noqa
            join = None
        elif rb or ro:
            # the other branch continues with the rest of the block
            mk = lambda blk, env2: self.block(blk if always_returns(blk) else list(blk) + list(rest), env2,   # noqa
                                              None if always_returns(blk) else k)
            join = None
        else:
            for blk in (body, orelse):
                for n in blk:
                    for w in ast.walk(n):
                        if isinstance(w, ast.Return):
                            refuse(w, "return inside a branch that does not end in it")
            mk = lambda blk, env2: self.block(blk, env2, lambda env3: "ret %s" % tup(av))   # noqa
            join = av
        if nar is None:
            binds = []
            c, tc = self.expr(s.test, env, binds)
            if tc != "bool":
                refuse(s, "condition of type %s" % tc)
            txt = "if %s then (%s) else (%s)" % (c, mk(body, env), mk(orelse, env))
        else:
            binds = []
            x, kind, neg = nar
            pos, negb = (orelse, body) if neg else (body, orelse)
            envp, envn = dict(env), dict(env)
            if kind == "dict":
                envp[x] = "dict"
                txt = "match %s with VDict %s => (%s) | VInt _ => (%s) end" % (cn(x), cn(x), mk(pos, envp), mk(negb, envn))
            else:
                envp[x] = "slice"
                envn[x] = "Z"
                txt = "match %s with KSlice %s_start %s_stop %s_step => (%s) | KInt %s => (%s) end" \
                    % (cn(x), cn(x), cn(x), cn(x), mk(pos, envp), cn(x), mk(negb, envn))
        if join is None:
            return self.wrap(binds, txt)
        return self.wrap(binds, "bind (%s) (fun %s => %s)" % (txt, pat(join), self.block(rest, env, k)))

    def for_stmt(self, s, env, nxt):
        if s.orelse:
            refuse(s, "for ... else")
        for n in s.body:
            for w in ast.walk(n):
                if isinstance(w, (ast.Return, ast.Break, ast.Continue)):
                    refuse(w, "return / break / continue inside a loop")
        acc = [x for x in assigned(s.body) if x in env]
        it = s.iter
        # loops over sub-objects
        sub = None
        if self.sub is None and is_method(it, "values", 0) and self.cls == "Logbook" \
                and self_attr(it.func.value) == "chapters" and isinstance(s.target, ast.Name):
            sub = (s.target.id, "Logbook", "for_chapters", None)
        elif self.sub is None and is_method(it, "values", 0) and self.cls == "MultiStatistics" and is_self(it.func.value) \
                and isinstance(s.target, ast.Name):
            sub = (s.target.id, "Statistics", "for_values", None)
        elif self.sub is None and is_method(it, "items", 0) and self.cls == "MultiStatistics" and is_self(it.func.value) \
                and isinstance(s.target, ast.Tuple) and len(s.target.elts) == 2 \
                and all(isinstance(x, ast.Name) for x in s.target.elts):
            sub = (s.target.elts[1].id, "Statistics", "for_items", s.target.elts[0].id)
        if sub is not None:
            var, cls, comb, keyname = sub
            if var in env or (keyname and keyname in env):
                refuse(s, "loop variable shadows a local")
            env2 = dict(env)
            if keyname:
                env2[keyname] = "name"
            self.sub = (var, cls)
            try:
                body = self.block(s.body, env2, lambda env3: "ret %s" % tup(acc))
            finally:
                self.sub = None
            if comb == "for_chapters":
                if acc:
                    refuse(s, "loop over the chapters that changes locals")
                return "bind (for_chapters (%s)) (fun _ => %s)" % (body, nxt(env))
            return "bind (%s (fun %s %s => %s) %s) (fun %s => %s)" \
                % (comb, cn(keyname) if keyname else "_", pat(acc), body, tup(acc), pat(acc), nxt(env))
        view = it.func.value if isinstance(it, ast.Call) and isinstance(it.func, ast.Attribute) \
            and it.func.attr in ("items", "values", "keys") and not it.args and not it.keywords else it
        if (is_self(view) or self_attr(view) is not None) and touches_self(s.body):
            refuse(s, "loop over the object (or a view of its attributes) whose body may change the object")
        binds = []
        itx, et = self.iterable(it, env, binds)
        # a loop over the items of a local dict must not change that dict unless it iterates a copy (list(..))
        if is_method(it, "items", 0) and isinstance(it.func.value, ast.Name) and it.func.value.id in acc:
            refuse(s, "loop over a live view of a dict that its body changes")
        p, env2 = self.target(s.target, et, env)
        for x in (n.id for n in ast.walk(s.target) if isinstance(n, ast.Name)):
            if x in env:
                refuse(s, "loop variable shadows a local")
        body = self.block(s.body, env2, lambda env3: "ret %s" % tup(acc))
        return self.wrap(binds, "bind (forM %s (fun %s %s => %s) %s) (fun %s => %s)"
                         % (itx, p, pat(acc), body, tup(acc), pat(acc), nxt(env)))


def translate_function(fn, key, available):
    cls, meth, params, vararg, kwarg, decos, header, rettype, _ = FUNCS[key]
    a = fn.args
    if [d.id if isinstance(d, ast.Name) else "?" for d in fn.decorator_list] != list(decos):
        refuse(fn, "decorators")
    if a.posonlyargs or a.kwonlyargs or a.kw_defaults or [x.arg for x in a.args] != ["self"] + [p for p, _ in params] \
            or (a.vararg.arg if a.vararg else None) != vararg or (a.kwarg.arg if a.kwarg else None) != kwarg:
        refuse(fn, "parameters differ from the signature table")
    if key == "pop":
        if len(a.defaults) != 1 or not (isinstance(a.defaults[0], ast.Constant) and a.defaults[0].value == POP_DEFAULT
                                        and not isinstance(a.defaults[0].value, bool)):
            refuse(fn, "default index of pop")
    elif a.defaults:
        refuse(fn, "default values")
    for n in ast.walk(fn):
        if isinstance(n, (ast.FunctionDef, ast.Lambda, ast.Global, ast.Nonlocal, ast.While, ast.Try, ast.With, ast.Yield,
                          ast.YieldFrom, ast.Await, ast.ClassDef, ast.Import, ast.ImportFrom, ast.NamedExpr)) and n is not fn:
            refuse(n, "construct outside the grammar")
    env = {p: t for p, t in params}
    if key == "record":
        env["infos"] = "dict"
    elif key == "select":
        env["names"] = "tuple name"
    elif vararg:
        env[vararg], env[kwarg] = "varargs", "kwargs"
    for x in env:
        if x in BUILTINS:
            refuse(fn, "parameter shadows a builtin")
    tr = FnTr(key, cls, rettype, available)
    for n in ast.walk(fn):
        if isinstance(n, ast.Name) and isinstance(n.ctx, (ast.Store, ast.Del)) and (n.id in BUILTINS or n.id == "self"):
            refuse(n, "rebinding of %s" % n.id)
    body = tr.block(fn.body, env, (lambda env2: "ret tt") if rettype == "unit" else None)
    return "%s :=\n  %s." % (header, body)


HEADER = """(* GENERATED by harness/c18_py2coq.py from %s -- do not edit, never committed. *)
From Coq Require Import List ZArith Bool.
From DV Require Import Base.PyList Base.C18_Lists Model.C18_Logbook Model.C18_GenRt.
Import ListNotations.
Local Open Scope Z_scope.

"""
CLOSERS = {
    "pop": "Definition gen_pop (i : Z) : M lb item := fun l => iter_fuel gen_pop_body (S (lb_depth l)) i l.",
    "record": "Definition gen_record (fuel : nat) (uid : nat) : dict -> M lb unit := iter_fuel (gen_record_body uid) fuel.",
}


def placeholder(key, r):
    header, term = FUNCS[key][6], FUNCS[key][8]
    return "(* REFUSED %s: %s *)\n%s :=\n  %s." % (key, str(r).replace("*)", "* )").replace("(*", "( *"), header, term)


def module_ok(tree):
    """module-level names the translation relies on"""
    for n in tree.body:
        for w in ([n] if isinstance(n, (ast.FunctionDef, ast.ClassDef)) else []):
            if w.name in BUILTINS or w.name in ("identity",) and False:
                refuse(w, "module rebinds %s" % w.name)
        if isinstance(n, ast.Assign):
            for t in n.targets:
                for w in ast.walk(t):
                    if isinstance(w, ast.Name) and w.id in BUILTINS:
                        refuse(w, "module rebinds %s" % w.id)
        if isinstance(n, ast.ImportFrom):
            for al in n.names:
                nm = al.asname or al.name
                if nm in BUILTINS and not (nm == "partial" and n.module == "functools" and al.name == "partial") \
                        and not (nm == "defaultdict" and n.module == "collections" and al.name == "defaultdict"):
                    refuse(n, "module rebinds %s" % nm)
                if nm == "*":
                    refuse(n, "star import")
        if isinstance(n, ast.Import):
            for al in n.names:
                if (al.asname or al.name) in BUILTINS:
                    refuse(n, "module rebinds a builtin")
    have_partial = any(isinstance(n, ast.ImportFrom) and n.module == "functools"
                       and any(al.name == "partial" and al.asname is None for al in n.names) for n in tree.body)
    return have_partial


BASES = {"Logbook": ["list"], "Statistics": ["object"], "MultiStatistics": ["dict"]}


def check_class(c, cls, tree):
    """the class defines what the signature table and the run-time vocabulary assume, and nothing that could change the
    meaning of the protocol methods the translated code relies on"""
    if [b.id if isinstance(b, ast.Name) else "?" for b in c.bases] != BASES[cls] or c.keywords or c.decorator_list:
        refuse(c, "bases / decorators of %s" % cls)
    for n in c.body:
        if isinstance(n, ast.Expr) and isinstance(n.value, ast.Constant) and isinstance(n.value.value, str):
            continue
        if isinstance(n, ast.Pass):
            continue
        if not isinstance(n, ast.FunctionDef):
            refuse(n, "class member of %s that is not a method" % cls)
        if n.name not in MEMBERS[cls] and (n.name.startswith("__") or not n.name.startswith("_")):
            refuse(n, "%s defines %s (only private helpers may be added)" % (cls, n.name))
    if cls in INITS:
        sig, _, want = INITS[cls]
        fns = [n for n in c.body if isinstance(n, ast.FunctionDef) and n.name == "__init__"]
        if len(fns) != 1 or fns[0].decorator_list:
            refuse(c, "%s.__init__" % cls)
        got = [ast.unparse(n) for n in fns[0].body
               if not (isinstance(n, ast.Expr) and isinstance(n.value, ast.Constant) and isinstance(n.value.value, str))]
        if ast.unparse(fns[0].args) != sig or got != want:
            refuse(fns[0], "%s.__init__ differs from the initial state of the model" % cls)
    # nothing at module level may patch the class afterwards
    for n in tree.body:
        if isinstance(n, (ast.ClassDef, ast.FunctionDef, ast.Import, ast.ImportFrom)):
            continue
        if isinstance(n, ast.If) and ast.unparse(n.test) == "__name__ == '__main__'":
            continue
        for w in ast.walk(n):
            if isinstance(w, ast.Name) and w.id in (cls, "setattr", "delattr", "globals", "vars"):
                refuse(n, "module-level statement that mentions %s" % w.id)


def translate_source(text, origin="deap/tools/support.py", force_refuse=()):
    """source text -> (Gallina text, {key: None | Refuse})"""
    status = {}
    glob = None
    classes = {}
    have_partial = False
    try:
        tree = ast.parse(text)
        have_partial = module_ok(tree)
        for n in tree.body:
            if isinstance(n, ast.ClassDef):
                if n.name in classes:
                    refuse(n, "class defined twice")
                classes[n.name] = n
    except Refuse as r:
        glob = r
    except (SyntaxError, ValueError, RecursionError, MemoryError) as e:
        glob = Refuse("Module", "source does not parse: %s" % e)
    out = HEADER % origin
    available = set()
    for key in ORDER:
        cls, meth = FUNCS[key][0], FUNCS[key][1]
        try:
            if glob is not None:
                raise glob
            if key in force_refuse:
                refuse("FunctionDef", "refusal forced (self-test of the proof scripts)")
            c = classes.get(cls)
            if c is None:
                refuse("ClassDef", "class %s is not defined" % cls)
            check_class(c, cls, tree)
            fns = [n for n in c.body if isinstance(n, ast.FunctionDef) and n.name == meth]
            if len(fns) != 1:
                refuse(c, "%s.%s is defined %d times" % (cls, meth, len(fns)))
            if key == "st_register" and not have_partial:
                refuse(fns[0], "partial is not functools.partial")
            txt = translate_function(fns[0], key, available)
            status[key] = None
        except Refuse as r:
            status[key] = r
            txt = placeholder(key, r)
        except Exception as e:  # noqa  (a translator crash on an unforeseen construct is a refusal: fail closed)
            status[key] = Refuse("FunctionDef", "translator error %s: %s" % (type(e).__name__, e))
            txt = placeholder(key, status[key])
        if status[key] is None or True:
            available.add(key)
        out += txt + "\n"
        if key in CLOSERS:
            out += CLOSERS[key] + "\n"
        out += "\n"
    return out, status


def translate_repo(repo, force_refuse=()):
    path = os.path.join(repo, *FILE)
    try:
        text = open(path).read()
    except (OSError, UnicodeDecodeError) as e:
        text = "\x00 unreadable: %s" % e
    return translate_source(text, path, force_refuse)


if __name__ == "__main__":
    import sys
    txt, st = translate_repo(sys.argv[1] if len(sys.argv) > 1 else "/repo",
                             tuple(os.environ.get("C18_FORCE_REFUSE", "").split(",")))
    print(txt)
    for k, v in st.items():
        sys.stderr.write("%s: %s\n" % (k, "translated" if v is None else "REFUSED %s" % v))
