"""C08 — Hall of fame and Pareto archive (deap/tools/support.py: HallOfFame, ParetoFront).

Every history is run on the real classes.  After EVERY operation the harness reads keys/items,
then overwrites all individuals it ever submitted in place (list contents and fitness values)
and reads the archive again (deep-copy independence).  The property statement is evaluated
directly on what the implementation holds (oracle, independent of the Coq model) and the
observed trace is replayed on the model inside coqc (Corr/C08.v).
"""
import itertools
import operator
import os

import vlib
from vlib import cz, czl, clist, copt, cnat

GEN = os.path.join(vlib.COQ, "Gen", "C08_gen.v")
METHOD_OF = {"len": "HallOfFame.__len__", "getitem": "HallOfFame.__getitem__", "iter": "HallOfFame.__iter__",
             "insert": "HallOfFame.insert", "remove": "HallOfFame.remove", "clear": "HallOfFame.clear",
             "hof_update": "HallOfFame.update", "pf_update": "ParetoFront.update"}


def regen(repo=None):
    """Tie (T): regenerate coq/Gen/C08_gen.v from the working tree's deap/tools/support.py.
    Returns (ok, message, status) -- status: method key -> None (translated) | Refuse (placeholder = the reference
    transcription harness/c08_gen_ref.v.in); ok is False when nothing could be translated."""
    import c08_py2coq
    repo = repo or vlib.REPO
    try:
        txt, status = c08_py2coq.translate_repo(repo)
    except Exception as e:  # noqa  (a translator crash is a refusal of everything: fail closed)
        r = c08_py2coq.Refuse("Module", "translator error %s: %s" % (type(e).__name__, e))
        txt, status = c08_py2coq.translate_source("\x00")     # all placeholders
        status = {k: r for k in status}
    with vlib.BuildLock():
        os.makedirs(os.path.dirname(GEN), exist_ok=True)
        old = open(GEN).read() if os.path.exists(GEN) else None
        if old != txt:
            with open(GEN, "w") as f:
                f.write(txt)
    done = [METHOD_OF[k] for k, v in status.items() if v is None]
    refused = ["%s (%s)" % (METHOD_OF[k], v) for k, v in status.items() if v is not None]
    msg = "regenerated: %s" % (", ".join(done) or "nothing")
    if refused:
        msg += "; translator refused: " + "; ".join(refused)
    return bool(done), msg, status


def tie_T(run):
    """Regenerate, re-prove `regenerated = hand models` and the theorems on the regenerated definitions.
    Returns (check function of the correspondence, requires, translated-but-not-proved flag)."""
    ok, msg, status = regen()
    refused = {k: v for k, v in status.items() if v is not None}
    done = [METHOD_OF[k] for k, v in status.items() if v is None]
    run.extra_cov["regenerated_functions"] = done
    run.extra_cov["translator_refused"] = {METHOD_OF[k]: str(v) for k, v in refused.items()}
    for k, v in refused.items():
        run.notes.append("tie: correspondence-only (translator refused %s at line %s in %s: %s)"
                         % (v.node, v.line, METHOD_OF[k], v.why))
    if not ok:
        run.extra_cov["tie"] = "correspondence-only (%s)" % msg
        return "check", [], False
    gen_ok = run.build_props(props="Props/C08_gen.v", extra=["Corr/C08_gen.v"])
    if gen_ok:
        run.notes.append("tie: regenerated (%s)" % ", ".join(done))
        run.extra_cov["tie"] = ("translation (regenerated methods proved equal to both hand models, value level and heap "
                                "level: %s) + correspondence%s"
                                % (", ".join(done), "; correspondence-only for " + ", ".join(
                                    sorted(METHOD_OF[k] for k in refused)) if refused else ""))
        run.trusted.append("translator harness/c08_py2coq.py and its signature table (source text -> coq/Gen/C08_gen.v) with "
                           "the run-time vocabulary coq/Model/C08_GenRt.v (worlds VW / HW, declared primitives bisect_right, "
                           "self.similar, Fitness comparisons / dominates, deepcopy); the regenerated methods are proved equal "
                           "to the hand models (Proofs/C08_gen_equiv.v) and evaluated against the implementation on every run")
        if os.environ.get("C08_GEN_EVAL") == "0":      # (measurement only) prove the tie, evaluate the hand model alone
            return "check", [], False
        return "check_both", ["From DV Require Import Corr.C08_gen."], False
    run.extra_cov["tie"] = "translator succeeded but the regenerated definitions are no longer (provably) the model"
    try:        # keep the offending text for the replay
        with open(os.path.join(run.rundir, "C08_gen.v.broken"), "w") as f:
            f.write(open(GEN).read())
    except OSError:
        pass
    return "check", [], True

SIMKINDS = ["SimEq", "SimHead", "SimNever", "SimAlways", "SimLe"]
EQUIV = ("SimEq", "SimHead", "SimAlways")        # reflexive + symmetric + transitive operators
SYMMETRIC = EQUIV + ("SimNever",)


def sim_spec(kind):
    """The similarity operators on plain genotype lists (the oracle's own copy)."""
    return {"SimEq": lambda a, b: list(a) == list(b),
            "SimHead": lambda a, b: a[0] == b[0],
            "SimNever": lambda a, b: False,
            "SimAlways": lambda a, b: True,
            "SimLe": lambda a, b: a[0] <= b[0]}[kind]


def sim_impl(kind):
    """What is handed to the constructor (None = leave the default operator.eq)."""
    return {"SimEq": None,
            "SimHead": lambda a, b: a[0] == b[0],
            "SimNever": lambda a, b: False,
            "SimAlways": lambda a, b: True,
            "SimLe": lambda a, b: a[0] <= b[0]}[kind]


def dom_spec(a, b):
    return all(x >= y for x, y in zip(a, b)) and any(x > y for x, y in zip(a, b))


def cind(tag, geno, wv):
    return "(mkind %s %s %s)" % (cz(tag), czl(geno), czl(wv))


class Driver:
    """Runs one history on DEAP, observes, evaluates the oracle, builds the Coq terms."""

    def __init__(self, run):
        from deap import base, tools
        self.run = run
        self.base, self.tools = base, tools
        self.classes = {}
        self.stats = {"hof_evictions": 0, "pf_removed_2_or_more": 0, "pf_removed_noncontiguous": 0,
                      "similar_resubmitted_with_other_fitness": 0, "calls_that_raised": 0,
                      "reconfigurations": 0, "oracle_restarts_after_direct_op": 0, "feeds_between_archives": 0,
                      "non_integer_fitness_cases": 0}

    # ---- individual / fitness classes ------------------------------------------------------
    def make_pool(self, weights, n, cls="plain", fitbase="Fitness", glen=1):
        """n fresh individuals of one class. cls: plain | creator | array_d | array_i | numpy | numpy32."""
        key = (tuple(weights), cls, fitbase)
        if key not in self.classes:
            import array
            import numpy
            from deap import creator
            k = len(self.classes)
            fb = getattr(self.base, fitbase)
            w = tuple(float(x) for x in weights)
            if cls == "plain":
                F = type("FitC08_%d" % k, (fb,), {"weights": w})

                class Ind(list):
                    def __init__(self, *a):
                        list.__init__(self, *a)
                        self.fitness = F()
                Ind.__name__ = Ind.__qualname__ = "IndC08_%d" % k
                self.classes[key] = (Ind, F)
            else:
                creator.create("FitC08c_%d" % k, fb, weights=w)
                F = getattr(creator, "FitC08c_%d" % k)
                if cls == "creator":
                    creator.create("IndC08c_%d" % k, list, fitness=F)
                elif cls in ("array_d", "array_i"):
                    creator.create("IndC08c_%d" % k, array.array, typecode=cls[-1], fitness=F)
                else:
                    creator.create("IndC08c_%d" % k, numpy.ndarray, fitness=F)
                self.classes[key] = (getattr(creator, "IndC08c_%d" % k), F)
        Ind, F = self.classes[key]
        if cls in ("numpy", "numpy32"):
            import numpy
            dt = numpy.float32 if cls == "numpy32" else numpy.int64
            return [Ind(numpy.zeros(glen, dtype=dt)) for _ in range(n)], Ind, F
        return [Ind() for _ in range(n)], Ind, F

    @staticmethod
    def set_geno(p, g, cls):
        if cls in ("array_d", "array_i"):
            del p[:]
            p.extend(g)
        else:
            p[:] = list(g)              # numpy: fixed length, a single value is broadcast

    def read(self, arch, pool_ids, idmap, alive, to_int, foreign=()):
        """(keys as rank tuples, items as (canonical id, geno, ranks))."""
        ks = [[to_int(v) for v in k.wvalues] for k in arch.keys]
        its = []
        for it in arch.items:
            i = id(it)
            if i in pool_ids:
                c = -1 - pool_ids[i]              # an archive member IS a submitted object
            elif i in foreign:
                c = -1000                         # ... or a member of another archive
            else:
                if i not in idmap:
                    idmap[i] = len(idmap)
                    alive.append(it)              # keep alive: ids are never reused
                c = idmap[i]
            its.append((c, [int(g) for g in it], [to_int(v) for v in it.fitness.wvalues]))
        return ks, its

    @staticmethod
    def make_rank(universe, weights):
        """Order-isomorphic image in Z of every weighted value that can occur in the case:
        (to_int on floats, weighted-fitness function for the oracle, garbage values)."""
        wf = [float(w) for w in weights]
        big = 2.0 * max([abs(float(v)) for _, vals in universe for v in vals] + [1.0]) + 1000.0
        garbage = [tuple(big * s * (1 if w > 0 else -1) for w in wf) for s in (1, -1)]
        allw = set()
        for _, vals in list(universe) + [(None, g) for g in garbage]:
            for v, w in zip(vals, wf):
                allw.add(float(v * w))
        order = sorted(allw)
        rank = {x: k for k, x in enumerate(order)}

        def to_int(x):
            return rank[float(x)]             # KeyError: the implementation produced an unknown weighted value

        def wfit(vals):
            return tuple(rank[float(v * w)] for v, w in zip(vals, wf))
        integral = all(float(x).is_integer() for x in order)
        return to_int, wfit, garbage, integral

    def impl_similar(self, simk, cls):
        f = sim_impl(simk)
        if f is None and cls in ("numpy", "numpy32"):
            import numpy
            return numpy.array_equal          # operator.eq is ambiguous on arrays (documented)
        return f

    # ---- one archive ---------------------------------------------------------------------------
    def drive(self, kind, m, simk, weights, universe, script, group, use_creator=False, opts=None):
        """kind: 'hof' | 'pf'; universe: list of (geno, values); script: list of ops
        ('update', [(slot, content)...][, ptype]) | ('insert', (slot, content)) | ('remove', i) | ('clear',)
        | ('setmax', m) | ('setsim', simk).   Returns (term, heap_term_or_None, case)."""
        run, tools = self.run, self.tools
        opts = dict(opts or {})
        cls = opts.get("cls", "creator" if use_creator else "plain")
        fitbase = opts.get("fitbase", "Fitness")
        simf = self.impl_similar(simk, cls)
        if kind == "hof":
            if simf is None:
                arch = tools.HallOfFame(m)
            elif opts.get("ctor") == "pos":
                arch = tools.HallOfFame(m, simf)
            else:
                arch = tools.HallOfFame(m, similar=simf)
        else:
            if simf is None:
                arch = tools.ParetoFront()
            elif opts.get("ctor") == "pos":
                arch = tools.ParetoFront(simf)
            else:
                arch = tools.ParetoFront(similar=simf)
        nslots = 1 + max([s for o in script if o[0] == "update" for (s, _) in o[1]] +
                         [o[1][0] for o in script if o[0] == "insert"] + [0])
        glen = len(universe[0][0])
        pool, IndC, FitC = self.make_pool(weights, nslots, cls, fitbase, glen)
        pool_ids = {id(p): k for k, p in enumerate(pool)}
        pool_fit_ids = {id(p.fitness) for p in pool}
        idmap, alive = {}, []
        spec = sim_spec(simk)
        to_int, wfit, garbage_vals, integral = self.make_rank(universe, weights)
        if not integral:
            self.stats["non_integer_fitness_cases"] += 1
        seen = []                 # snapshots (geno tuple, weighted fitness ranks) the statement is judged against
        shown_sig = {}            # snapshot -> set of (gene type names, repr(fitness.values)) as submitted
        pure = True               # the full statement applies (see "restart" below)
        segments = [[copt(m if kind == "hof" else None, cz), simk, []]]
        ops_terms = segments[0][2]
        obs_terms, obs_log = [], []
        hops, hobs = [], []       # heap-level history: every in-place overwrite and every call
        event = 0
        garbage = 0
        reconfigured = False
        case = {"kind": kind, "maxsize": m, "similar": simk, "weights": list(weights),
                "universe": [[list(g), [repr(x) for x in v]] for g, v in universe], "script": [list(o) for o in script],
                "group": group, "classes": [cls, fitbase, opts.get("ctor", "kw")]}
        viol = []
        expected = {}             # slot -> contents the harness last wrote (update must not modify them)

        def contents(p):
            return ([int(g) for g in p], repr(tuple(p.fitness.values)))

        def note_hset(slot):
            p = pool[slot]
            hops.append("(HSet %s (mkobj %s %s))" % (cnat(slot), czl([int(g) for g in p]),
                                                    czl([to_int(v) for v in p.fitness.wvalues])))
            hobs.append("None")
            expected[slot] = contents(p)

        for k in range(nslots):   # the initial objects (numpy individuals are not empty)
            if len(pool[k]):
                note_hset(k)

        def set_content(slot, ci):
            g, v = universe[ci]
            self.set_geno(pool[slot], g, cls)
            pool[slot].fitness.values = tuple(v)          # ints / floats / numpy scalars as given
            note_hset(slot)

        def scramble():
            nonlocal garbage
            for k, p in enumerate(pool):
                garbage += 1
                self.set_geno(p, [-7 - garbage % 3], cls)
                p.fitness.values = garbage_vals[garbage % 2]
                note_hset(k)

        def members_now():
            return [(tuple(int(g) for g in it), tuple(to_int(v) for v in it.fitness.wvalues)) for it in arch.items]

        def restart(ok):
            """After a direct insert/remove or a reconfiguration: if the archive is a legal starting point
            (C08_hof_continue / C08_pf_continue) the statement is judged from here on with seen = members."""
            nonlocal seen, pure
            if ok:                      # the continue-theorems only need a legal archive, whatever came before
                seen = members_now()
                pure = True
                self.stats["oracle_restarts_after_direct_op"] += 1
            else:
                pure = False

        def legal_start():
            A = members_now()
            n = len(A)
            if simk not in EQUIV:
                return False
            if kind == "hof":
                return (m is not None and m >= 1 and n <= m and
                        not any(i != j and spec(A[i][0], A[j][0]) for i in range(n) for j in range(n)))
            return not any(i != j and (dom_spec(A[i][1], A[j][1]) or (A[i][1] == A[j][1] and spec(A[i][0], A[j][0])))
                           for i in range(n) for j in range(n))

        raised = False
        prev_ids = []
        for o in script:
            batch_obj = None
            if o[0] == "update":
                ptype = o[2] if len(o) > 2 else "list"
                for (slot, ci) in o[1]:
                    set_content(slot, ci)      # in-place modification of a (re-)submitted object
                batch = [pool[slot] for (slot, _) in o[1]]
                elems = []
                for (slot, ci) in o[1]:
                    p = pool[slot]
                    # contents as the implementation sees them at submission time (a slot listed twice
                    # with different contents holds the last one: same object)
                    elems.append((event, [int(g) for g in p], [to_int(v) for v in p.fitness.wvalues]))
                    event += 1
                ops_terms.append("(OUpdate %s)" % clist([cind(*e) for e in elems]))
                hops.append("(HUpdate %s)" % clist([cnat(slot) for (slot, _) in o[1]]))
                cur = {}
                for (slot, ci) in o[1]:
                    cur[slot] = ci
                for (slot, _) in o[1]:              # what was shown, from the script alone
                    g, v = universe[cur[slot]]
                    snap = (tuple(g), wfit(v))
                    if any(spec(snap[0], t[0]) and t[1] != snap[1] for t in seen):
                        self.stats["similar_resubmitted_with_other_fitness"] += 1
                    seen.append(snap)
                    p = pool[slot]
                    shown_sig.setdefault(snap, set()).add((tuple(type(x).__name__ for x in p), repr(tuple(p.fitness.values))))
                batch_obj = {"list": batch, "tuple": tuple(batch), "iter": iter(batch)}[ptype]
                try:
                    arch.update(batch_obj)
                except Exception as e:      # noqa
                    raised = type(e).__name__
            elif o[0] == "insert":
                slot, ci = o[1]
                set_content(slot, ci)
                p = pool[slot]
                ops_terms.append("(OInsert %s)" % cind(event, [int(g) for g in p], [to_int(v) for v in p.fitness.wvalues]))
                event += 1
                hops.append("(HInsert %s)" % cnat(slot))
                snap = (tuple(universe[ci][0]), wfit(universe[ci][1]))
                shown_sig.setdefault(snap, set()).add((tuple(type(x).__name__ for x in p), repr(tuple(p.fitness.values))))
                try:
                    arch.insert(p)
                except Exception as e:      # noqa
                    raised = type(e).__name__
            elif o[0] == "remove":
                idx = o[1]
                if isinstance(idx, str):               # boundary indices relative to the current size
                    n_ = len(arch.items)
                    idx = {"first": 0, "last": n_ - 1, "neg_last": -1, "neg_first": -n_, "past": n_, "neg_past": -n_ - 1}[idx]
                ops_terms.append("(ORemove %s)" % cz(idx))
                hops.append("(HRemove %s)" % cz(idx))
                try:
                    arch.remove(idx)
                except Exception as e:      # noqa
                    raised = type(e).__name__
            elif o[0] == "setmax":
                m = o[1]
                arch.maxsize = m                               # reconfigured through attribute assignment
                segments.append([copt(m, cz), simk, []])
                ops_terms = segments[-1][2]
                reconfigured = True
                self.stats["reconfigurations"] += 1
                restart(legal_start())
                continue
            elif o[0] == "setsim":
                simk = o[1]
                spec = sim_spec(simk)
                f = self.impl_similar(simk, cls)
                arch.similar = operator.eq if f is None else f
                segments.append([copt(m if kind == "hof" else None, cz), simk, []])
                ops_terms = segments[-1][2]
                reconfigured = True
                self.stats["reconfigurations"] += 1
                restart(legal_start())
                continue
            else:
                ops_terms.append("OClear")
                hops.append("HClear")
                seen = []
                if simk in EQUIV and (kind == "pf" or (m is not None and m >= 1)):
                    pure = True                                 # an empty archive is always a legal start
                try:
                    arch.clear()
                except Exception as e:      # noqa
                    raised = type(e).__name__
            if raised:
                self.stats["calls_that_raised"] += 1
                obs_terms.append("None")
                hobs.append("(Some None)")
                obs_log.append("raise " + raised)
                if pure and o[0] in ("update", "clear") and (kind == "pf" or m >= 1):
                    viol.append(("%s raised %s" % (o[0], raised), None))
                break
            try:
                # the call must not have modified what was submitted
                touched = [k for k in range(nslots) if k in expected and contents(pool[k]) != expected[k]]
                if o[0] == "update" and isinstance(batch_obj, list) and [id(x) for x in batch_obj] != [id(x) for x in batch]:
                    touched.append("population list")
                ks, its = self.read(arch, pool_ids, idmap, alive, to_int)
                before = (ks, its)
                cstate = lambda st: "(Some (Some (%s, %s)))" % (clist([czl(k) for k in st[0]]), clist([cind(*t) for t in st[1]]))
                hobs.append(cstate(before))
                # members keep the class, the gene types and the exact fitness values of what was shown
                sig_bad = [k for k, it in enumerate(arch.items)
                           if type(it) is not IndC or type(it.fitness) is not FitC or
                           (tuple(type(x).__name__ for x in it), repr(tuple(it.fitness.values)))
                           not in shown_sig.get((tuple(its[k][1]), tuple(its[k][2])), ())]
                scramble()
                after = self.read(arch, pool_ids, idmap, alive, to_int)
                hobs[-1] = cstate(after)       # observation after the last in-place overwrite
                fit_alias = [k for k, it in enumerate(arch.items) if id(it.fitness) in pool_fit_ids]
                key_alias = [k for k, kk in enumerate(arch.keys) if id(kk) in pool_fit_ids]
                # the public list-like interface shows the same members
                n = len(arch)
                a_, b_ = (garbage % 4) - 1, (garbage % 3) + 1
                iface_ok = (n == len(arch.items) and [id(x) for x in arch] == [id(x) for x in arch.items]
                            and [id(arch[k]) for k in range(n)] == [id(x) for x in arch.items]
                            and [id(arch[k - n]) for k in range(n)] == [id(x) for x in arch.items]
                            and [id(x) for x in reversed(arch)] == [id(x) for x in reversed(arch.items)]
                            and [id(x) for x in arch[a_:b_]] == [id(x) for x in arch.items[a_:b_]]
                            and [id(x) for x in arch[::-1]] == [id(x) for x in arch.items[::-1]]
                            and str(arch) == str(arch.items)
                            and (n == 0 or arch[-1] is arch.items[-1]))
            except Exception as e:          # noqa  (e.g. archive left holding invalid fitnesses)
                viol.append(("archive unreadable after the operation: %s" % type(e).__name__, None))
                while len(hobs) < len(hops):
                    hobs.append("None")
                obs_terms.append("None")
                obs_log.append("unreadable")
                break
            obs_terms.append("(Some (%s, %s))" % (clist([czl(k) for k in ks]), clist([cind(*t) for t in its])))
            obs_log.append([ks, its])
            ids_now = [c for (c, _, _) in its]
            lost_pos = [k for k, c in enumerate(prev_ids) if c not in ids_now]
            if o[0] == "update" and lost_pos:
                if kind == "hof":
                    self.stats["hof_evictions"] += 1
                elif len(lost_pos) >= 2:
                    self.stats["pf_removed_2_or_more"] += 1
                    if lost_pos[-1] - lost_pos[0] + 1 != len(lost_pos):      # positions in the archive before the call
                        self.stats["pf_removed_noncontiguous"] += 1
            prev_ids = ids_now
            # ---------------- oracle: the property statement on the implementation ----------------
            if touched:
                viol.append(("the call modified the submitted individuals / population", touched))
            if sig_bad:
                viol.append(("a member differs in class, gene type or exact fitness values from what was shown", [its[k] for k in sig_bad]))
            if not iface_ok:
                viol.append(("len / iteration / indexing / slicing / reversed / str disagree with the item list", its))
            if after != before:
                viol.append(("archive changed when the submitted individuals were modified in place", [before, after]))
            if any(c < 0 for (c, _, _) in its) or fit_alias or key_alias:
                viol.append(("archive holds a submitted object (or its fitness) instead of a deep copy", its))
            A = [(tuple(g), tuple(f)) for (_, g, f) in its]
            if [tuple(k) for k in ks] != [f for (_, f) in reversed(A)]:
                viol.append(("keys are not the mirror image of the items' fitnesses", [ks, its]))
            if any(A[i][1] < A[i + 1][1] for i in range(len(A) - 1)):
                viol.append(("items not in non-increasing lexicographic fitness order", its))
            if o[0] in ("insert", "remove"):
                restart(legal_start())
            if pure:
                viol += self.oracle(kind, m, simk, spec, seen, A)
        if len(set(len(f) for (_, f) in seen)) > 1:
            raise RuntimeError("generator produced fitnesses of different lengths")
        case["observed"] = obs_log
        nontrivial = any(o[0] == "update" and o[1] for o in script)
        run.note_case(case, nontrivial, sample=case if (len(run.samples) < 6 and len(script) >= 2 and run.evaluations % 211 == 7) else None)
        for (what, obs) in viol[:3]:
            run.oracle_violation("%s: %s" % ("HallOfFame" if kind == "hof" else "ParetoFront", what), case, observed=obs)
        if reconfigured:
            segs = clist(["(%s, %s, %s)" % (k, sk, clist(ops)) for (k, sk, ops) in segments])
            return "CSeq %s %s" % (segs, clist(obs_terms)), None, case
        kterm = segments[0][0]
        term = "CArch %s %s %s %s" % (kterm, segments[0][1], clist(ops_terms), clist(obs_terms))
        assert len(hops) == len(hobs), (len(hops), len(hobs))
        hterm = "CHeap %s %s %s %s %s" % (kterm, segments[0][1], cnat(nslots), clist(hops), clist(hobs))
        return term, hterm, case

    # ---- two archives fed from the same objects and from each other --------------------------------
    def drive_pair(self, cfgs, simk, weights, universe, script, group):
        """cfgs: two (kind, m); script ops ('update', which, [(slot, content)...]) | ('feed', src, dst, mode)
        with mode 'archive' (dst.update(src)), 'items' (dst.update(src.items)), 'reversed' (list(reversed(src)))
        | ('clear', which).  src may equal dst.  Returns ([termA, termB], case)."""
        run, tools = self.run, self.tools
        simf = sim_impl(simk)
        archs = []
        for (kind, m) in cfgs:
            if kind == "hof":
                archs.append(tools.HallOfFame(m) if simf is None else tools.HallOfFame(m, similar=simf))
            else:
                archs.append(tools.ParetoFront() if simf is None else tools.ParetoFront(similar=simf))
        nslots = 1 + max([s for o in script if o[0] == "update" for (s, _) in o[2]] + [0])
        pool, IndC, FitC = self.make_pool(weights, nslots)
        pool_ids = {id(p): k for k, p in enumerate(pool)}
        to_int, wfit, garbage_vals, _ = self.make_rank(universe, weights)
        spec = sim_spec(simk)
        idmaps, alive = [{}, {}], []
        seens = [[], []]
        ops_terms, obs_terms = [[], []], [[], []]
        obs_log = []
        event = 0
        garbage = 0
        viol = []
        case = {"kind": "pair", "archives": [list(c) for c in cfgs], "similar": simk, "weights": list(weights),
                "universe": [[list(g), [repr(x) for x in v]] for g, v in universe], "script": [list(o) for o in script], "group": group}
        dead = False
        for o in script:
            target = None
            try:
                if o[0] == "update":
                    target = o[1]
                    cur = {}
                    for (slot, ci) in o[2]:
                        g, v = universe[ci]
                        pool[slot][:] = list(g)
                        pool[slot].fitness.values = tuple(v)
                        cur[slot] = ci
                    elems = []
                    for (slot, _) in o[2]:
                        p = pool[slot]
                        elems.append((event, [int(g) for g in p], [to_int(v) for v in p.fitness.wvalues]))
                        event += 1
                        g, v = universe[cur[slot]]
                        seens[target].append((tuple(g), wfit(v)))
                    ops_terms[target].append("(OUpdate %s)" % clist([cind(*e) for e in elems]))
                    archs[target].update([pool[slot] for (slot, _) in o[2]])
                elif o[0] == "feed":
                    src, target, mode = o[1], o[2], o[3]
                    self.stats["feeds_between_archives"] += 1
                    members = list(archs[src].items)
                    if mode == "reversed":
                        members = members[::-1]
                    elems = []
                    for it in members:
                        elems.append((event, [int(g) for g in it], [to_int(v) for v in it.fitness.wvalues]))
                        event += 1
                        seens[target].append((tuple(int(g) for g in it), tuple(to_int(v) for v in it.fitness.wvalues)))
                    ops_terms[target].append("(OUpdate %s)" % clist([cind(*e) for e in elems]))
                    popn = {"archive": archs[src], "items": archs[src].items, "reversed": list(reversed(archs[src]))}[mode]
                    archs[target].update(popn)
                else:
                    target = o[1]
                    ops_terms[target].append("OClear")
                    seens[target] = []
                    archs[target].clear()
            except Exception as e:      # noqa
                viol.append(("%s raised %s" % (o[0], type(e).__name__), None))
                if target is not None:
                    obs_terms[target].append("None")
                dead = True
                break
            # read BOTH archives: an operation on one must not disturb the other
            states = []
            for w in (0, 1):
                foreign = {id(x) for x in archs[1 - w].items}
                states.append(self.read(archs[w], pool_ids, idmaps[w], alive, to_int, foreign))
            for p in pool:
                garbage += 1
                p[:] = [-7 - garbage % 3]
                p.fitness.values = garbage_vals[garbage % 2]
            for w in (0, 1):
                foreign = {id(x) for x in archs[1 - w].items}
                again = self.read(archs[w], pool_ids, idmaps[w], alive, to_int, foreign)
                ks, its = states[w]
                if again != states[w]:
                    viol.append(("archive %d changed when the submitted individuals were modified in place" % w, [states[w], again]))
                if any(c < 0 for (c, _, _) in its):
                    viol.append(("archive %d holds a submitted object or a member of the other archive instead of a deep copy" % w, its))
                A = [(tuple(g), tuple(f)) for (_, g, f) in its]
                if [tuple(k) for k in ks] != [f for (_, f) in reversed(A)]:
                    viol.append(("archive %d: keys are not the mirror image of the items' fitnesses" % w, [ks, its]))
                if any(A[i][1] < A[i + 1][1] for i in range(len(A) - 1)):
                    viol.append(("archive %d: items not in non-increasing lexicographic fitness order" % w, its))
                viol += [("archive %d: %s" % (w, what), obs)
                         for (what, obs) in self.oracle(cfgs[w][0], cfgs[w][1], simk, spec, seens[w], A)]
                if w != target and len(obs_log) and obs_log[-1][w] != [ks, its]:
                    viol.append(("archive %d changed although the operation was on the other archive" % w, [obs_log[-1][w], [ks, its]]))
            obs_terms[target].append("(Some (%s, %s))" % (clist([czl(k) for k in states[target][0]]),
                                                       clist([cind(*t) for t in states[target][1]])))
            obs_log.append([[list(states[0][0]), list(states[0][1])], [list(states[1][0]), list(states[1][1])]])
        case["observed"] = obs_log
        run.note_case(case, True)
        for (what, obs) in viol[:3]:
            run.oracle_violation("two archives: %s" % what, case, observed=obs)
        terms = []
        for w in (0, 1):
            kterm = copt(cfgs[w][1] if cfgs[w][0] == "hof" else None, cz)
            terms.append("CArch %s %s %s %s" % (kterm, simk, clist(ops_terms[w]), clist(obs_terms[w])))
        return terms, case

    @staticmethod
    def oracle(kind, m, simk, spec, seen, A):
        """The statement of C08 evaluated on the archive contents A (list of (geno, weighted fitness),
        best first) against everything shown so far.  Returns a list of (what, observed)."""
        out = []
        seen_set = set(seen)
        if any(a not in seen_set for a in A):
            out.append(("a member is not a copy of any individual shown", A))
        if kind == "hof":
            if m < 1:
                return out
            # size and pairwise distinctness do not depend on any hypothesis about fitnesses
            # (C08_hof_shape: any operator; C08_hof_distinct: any symmetric operator)
            if len(A) > m:
                out.append(("more than maxsize members", A))
            if simk in SYMMETRIC:
                if any(i != j and spec(A[i][0], A[j][0]) for i in range(len(A)) for j in range(len(A))):
                    out.append(("two members are similar", A))
            if simk not in EQUIV:
                return out
            # Appendix B item 5: similar individuals have equal fitness (else "distinct ... strictly better" is ill-defined)
            for s in seen_set:
                for t in seen_set:
                    if spec(s[0], t[0]) and s[1] != t[1]:
                        return out
            classes = []
            for s in seen:
                if not any(spec(s[0], c[0]) for c in classes):
                    classes.append(s)
            if seen and not A:
                out.append(("archive empty although individuals were shown", A))
            for s in seen_set:
                if A and not any(spec(s[0], a[0]) for a in A) and s[1] > A[-1][1]:
                    out.append(("a distinct individual that was shown is strictly better than the worst member", [s, A]))
                    break
            if len(classes) <= m:
                for s in seen_set:
                    if not any(spec(s[0], a[0]) for a in A):
                        out.append(("a distinct individual is missing although at most maxsize distinct ones were shown", [s, A]))
                        break
            best = sorted((c[1] for c in classes), reverse=True)[:m]
            if [a[1] for a in A] != best:
                out.append(("member fitnesses are not the best maxsize distinct fitnesses shown", [A, best]))
        else:
            # mutual non-domination holds for any operator (C08_pf_inv)
            if any(i != j and dom_spec(A[i][1], A[j][1]) for i in range(len(A)) for j in range(len(A))):
                out.append(("a member dominates another member", A))
            if simk not in EQUIV:
                return out
            nd = [s for s in seen_set if not any(dom_spec(t[1], s[1]) for t in seen_set)]
            for a in A:
                if a not in nd:
                    out.append(("a member is dominated by a fitness that was shown", [a, A]))
                    break
            for s in nd:
                if not any(a[1] == s[1] and spec(s[0], a[0]) for a in A):
                    out.append(("a non-dominated individual that was shown has no copy in the archive", [s, A]))
                    break
            if any(i != j and A[i][1] == A[j][1] and spec(A[i][0], A[j][0]) for i in range(len(A)) for j in range(len(A))):
                out.append(("two copies of the same individual", A))
            if simk == "SimEq" and (set(A) != set(nd) or len(set(A)) != len(A)):
                out.append(("archive is not exactly the set of distinct non-dominated individuals shown", [A, sorted(nd)]))
        return out


# ----------------------------------------------------------------------------------------------
# generators
# ----------------------------------------------------------------------------------------------
def batches_upto(nuni, maxlen):
    out = []
    for n in range(maxlen + 1):
        out += [list(t) for t in itertools.product(range(nuni), repeat=n)]
    return out


UNIVERSES = {
    # (geno, values): equal fitness with different genotype, an equal twin in a second object, strict order
    1: [[([0], (1,)), ([1], (1,)), ([2], (2,)), ([0], (1,))],
        [([0], (0,)), ([1], (1,)), ([2], (1,)), ([3], (2,))]],
    2: [[([0], (0, 1)), ([1], (1, 0)), ([2], (1, 1)), ([3], (0, 1))],
        [([0], (0, 1)), ([1], (1, 0)), ([2], (1, 1)), ([0], (0, 1))],
        [([0], (0, 0)), ([1], (0, 2)), ([2], (1, 1)), ([3], (2, 0))]],
}


def main(run):
    run.rule = ("histories of operations on HallOfFame(m) / ParetoFront(); after every operation keys and items are read, "
                "all submitted objects are overwritten in place and the archive is read again. "
                "exhaustive: every history of 3 update batches (each 0..2 individuals, with repetition) over a universe of 4 "
                "individuals (slots = objects, so re-submission is by identity), m in 1..3, 1 and 2 objectives, all weight signs "
                "(quick: all histories of <=2 batches for every configuration plus a seed-chosen sample of 100 of the 3-batch ones; "
                "thorough: all 9261 3-batch histories for the first universe of each arity, <=2 batches + 1500 sampled for 2-3 further universes); "
                "every 16th exhaustive history and every random one is also replayed on the heap-level model; random: 1..4 objectives, mixed weights, m 1..6, up to 14 batches of up "
                "to 7 individuals, tie-heavy grids, planted antichain-then-dominator patterns, similarity operators eq / first-gene / "
                "always / never / non-symmetric, universes where similar individuals carry different fitnesses (in-place re-evaluation); "
                "noncontig: 3-4 objectives, every sign mix, a newcomer dominating a non-contiguous set of positions of the sorted archive; "
                "corpus/C08_*.json first; api: update mixed with direct insert / remove(any index) / clear. "
                "distinct = full script + configuration; non-trivial = at least one non-empty update.")
    run.trusted += ["Coq 8.16.1 kernel and vm_compute",
                    "hand-written models coq/Model/C08_Archive.v (value level) and coq/Model/C08_Heap.v (objects/references/in-place writes) tied by correspondence (harness/c08.py, coq/Corr/C08.v)",
                    "CPython list index/insert/del semantics and bisect_right as modelled in Model/C08_Archive.v; tuple comparison by Base/PyTuple.v",
                    "copy.deepcopy modelled as allocation of a fresh object with equal contents (heap-level model; C08_deepcopy_independent proves the archive's view then never depends on later in-place writes); that CPython's deepcopy of an individual behaves so is observed on every case (re-read after overwriting every submitted object, object identities)",
                    "fitness values restricted to integer-valued floats (order-isomorphic to Z)"]
    run.assumptions += ["m >= 1", "similar is reflexive and symmetric; for the hall of fame similar individuals have equal fitness (DESIGN Appendix B item 5)",
                        "all fitnesses of one history have the same number of objectives; values finite"]
    run.build_props()
    # ---- tie (T): regenerate Gen/C08_gen.v from the working tree, re-prove `regenerated = model` and the theorems
    gen_check, gen_reqs, gen_unproved = tie_T(run)
    rng = run.rng
    D = Driver(run)
    groups = {}
    parts = {}
    gen_evaluated = [0]  # cases also replayed on the regenerated definitions
    failed = []          # (term, case) of disagreeing cases, for the diagnosis model / regenerated
    sample = []          # a sample of all cases, replayed on the regenerated definitions when they are not proved

    def flush(group):
        """Evaluate the accumulated cases of one group in Coq and drop them (keeps memory flat)."""
        terms, cases = groups.pop(group, ([], []))
        if not terms:
            return
        k = parts.get(group, 0)
        parts[group] = k + 1
        name = group if k == 0 else "%s_p%d" % (group, k)
        # coqc parses big literals slowly: aim at ~120 KB of case text per shard so all cores are used
        avg = max(1, sum(len(t) for t in terms) // len(terms))
        # the regenerated definitions are evaluated next to the hand model (check_both) on every case of the quick
        # tier; in the thorough tier the later parts of the large exhaustive groups use the hand model alone (the two
        # are proved equal, evaluating both costs ~13 % more CPU on 300 000 further histories)
        both = gen_check == "check_both" and not (run.thorough and group.startswith("exh") and k > 0)
        bad = run.correspond(name, "C08", terms, cases, shard=max(20, min(400, 120000 // avg)),
                             check=gen_check if both else "check", requires=gen_reqs if both else [])
        gen_evaluated[0] += len(terms) if both else 0
        for i in bad[:50]:
            if len(failed) < 200:
                failed.append((terms[i], cases[i]))
        if gen_unproved and len(sample) < 3000:
            step = max(1, len(terms) // 400)
            sample.extend(zip(terms[::step], cases[::step]))
        if name != group:                      # merge the statistics under the group's name
            st = run.corr_groups.pop(name)
            tot = run.corr_groups.setdefault(group, {"cases": 0, "disagree": 0, "errors": 0})
            for key in st:
                tot[key] += st[key]

    def add(group, term, case):
        groups.setdefault(group, ([], []))
        groups[group][0].append(term)
        # keep the diagnostics small: the observation log is only needed in replays of oracle violations
        groups[group][1].append({k: v for k, v in case.items() if k != "observed"})
        if len(groups[group][0]) >= 8000:
            flush(group)

    # ---------------- corpus: past misses, run first ----------------
    import glob
    import json
    import os
    import vlib
    corpus_files = [] if os.environ.get("C08_NO_CORPUS") else sorted(glob.glob(os.path.join(vlib.VERIF, "corpus", "C08*.json")))
    for path in corpus_files:          # (C08_NO_CORPUS=1 is only used by the self-test to judge the generators alone)
        for c in json.load(open(path)):
            script = []
            for o in c["script"]:
                if o[0] == "update":
                    script.append(("update", [tuple(e) for e in o[1]]))
                elif o[0] == "insert":
                    script.append(("insert", tuple(o[1])))
                elif o[0] == "remove":
                    script.append(("remove", o[1]))
                else:
                    script.append(("clear",))
            uni = [(list(g), tuple(v)) for g, v in c["universe"]]
            term, hterm, case = D.drive(c["kind"], c.get("maxsize"), c["similar"], tuple(c["weights"]), uni, script, "corpus")
            add("corpus", term, case)
            add("corpus_heap", hterm, case)

    # ---------------- exhaustive small scope ----------------
    single = batches_upto(4, 2)          # 21 batches
    sign_vectors = {1: [(1,), (-1,)], 2: list(itertools.product([1, -1], repeat=2))}

    def script_of(hist):
        return [("update", [(u, u) for u in b]) for b in hist]

    configs = []
    for nobj in (1, 2):
        unis = UNIVERSES[nobj] if run.thorough else UNIVERSES[nobj][:1]
        for ui, uni in enumerate(unis):
            for w in sign_vectors[nobj]:
                for m in (1, 2, 3):
                    configs.append(("hof", m, w, uni, ui))
                configs.append(("pf", None, w, uni, ui))
    hist2 = [[a, b] for a in single for b in single]
    hist3 = [[a, b, c] for a in single for b in single for c in single]
    nexh = 0
    for (kind, m, w, uni, ui) in configs:
        if run.thorough and ui == 0:
            hs = hist3                           # every history of 3 batches (prefixes are observed too)
        elif run.thorough:
            hs = hist2 + rng.sample(hist3, 1500)
        else:
            hs = hist2 + rng.sample(hist3, 100)
        for h in hs:
            term, hterm, case = D.drive(kind, m, "SimEq", w, uni, script_of(h), "exh")
            add("exh", term, case)
            nexh += 1
            if nexh % 16 == 0:                   # heap-level replay of every 16th exhaustive history
                add("exh_heap", hterm, case)

    # ---------------- random histories ----------------
    PLANT = [None]
    WIDE = [False]       # search beyond the sizes of the regular generators (only after the tie (T) broke)

    def rand_universe(nobj, simk, honest):
        k = rng.randint(2, 9)
        hi = rng.choice([1, 1, 2, 2, 3, 6])
        if WIDE[0]:
            k = rng.randint(8, 70)
            hi = rng.choice([3, 6, 12, 40])
        uni = []
        heads = {}
        for j in range(k):
            if simk in ("SimHead", "SimLe"):
                g = [rng.randint(0, 3), rng.randint(0, 2)]
                cls = g[0]
            elif simk == "SimAlways":
                g = [j]
                cls = 0
            else:
                g = [rng.randint(0, max(1, k - 2))] if rng.random() < 0.5 else [j]
                cls = tuple(g)
            if honest and cls in heads:
                v = heads[cls]                     # fitness is a function of the similarity class
            else:
                v = tuple(rng.randint(0, hi) for _ in range(nobj))
                heads.setdefault(cls, v)
            uni.append((g, v))
        return uni

    def rand_script(nuni, nslots, nops, maxbatch, api):
        script = []
        for _ in range(nops):
            r = rng.random()
            if api and r < 0.2:
                script.append(("insert", (rng.randrange(nslots), rng.randrange(nuni))))
            elif api and r < 0.45:
                script.append(("remove", rng.choice([-1, -1, 0, 0, 1, 2, -2, -3, 3, 5, -6, 7,
                                                     "first", "last", "neg_first", "past", "neg_past"])))
                if WIDE[0] and rng.random() < 0.7:
                    script[-1] = ("remove", rng.randint(-70, 70))
            elif (api and r < 0.5) or (not api and r < 0.03):
                script.append(("clear",))
            else:
                n = rng.choice([0, 1, 1, 2, 2, 3, 3, 4, maxbatch])
                if WIDE[0]:
                    n = rng.randint(0, maxbatch)
                script.append(("update", [(rng.randrange(nslots), rng.randrange(nuni)) for _ in range(n)]))
        return script

    def rand_case():
        kind = "hof" if rng.random() < 0.5 else "pf"
        nobj = rng.choice([1, 2, 2, 3, 3, 4, 4])
        weights = tuple(rng.choice([1, -1]) * rng.choice([1, 1, 2]) for _ in range(nobj))
        simk = rng.choice(["SimEq"] * 5 + ["SimHead"] * 3 + ["SimAlways", "SimNever", "SimLe"])
        honest = rng.random() < 0.8
        uni = rand_universe(nobj, simk, honest)
        m = rng.choice([1, 1, 2, 2, 3, 3, 4, 5, 6])
        nslots = rng.randint(1, 5)
        if WIDE[0]:
            m = rng.choice([rng.randint(1, 12), rng.randint(5, 64)])
            nslots = rng.randint(1, 64)
            script = rand_script(len(uni), nslots, rng.randint(1, 12), rng.choice([8, 20, 64]), api=rng.random() < 0.3)
            return kind, m, simk, weights, uni, script
        script = rand_script(len(uni), nslots, rng.randint(1, 14), 7, api=False)
        return kind, m, simk, weights, uni, script

    def rand_opts(simk):
        cls = rng.choice(["plain"] * 4 + ["creator"] * 3 + ["array_d", "array_i", "numpy", "numpy32"])
        return {"cls": cls, "fitbase": rng.choice(["Fitness"] * 3 + ["ConstrainedFitness"]),
                "ctor": rng.choice(["kw", "pos"])}

    def with_ptypes(kind, script):
        out = []
        for o in script:
            if o[0] == "update" and rng.random() < 0.4:
                out.append(("update", o[1], rng.choice(["tuple", "iter"] if kind == "pf" else ["tuple"])))
            else:
                out.append(o)
        return out

    nrand = run.scale(1000, 15000)
    for it in range(nrand):
        kind, m, simk, weights, uni, script = rand_case()
        term, hterm, case = D.drive(kind, m, simk, weights, uni, with_ptypes(kind, script), "rand", opts=rand_opts(simk))
        add("rand", term, case)
        add("rand_heap", hterm, case)

    def search(run_):
        """Extra counterexample search on the implementation alone (only when something broke)."""
        import time
        t_end = time.time() + run_.scale(60, 600)
        while time.time() < t_end and not run_.oracle_viol:
            kind, m, simk, weights, uni, script = rand_case()
            if simk not in EQUIV:
                simk = "SimEq"
            D.drive(kind, m, simk, weights, uni, script + rand_script(len(uni), 5, rng.randint(1, 20), 9, api=False), "search")
        if not run_.oracle_viol and gen_unproved:
            # a regenerated definition that is no longer the model may differ from it only beyond the sizes the
            # regular generators reach (a threshold on maxsize, the archive size, the batch size, the index)
            WIDE[0] = True
            try:
                t_end = time.time() + run_.scale(90, 600)
                n = 0
                while time.time() < t_end and not run_.oracle_viol:
                    if n % 3 == 2 and PLANT[0] is not None:
                        # a long antichain, then newcomers dominating many members at once
                        kind, m, weights, uni, script = PLANT[0](14, 60)
                        D.drive(kind, rng.randint(1, 64), "SimEq", weights, uni, script, "search_wide")
                    else:
                        kind, m, simk, weights, uni, script = rand_case()
                        if simk not in EQUIV:
                            simk = "SimEq"
                        D.drive(kind, m, simk, weights, uni, script, "search_wide")
                    n += 1
                run_.notes.append("wide search (maxsize up to 64, batches up to 64, universes up to 70): %d histories" % n)
            finally:
                WIDE[0] = False
    run.search_fn = search

    # planted: an antichain is shown first, then individuals dominating several members at once
    def plant_case(klo=2, khi=5):
        nobj = rng.choice([2, 2, 3, 4])
        weights = tuple(rng.choice([1, -1]) for _ in range(nobj))
        k = rng.randint(klo, khi)
        uni = []
        for j in range(k):                        # antichain on the first two objectives (weighted)
            v = [0] * nobj
            v[0], v[1] = j * weights[0], (k - 1 - j) * weights[1]
            uni.append(([j], tuple(v)))
        for j in range(rng.randint(1, 3)):        # dominators of a random sub-range (usually >= 2 members)
            a = rng.randint(0, k - 1)
            b = rng.randint(a, k - 1)
            if a == b and k >= 2 and rng.random() < 0.7:
                a, b = (a - 1, b) if a > 0 else (a, b + 1)
            v = [0] * nobj
            v[0], v[1] = b * weights[0], (k - 1 - a) * weights[1]
            if rng.random() < 0.5:
                v[-1] = rng.choice([0, 1]) * weights[-1]
            uni.append(([100 + j], tuple(v)))
        order = list(range(k))
        rng.shuffle(order)
        shown = order if rng.random() < 0.7 else order[:rng.randint(1, k)]
        script = [("update", [(j, u) for j, u in enumerate(shown)])]
        for _ in range(rng.randint(1, 4)):
            script.append(("update", [(rng.randrange(5), rng.choice([rng.randrange(len(uni)), k + rng.randrange(len(uni) - k)]))
                                      for _ in range(rng.randint(0, 4))]))
        kind = "pf" if rng.random() < 0.7 else "hof"
        return kind, rng.randint(1, 4), weights, uni, script
    PLANT[0] = plant_case

    for it in range(run.scale(150, 3000)):
        kind, m, weights, uni, script = plant_case()
        term, hterm, case = D.drive(kind, m, "SimEq", weights, uni, script, "plant")
        add("plant", term, case)
        add("plant_heap", hterm, case)

    # noncontig: 3-4 objectives, every weight-sign mix in turn; an archive of 3..6 mutually non-dominated
    # members, then a newcomer built to dominate a NON-CONTIGUOUS set of positions of the sorted archive
    # (componentwise maximum of the chosen members plus a bump, checked not to dominate the others)
    sign_cycle = itertools.cycle([w for n in (3, 4) for w in itertools.product([1, -1], repeat=n)])
    for it in range(run.scale(250, 4000)):
        weights = next(sign_cycle)
        nobj = len(weights)
        built = None
        for attempt in range(60):
            pts = []
            for _ in range(300):
                if len(pts) >= rng.randint(3, 6):
                    break
                c = tuple(rng.randint(0, rng.choice([3, 5, 9])) for _ in range(nobj))
                if c in pts or any(dom_spec(c, q) or dom_spec(q, c) for q in pts):
                    continue
                pts.append(c)
            if len(pts) < 3:
                continue
            order = sorted(pts, reverse=True)              # positions in the archive (weighted, best first)
            n = len(order)
            idx = sorted(rng.sample(range(n), rng.randint(2, n - 1)))
            if idx[-1] - idx[0] + 1 == len(idx):
                continue                                   # contiguous
            newc = [max(order[i][k] for i in idx) for k in range(nobj)]
            newc[rng.randrange(nobj)] += 1
            newc = tuple(newc)
            if any(dom_spec(newc, order[i]) for i in range(n) if i not in idx):
                continue
            built = (pts, newc)
            break
        if built is None:                                  # fall back to the known witness shape
            weights = (1, 1, 1)
            built = ([(3, 2, 0), (2, 9, 0), (1, 1, 1)], (4, 3, 1))
        pts, newc = built
        to_vals = lambda c: tuple(x * w for x, w in zip(c, weights))     # weights are +-1
        uni = [([j], to_vals(c)) for j, c in enumerate(pts)] + [([50], to_vals(newc))]
        for j in range(rng.randint(0, 2)):
            uni.append(([60 + j], to_vals(tuple(rng.randint(0, 5) for _ in range(len(weights))))))
        members = list(range(len(pts)))
        rng.shuffle(members)
        cut = rng.randint(1, len(members))
        script = [("update", [(j, u) for j, u in enumerate(members[:cut])])]
        if members[cut:]:
            script.append(("update", [(j, u) for j, u in enumerate(members[cut:])]))
        extra = [(rng.randrange(5), rng.randrange(len(uni))) for _ in range(rng.randint(0, 2))]
        batch = [(0, len(pts))] + [(1 + e[0] % 4, e[1]) for e in extra]
        if rng.random() < 0.5:
            rng.shuffle(batch)
        script.append(("update", batch))
        if rng.random() < 0.4:
            script.append(("update", [(rng.randrange(5), rng.randrange(len(uni))) for _ in range(rng.randint(1, 3))]))
        kind = "pf" if rng.random() < 0.85 else "hof"
        term, hterm, case = D.drive(kind, rng.randint(2, 6), "SimEq", weights, uni, script, "noncontig")
        add("noncontig", term, case)
        add("noncontig_heap", hterm, case)

    # ---------------- hardening round: value domains (class 3) ----------------
    import math
    import numpy

    def value_pool(domain):
        if domain == "ulp":
            b = rng.choice([1.0, 0.1, 1e9, 1e-9, -3.5, 1e100])
            vals = [b]
            for _ in range(rng.randint(2, 5)):
                vals.append(math.nextafter(vals[-1], math.inf))
            return vals
        if domain == "offset":
            return [1e9 + j * 1e-3 for j in range(-2, 4)]
        if domain == "tiny":
            return [j * 1e-9 for j in range(-2, 4)] + [5e-324, -5e-324]
        if domain == "huge":
            b = rng.choice([2 ** 53, 2 ** 60, -2 ** 53, 2 ** 100])
            return [b + j for j in (-2, -1, 0, 1, 2, 3)]          # Python ints: several collapse as floats
        if domain == "zero":
            return [0, 0.0, -0.0, 1, -1, 1e-320]
        if domain == "mixed":
            # types that compare exactly with each other (no float32 here: under numpy's promotion rules
            # np.float32(0.1) == 0.1 although float(np.float32(0.1)) > 0.1, i.e. not a total order)
            return [1, 1.0, numpy.float64(1.0), numpy.int64(1), True, 2, numpy.float64(2.5), 2.5, 0.1, numpy.int64(3)]
        if domain == "f32":
            b = numpy.float32(rng.choice([0.1, 1.0, 2.5, 1e6]))
            vals = [b]
            for _ in range(rng.randint(2, 4)):
                vals.append(numpy.nextafter(vals[-1], numpy.float32(numpy.inf)))
            return vals                                         # one objective = one dtype
        raise KeyError(domain)

    for it in range(run.scale(400, 6000)):
        nobj = rng.choice([1, 1, 2, 2, 3])
        domain = rng.choice(["ulp", "ulp", "offset", "tiny", "huge", "zero", "mixed", "mixed", "f32"])
        pools = [value_pool(domain) for _ in range(nobj)]
        weights = tuple(rng.choice([1.0, -1.0, 0.5, -3.0, 1e-3, -1e3, 2.0, -1.0, 1.0]) for _ in range(nobj))
        simk = rng.choice(["SimEq", "SimEq", "SimHead"])
        k = rng.randint(3, 8)
        uni, cls_fit = [], {}
        for j in range(k):
            g = [rng.randint(0, 3), rng.randint(0, 1)]
            c = tuple(g) if simk == "SimEq" else g[0]
            if c not in cls_fit or rng.random() < 0.15:
                cls_fit[c] = tuple(rng.choice(pools[o]) for o in range(nobj))
            uni.append((g, cls_fit[c]))
        kind = "hof" if rng.random() < 0.5 else "pf"
        script = rand_script(len(uni), rng.randint(1, 4), rng.randint(1, 10), 5, api=False)
        term, hterm, case = D.drive(kind, rng.choice([1, 2, 2, 3, 4]), simk, weights, uni, with_ptypes(kind, script), "vals",
                                    opts={"cls": rng.choice(["plain", "creator", "array_d", "numpy"]),
                                          "fitbase": rng.choice(["Fitness", "Fitness", "ConstrainedFitness"])})
        add("vals", term, case)
        add("vals_heap", hterm, case)

    # ---------------- hardening round: one archive object over long call sequences (class 1) ----------------
    # update -> clear / remove / insert / archive.maxsize = k / archive.similar = f -> update again ...
    for it in range(run.scale(400, 6000)):
        kind = "hof" if rng.random() < 0.6 else "pf"
        nobj = rng.choice([1, 2, 2, 3])
        weights = tuple(rng.choice([1, -1]) for _ in range(nobj))
        simk = rng.choice(["SimEq", "SimHead"])
        k = rng.randint(3, 8)
        hi = rng.choice([1, 2, 3])
        uni, fit_of = [], {}
        for j in range(k):
            g = [rng.randint(0, 2), rng.randint(0, 2)]
            c = tuple(g) if rng.random() < 0.6 else g[0]      # mostly a function of the whole genotype
            if c not in fit_of:
                fit_of[c] = tuple(rng.randint(0, hi) for _ in range(nobj))
            uni.append((g, fit_of[c]))
        nslots = rng.randint(1, 4)
        reconf = rng.random() < 0.6
        script = []
        for _ in range(rng.randint(3, 12)):
            r = rng.random()
            if r < 0.55:
                script.append(("update", [(rng.randrange(nslots), rng.randrange(k)) for _ in range(rng.choice([0, 1, 2, 3, 5]))]))
            elif r < 0.65:
                script.append(("clear",))
            elif r < 0.77:
                script.append(("remove", rng.choice(["first", "last", "neg_last", "neg_first", "past", "neg_past", 1, -2])))
            elif r < 0.82:
                script.append(("insert", (rng.randrange(nslots), rng.randrange(k))))
            elif reconf and kind == "hof" and r < 0.92:
                script.append(("setmax", rng.choice([1, 2, 3, 4, 6, 0])))
            elif reconf:
                script.append(("setsim", rng.choice(["SimEq", "SimHead"])))
        term, hterm, case = D.drive(kind, rng.choice([1, 2, 3, 4]), simk, weights, uni, script, "seq")
        add("seq", term, case)
        if hterm is not None:
            add("seq_heap", hterm, case)

    # ---------------- hardening round: two archives, same objects, fed from each other (classes 1, 2) ----------------
    for it in range(run.scale(250, 4000)):
        nobj = rng.choice([1, 2, 2, 3])
        weights = tuple(rng.choice([1, -1]) for _ in range(nobj))
        simk = rng.choice(["SimEq", "SimEq", "SimHead", "SimAlways"])
        uni = rand_universe(nobj, simk, True)
        cfgs = rng.choice([[("hof", rng.randint(1, 4)), ("pf", None)], [("hof", rng.randint(1, 3)), ("hof", rng.randint(2, 5))],
                           [("pf", None), ("pf", None)], [("pf", None), ("hof", rng.randint(1, 4))]])
        nslots = rng.randint(1, 4)
        script = []
        for _ in range(rng.randint(2, 10)):
            r = rng.random()
            if r < 0.6:
                script.append(("update", rng.randrange(2), [(rng.randrange(nslots), rng.randrange(len(uni))) for _ in range(rng.choice([0, 1, 2, 3, 4]))]))
            elif r < 0.92:
                script.append(("feed", rng.randrange(2), rng.randrange(2), rng.choice(["archive", "items", "reversed"])))
            else:
                script.append(("clear", rng.randrange(2)))
        terms, case = D.drive_pair(cfgs, simk, weights, uni, script, "pair")
        for t in terms:
            add("pair", t, case)

    # api: direct insert / remove / clear mixed with updates, and maxsize 0
    for it in range(run.scale(300, 5000)):
        kind = "hof" if rng.random() < 0.5 else "pf"
        nobj = rng.choice([1, 2, 3])
        weights = tuple(rng.choice([1, -1]) for _ in range(nobj))
        simk = rng.choice(["SimEq", "SimEq", "SimHead", "SimNever"])
        uni = rand_universe(nobj, simk, True)
        m = rng.choice([0, 1, 2, 3, 4])
        script = rand_script(len(uni), rng.randint(1, 4), rng.randint(1, 10), 5, api=True)
        term, hterm, case = D.drive(kind, m, simk, weights, uni, script, "api")
        add("api", term, case)
        add("api_heap", hterm, case)

    for g in list(groups):
        flush(g)
    run.extra_cov["events_observed"] = dict(D.stats)
    run.extra_cov["cases_also_evaluated_on_regenerated_definitions"] = gen_evaluated[0]

    # ---- tie (T) diagnosis: which of the two executable descriptions disagrees with the implementation? -------
    def replay(name, pairs, check, reqs):
        """number of cases of `pairs` on which `check` fails (None: did not run); statistics are not kept"""
        traces, ndis = run.traces, len(run.disagreements)
        try:
            avg = max(1, sum(len(t) for t, _ in pairs) // len(pairs))
            bad = run.correspond(name, "C08", [t for t, _ in pairs], [c for _, c in pairs],
                                 shard=max(20, min(400, 120000 // avg)), check=check, requires=reqs)
            errs = run.corr_groups.get(name, {}).get("errors")
            return None if errs else len(bad)
        except Exception as e:  # noqa
            run.notes.append("diagnosis step %s failed: %r" % (name, e))
            return None
        finally:
            run.traces = traces
            del run.disagreements[ndis:]
            run.corr_groups.pop(name, None)

    if gen_check == "check_both" and failed:
        nm = replay("diagnosis_model", failed, "check", [])
        ng = replay("diagnosis_regenerated", failed, "check_gen", gen_reqs)
        run.notes.append("diagnosis: of %d disagreeing cases the hand model disagrees on %s, the regenerated definitions on %s"
                         % (len(failed), nm, ng))
    elif gen_unproved and sample:
        # translated but not provably the model: do the regenerated definitions at least agree with the implementation?
        ok_, out = vlib.make_targets(["Corr/C08_gen.vo"])
        if ok_:
            ng = replay("diagnosis_regenerated", sample, "check_gen", ["From DV Require Import Corr.C08_gen."])
            run.notes.append("diagnosis: the regenerated definitions (not provably equal to the model) disagree with the "
                             "implementation on %s of %d sampled cases" % (ng, len(sample)))
            run.extra_cov["regenerated_vs_implementation"] = {"sampled": len(sample), "disagree": ng}
        else:
            run.notes.append("diagnosis: the regenerated definitions do not compile: " + out[-400:])
