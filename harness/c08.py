"""C08 — Hall of fame and Pareto archive (deap/tools/support.py: HallOfFame, ParetoFront).

Every history is run on the real classes.  After EVERY operation the harness reads keys/items,
then overwrites all individuals it ever submitted in place (list contents and fitness values)
and reads the archive again (deep-copy independence).  The property statement is evaluated
directly on what the implementation holds (oracle, independent of the Coq model) and the
observed trace is replayed on the model inside coqc (Corr/C08.v).
"""
import itertools
import operator

from vlib import cz, czl, clist, copt, cnat

SIMKINDS = ["SimEq", "SimHead", "SimNever", "SimAlways", "SimLe"]
EQUIV = ("SimEq", "SimHead", "SimAlways")        # reflexive + symmetric + transitive operators
SYMMETRIC = EQUIV + ("SimNever",)


def sim_spec(kind):
    """The similarity operators on plain genotype lists (the oracle's own copy)."""
    return {"SimEq": lambda a, b: list(a) == list(b),
            "SimHead": lambda a, b: a[0] == b[0],
            "SimNever": lambda a, b: False,
            "SimAlways": lambda a, b: True,
            "SimLe": lambda a, b: a[0] <= b[0]}[kind]


def sim_impl(kind):
    """What is handed to the constructor (None = leave the default operator.eq)."""
    return {"SimEq": None,
            "SimHead": lambda a, b: a[0] == b[0],
            "SimNever": lambda a, b: False,
            "SimAlways": lambda a, b: True,
            "SimLe": lambda a, b: a[0] <= b[0]}[kind]


def dom_spec(a, b):
    return all(x >= y for x, y in zip(a, b)) and any(x > y for x, y in zip(a, b))


def cind(tag, geno, wv):
    return "(mkind %s %s %s)" % (cz(tag), czl(geno), czl(wv))


class Driver:
    """Runs one history on DEAP, observes, evaluates the oracle, builds the Coq term."""

    def __init__(self, run):
        from deap import base, tools
        self.run = run
        self.base, self.tools = base, tools
        self.fitclasses = {}
        self.indclasses = {}
        self.stats = {"hof_evictions": 0, "pf_removed_2_or_more": 0, "pf_removed_noncontiguous": 0,
                      "similar_resubmitted_with_other_fitness": 0, "calls_that_raised": 0}

    def fitcls(self, w):
        w = tuple(w)
        if w not in self.fitclasses:
            self.fitclasses[w] = type("FitC08_%d" % len(self.fitclasses), (self.base.Fitness,),
                                      {"weights": tuple(float(x) for x in w)})
        return self.fitclasses[w]

    def new_ind(self, w, use_creator=False):
        w = tuple(w)
        key = (w, use_creator)
        if key not in self.indclasses:
            if use_creator:
                # the usual way DEAP users build individuals: creator.create(...)
                from deap import creator
                k = len(self.indclasses)
                creator.create("FitC08c_%d" % k, self.base.Fitness, weights=tuple(float(x) for x in w))
                creator.create("IndC08c_%d" % k, list, fitness=getattr(creator, "FitC08c_%d" % k))
                self.indclasses[key] = getattr(creator, "IndC08c_%d" % k)
            else:
                F = self.fitcls(w)

                class Ind(list):
                    def __init__(self, *a):
                        list.__init__(self, *a)
                        self.fitness = F()
                Ind.__name__ = Ind.__qualname__ = "IndC08_%d" % len(self.indclasses)
                self.indclasses[key] = Ind
        return self.indclasses[key]()

    @staticmethod
    def to_int(x):
        y = int(x)
        if y != x:
            raise ValueError("non-integer weighted value %r" % (x,))
        return y

    def read(self, arch, pool_ids, idmap, alive):
        """(keys as int tuples, items as (canonical id, geno, wvalues))."""
        ks = [[self.to_int(v) for v in k.wvalues] for k in arch.keys]
        its = []
        for it in arch.items:
            i = id(it)
            if i in pool_ids:
                c = -1 - pool_ids[i]              # an archive member IS a submitted object
            else:
                if i not in idmap:
                    idmap[i] = len(idmap)
                    alive.append(it)              # keep alive: ids are never reused
                c = idmap[i]
            its.append((c, [int(g) for g in it], [self.to_int(v) for v in it.fitness.wvalues]))
        return ks, its

    def drive(self, kind, m, simk, weights, universe, script, group, use_creator=False):
        """kind: 'hof' | 'pf'; universe: list of (geno, values); script: list of ops
        ('update', [(slot, content)...]) | ('insert', (slot, content)) | ('remove', i) | ('clear',).
        Returns (term, case)."""
        run, tools = self.run, self.tools
        simf = sim_impl(simk)
        if kind == "hof":
            arch = tools.HallOfFame(m) if simf is None else tools.HallOfFame(m, similar=simf)
        else:
            arch = tools.ParetoFront() if simf is None else tools.ParetoFront(similar=simf)
        nslots = 1 + max([s for o in script if o[0] == "update" for (s, _) in o[1]] +
                         [o[1][0] for o in script if o[0] == "insert"] + [0])
        pool = [self.new_ind(weights, use_creator) for _ in range(nslots)]
        pool_ids = {id(p): k for k, p in enumerate(pool)}
        pool_fit_ids = {id(p.fitness) for p in pool}
        idmap, alive = {}, []
        spec = sim_spec(simk)
        wfit = lambda vals: tuple(int(v * w) for v, w in zip(vals, weights))
        seen = []                 # snapshots (geno tuple, weighted fitness) of everything shown since the last clear
        pure = True               # only update/clear so far -> the full statement applies
        ops_terms, obs_terms, obs_log = [], [], []
        hops, hobs = [], []       # heap-level history: every in-place overwrite and every call
        event = 0
        garbage = 0
        case = {"kind": kind, "maxsize": m, "similar": simk, "weights": list(weights),
                "universe": [[list(g), list(v)] for g, v in universe], "script": [list(o) for o in script], "group": group,
                "creator_classes": bool(use_creator)}
        viol = []

        def note_hset(slot):
            p = pool[slot]
            hops.append("(HSet %s (mkobj %s %s))" % (cnat(slot), czl([int(g) for g in p]),
                                                    czl([self.to_int(v) for v in p.fitness.wvalues])))
            hobs.append("None")

        def set_content(slot, ci):
            g, v = universe[ci]
            pool[slot][:] = list(g)
            pool[slot].fitness.values = tuple(float(x) for x in v)
            note_hset(slot)

        def scramble():
            nonlocal garbage
            for k, p in enumerate(pool):
                garbage += 1
                p[:] = [-7 - garbage % 3]
                sign = 1 if garbage % 2 else -1
                p.fitness.values = tuple(float(sign * 1000 * (1 if w > 0 else -1)) for w in weights)
                note_hset(k)

        raised = False
        prev_ids = []
        for o in script:
            if o[0] == "update":
                for (slot, ci) in o[1]:
                    set_content(slot, ci)      # in-place modification of a (re-)submitted object
                batch = [pool[slot] for (slot, _) in o[1]]
                elems = []
                for (slot, ci) in o[1]:
                    p = pool[slot]
                    # contents as the implementation sees them at submission time (a slot listed twice
                    # with different contents holds the last one: same object)
                    elems.append((event, [int(g) for g in p], [self.to_int(v) for v in p.fitness.wvalues]))
                    event += 1
                ops_terms.append("(OUpdate %s)" % clist([cind(*e) for e in elems]))
                hops.append("(HUpdate %s)" % clist([cnat(slot) for (slot, _) in o[1]]))
                cur = {}
                for (slot, ci) in o[1]:
                    cur[slot] = ci
                for (slot, _) in o[1]:              # what was shown, from the script alone
                    g, v = universe[cur[slot]]
                    snap = (tuple(g), wfit(v))
                    if any(spec(snap[0], t[0]) and t[1] != snap[1] for t in seen):
                        self.stats["similar_resubmitted_with_other_fitness"] += 1
                    seen.append(snap)
                try:
                    arch.update(batch)
                except Exception as e:      # noqa
                    raised = type(e).__name__
            elif o[0] == "insert":
                slot, ci = o[1]
                set_content(slot, ci)
                p = pool[slot]
                ops_terms.append("(OInsert %s)" % cind(event, [int(g) for g in p], [self.to_int(v) for v in p.fitness.wvalues]))
                event += 1
                pure = False
                hops.append("(HInsert %s)" % cnat(slot))
                try:
                    arch.insert(p)
                except Exception as e:      # noqa
                    raised = type(e).__name__
            elif o[0] == "remove":
                ops_terms.append("(ORemove %s)" % cz(o[1]))
                hops.append("(HRemove %s)" % cz(o[1]))
                pure = False
                try:
                    arch.remove(o[1])
                except Exception as e:      # noqa
                    raised = type(e).__name__
            else:
                ops_terms.append("OClear")
                hops.append("HClear")
                seen = []
                try:
                    arch.clear()
                except Exception as e:      # noqa
                    raised = type(e).__name__
            if raised:
                self.stats["calls_that_raised"] += 1
                obs_terms.append("None")
                hobs.append("(Some None)")
                obs_log.append("raise " + raised)
                if pure and (kind == "pf" or m >= 1):
                    viol.append(("update raised %s" % raised, None))
                break
            try:
                ks, its = self.read(arch, pool_ids, idmap, alive)
                before = (ks, its)
                cstate = lambda st: "(Some (Some (%s, %s)))" % (clist([czl(k) for k in st[0]]), clist([cind(*t) for t in st[1]]))
                hobs.append(cstate(before))
                scramble()
                after = self.read(arch, pool_ids, idmap, alive)
                hobs[-1] = cstate(after)       # observation after the last in-place overwrite
                fit_alias = [k for k, it in enumerate(arch.items) if id(it.fitness) in pool_fit_ids]
                key_alias = [k for k, kk in enumerate(arch.keys) if id(kk) in pool_fit_ids]
                # the public list-like interface shows the same members
                n = len(arch)
                iface_ok = (n == len(arch.items) and [id(x) for x in arch] == [id(x) for x in arch.items]
                            and [id(arch[k]) for k in range(n)] == [id(x) for x in arch.items]
                            and [id(x) for x in reversed(arch)] == [id(x) for x in reversed(arch.items)]
                            and (n == 0 or arch[-1] is arch.items[-1]))
            except Exception as e:          # noqa  (e.g. archive left holding invalid fitnesses)
                viol.append(("archive unreadable after the operation: %s" % type(e).__name__, None))
                while len(hobs) < len(hops):
                    hobs.append("None")
                obs_terms.append("None")
                obs_log.append("unreadable")
                break
            obs_terms.append("(Some (%s, %s))" % (clist([czl(k) for k in ks]), clist([cind(*t) for t in its])))
            obs_log.append([ks, its])
            ids_now = [c for (c, _, _) in its]
            lost_pos = [k for k, c in enumerate(prev_ids) if c not in ids_now]
            if o[0] == "update" and lost_pos:
                if kind == "hof":
                    self.stats["hof_evictions"] += 1
                elif len(lost_pos) >= 2:
                    self.stats["pf_removed_2_or_more"] += 1
                    if lost_pos[-1] - lost_pos[0] + 1 != len(lost_pos):      # positions in the archive before the call
                        self.stats["pf_removed_noncontiguous"] += 1
            prev_ids = ids_now
            # ---------------- oracle: the property statement on the implementation ----------------
            if not iface_ok:
                viol.append(("len / iteration / indexing / reversed disagree with the item list", its))
            if after != before:
                viol.append(("archive changed when the submitted individuals were modified in place", [before, after]))
            if any(c < 0 for (c, _, _) in its) or fit_alias or key_alias:
                viol.append(("archive holds a submitted object (or its fitness) instead of a deep copy", its))
            A = [(tuple(g), tuple(f)) for (_, g, f) in its]
            if [tuple(k) for k in ks] != [f for (_, f) in reversed(A)]:
                viol.append(("keys are not the mirror image of the items' fitnesses", [ks, its]))
            if any(A[i][1] < A[i + 1][1] for i in range(len(A) - 1)):
                viol.append(("items not in non-increasing lexicographic fitness order", its))
            if pure:
                viol += self.oracle(kind, m, simk, spec, seen, A)
        if len(set(len(f) for (_, f) in seen)) > 1:
            raise RuntimeError("generator produced fitnesses of different lengths")
        case["observed"] = obs_log
        nontrivial = any(o[0] == "update" and o[1] for o in script)
        run.note_case(case, nontrivial, sample=case if (len(run.samples) < 6 and len(script) >= 2 and run.evaluations % 211 == 7) else None)
        for (what, obs) in viol[:3]:
            run.oracle_violation("%s: %s" % ("HallOfFame" if kind == "hof" else "ParetoFront", what), case, observed=obs)
        kterm = copt(m if kind == "hof" else None, cz)
        term = "CArch %s %s %s %s" % (kterm, simk, clist(ops_terms), clist(obs_terms))
        assert len(hops) == len(hobs), (len(hops), len(hobs))
        hterm = "CHeap %s %s %s %s %s" % (kterm, simk, cnat(nslots), clist(hops), clist(hobs))
        return term, hterm, case

    @staticmethod
    def oracle(kind, m, simk, spec, seen, A):
        """The statement of C08 evaluated on the archive contents A (list of (geno, weighted fitness),
        best first) against everything shown so far.  Returns a list of (what, observed)."""
        out = []
        seen_set = set(seen)
        if any(a not in seen_set for a in A):
            out.append(("a member is not a copy of any individual shown", A))
        if kind == "hof":
            if m < 1:
                return out
            # size and pairwise distinctness do not depend on any hypothesis about fitnesses
            # (C08_hof_shape: any operator; C08_hof_distinct: any symmetric operator)
            if len(A) > m:
                out.append(("more than maxsize members", A))
            if simk in SYMMETRIC:
                if any(i != j and spec(A[i][0], A[j][0]) for i in range(len(A)) for j in range(len(A))):
                    out.append(("two members are similar", A))
            if simk not in EQUIV:
                return out
            # Appendix B item 5: similar individuals have equal fitness (else "distinct ... strictly better" is ill-defined)
            for s in seen_set:
                for t in seen_set:
                    if spec(s[0], t[0]) and s[1] != t[1]:
                        return out
            classes = []
            for s in seen:
                if not any(spec(s[0], c[0]) for c in classes):
                    classes.append(s)
            if seen and not A:
                out.append(("archive empty although individuals were shown", A))
            for s in seen_set:
                if A and not any(spec(s[0], a[0]) for a in A) and s[1] > A[-1][1]:
                    out.append(("a distinct individual that was shown is strictly better than the worst member", [s, A]))
                    break
            if len(classes) <= m:
                for s in seen_set:
                    if not any(spec(s[0], a[0]) for a in A):
                        out.append(("a distinct individual is missing although at most maxsize distinct ones were shown", [s, A]))
                        break
            best = sorted((c[1] for c in classes), reverse=True)[:m]
            if [a[1] for a in A] != best:
                out.append(("member fitnesses are not the best maxsize distinct fitnesses shown", [A, best]))
        else:
            # mutual non-domination holds for any operator (C08_pf_inv)
            if any(i != j and dom_spec(A[i][1], A[j][1]) for i in range(len(A)) for j in range(len(A))):
                out.append(("a member dominates another member", A))
            if simk not in EQUIV:
                return out
            nd = [s for s in seen_set if not any(dom_spec(t[1], s[1]) for t in seen_set)]
            for a in A:
                if a not in nd:
                    out.append(("a member is dominated by a fitness that was shown", [a, A]))
                    break
            for s in nd:
                if not any(a[1] == s[1] and spec(s[0], a[0]) for a in A):
                    out.append(("a non-dominated individual that was shown has no copy in the archive", [s, A]))
                    break
            if any(i != j and A[i][1] == A[j][1] and spec(A[i][0], A[j][0]) for i in range(len(A)) for j in range(len(A))):
                out.append(("two copies of the same individual", A))
            if simk == "SimEq" and (set(A) != set(nd) or len(set(A)) != len(A)):
                out.append(("archive is not exactly the set of distinct non-dominated individuals shown", [A, sorted(nd)]))
        return out


# ----------------------------------------------------------------------------------------------
# generators
# ----------------------------------------------------------------------------------------------
def batches_upto(nuni, maxlen):
    out = []
    for n in range(maxlen + 1):
        out += [list(t) for t in itertools.product(range(nuni), repeat=n)]
    return out


UNIVERSES = {
    # (geno, values): equal fitness with different genotype, an equal twin in a second object, strict order
    1: [[([0], (1,)), ([1], (1,)), ([2], (2,)), ([0], (1,))],
        [([0], (0,)), ([1], (1,)), ([2], (1,)), ([3], (2,))]],
    2: [[([0], (0, 1)), ([1], (1, 0)), ([2], (1, 1)), ([3], (0, 1))],
        [([0], (0, 1)), ([1], (1, 0)), ([2], (1, 1)), ([0], (0, 1))],
        [([0], (0, 0)), ([1], (0, 2)), ([2], (1, 1)), ([3], (2, 0))]],
}


def main(run):
    run.rule = ("histories of operations on HallOfFame(m) / ParetoFront(); after every operation keys and items are read, "
                "all submitted objects are overwritten in place and the archive is read again. "
                "exhaustive: every history of 3 update batches (each 0..2 individuals, with repetition) over a universe of 4 "
                "individuals (slots = objects, so re-submission is by identity), m in 1..3, 1 and 2 objectives, all weight signs "
                "(quick: all histories of <=2 batches for every configuration plus a seed-chosen sample of 100 of the 3-batch ones; "
                "thorough: all 9261 3-batch histories for the first universe of each arity, <=2 batches + 1500 sampled for 2-3 further universes); "
                "every 16th exhaustive history and every random one is also replayed on the heap-level model; random: 1..4 objectives, mixed weights, m 1..6, up to 14 batches of up "
                "to 7 individuals, tie-heavy grids, planted antichain-then-dominator patterns, similarity operators eq / first-gene / "
                "always / never / non-symmetric, universes where similar individuals carry different fitnesses (in-place re-evaluation); "
                "noncontig: 3-4 objectives, every sign mix, a newcomer dominating a non-contiguous set of positions of the sorted archive; "
                "corpus/C08_*.json first; api: update mixed with direct insert / remove(any index) / clear. "
                "distinct = full script + configuration; non-trivial = at least one non-empty update.")
    run.trusted += ["Coq 8.16.1 kernel and vm_compute",
                    "hand-written models coq/Model/C08_Archive.v (value level) and coq/Model/C08_Heap.v (objects/references/in-place writes) tied by correspondence (harness/c08.py, coq/Corr/C08.v)",
                    "CPython list index/insert/del semantics and bisect_right as modelled in Model/C08_Archive.v; tuple comparison by Base/PyTuple.v",
                    "copy.deepcopy modelled as allocation of a fresh object with equal contents (heap-level model; C08_deepcopy_independent proves the archive's view then never depends on later in-place writes); that CPython's deepcopy of an individual behaves so is observed on every case (re-read after overwriting every submitted object, object identities)",
                    "fitness values restricted to integer-valued floats (order-isomorphic to Z)"]
    run.assumptions += ["m >= 1", "similar is reflexive and symmetric; for the hall of fame similar individuals have equal fitness (DESIGN Appendix B item 5)",
                        "all fitnesses of one history have the same number of objectives; values finite"]
    run.build_props()
    rng = run.rng
    D = Driver(run)
    groups = {}
    parts = {}

    def flush(group):
        """Evaluate the accumulated cases of one group in Coq and drop them (keeps memory flat)."""
        terms, cases = groups.pop(group, ([], []))
        if not terms:
            return
        k = parts.get(group, 0)
        parts[group] = k + 1
        name = group if k == 0 else "%s_p%d" % (group, k)
        # coqc parses big literals slowly: aim at ~120 KB of case text per shard so all cores are used
        avg = max(1, sum(len(t) for t in terms) // len(terms))
        run.correspond(name, "C08", terms, cases, shard=max(20, min(400, 120000 // avg)))
        if name != group:                      # merge the statistics under the group's name
            st = run.corr_groups.pop(name)
            tot = run.corr_groups.setdefault(group, {"cases": 0, "disagree": 0, "errors": 0})
            for key in st:
                tot[key] += st[key]

    def add(group, term, case):
        groups.setdefault(group, ([], []))
        groups[group][0].append(term)
        # keep the diagnostics small: the observation log is only needed in replays of oracle violations
        groups[group][1].append({k: v for k, v in case.items() if k != "observed"})
        if len(groups[group][0]) >= 8000:
            flush(group)

    # ---------------- corpus: past misses, run first ----------------
    import glob
    import json
    import os
    import vlib
    corpus_files = [] if os.environ.get("C08_NO_CORPUS") else sorted(glob.glob(os.path.join(vlib.VERIF, "corpus", "C08*.json")))
    for path in corpus_files:          # (C08_NO_CORPUS=1 is only used by the self-test to judge the generators alone)
        for c in json.load(open(path)):
            script = []
            for o in c["script"]:
                if o[0] == "update":
                    script.append(("update", [tuple(e) for e in o[1]]))
                elif o[0] == "insert":
                    script.append(("insert", tuple(o[1])))
                elif o[0] == "remove":
                    script.append(("remove", o[1]))
                else:
                    script.append(("clear",))
            uni = [(list(g), tuple(v)) for g, v in c["universe"]]
            term, hterm, case = D.drive(c["kind"], c.get("maxsize"), c["similar"], tuple(c["weights"]), uni, script, "corpus")
            add("corpus", term, case)
            add("corpus_heap", hterm, case)

    # ---------------- exhaustive small scope ----------------
    single = batches_upto(4, 2)          # 21 batches
    sign_vectors = {1: [(1,), (-1,)], 2: list(itertools.product([1, -1], repeat=2))}

    def script_of(hist):
        return [("update", [(u, u) for u in b]) for b in hist]

    configs = []
    for nobj in (1, 2):
        unis = UNIVERSES[nobj] if run.thorough else UNIVERSES[nobj][:1]
        for ui, uni in enumerate(unis):
            for w in sign_vectors[nobj]:
                for m in (1, 2, 3):
                    configs.append(("hof", m, w, uni, ui))
                configs.append(("pf", None, w, uni, ui))
    hist2 = [[a, b] for a in single for b in single]
    hist3 = [[a, b, c] for a in single for b in single for c in single]
    nexh = 0
    for (kind, m, w, uni, ui) in configs:
        if run.thorough and ui == 0:
            hs = hist3                           # every history of 3 batches (prefixes are observed too)
        elif run.thorough:
            hs = hist2 + rng.sample(hist3, 1500)
        else:
            hs = hist2 + rng.sample(hist3, 100)
        for h in hs:
            term, hterm, case = D.drive(kind, m, "SimEq", w, uni, script_of(h), "exh")
            add("exh", term, case)
            nexh += 1
            if nexh % 16 == 0:                   # heap-level replay of every 16th exhaustive history
                add("exh_heap", hterm, case)

    # ---------------- random histories ----------------
    def rand_universe(nobj, simk, honest):
        k = rng.randint(2, 9)
        hi = rng.choice([1, 1, 2, 2, 3, 6])
        uni = []
        heads = {}
        for j in range(k):
            if simk in ("SimHead", "SimLe"):
                g = [rng.randint(0, 3), rng.randint(0, 2)]
                cls = g[0]
            elif simk == "SimAlways":
                g = [j]
                cls = 0
            else:
                g = [rng.randint(0, max(1, k - 2))] if rng.random() < 0.5 else [j]
                cls = tuple(g)
            if honest and cls in heads:
                v = heads[cls]                     # fitness is a function of the similarity class
            else:
                v = tuple(rng.randint(0, hi) for _ in range(nobj))
                heads.setdefault(cls, v)
            uni.append((g, v))
        return uni

    def rand_script(nuni, nslots, nops, maxbatch, api):
        script = []
        for _ in range(nops):
            r = rng.random()
            if api and r < 0.2:
                script.append(("insert", (rng.randrange(nslots), rng.randrange(nuni))))
            elif api and r < 0.45:
                script.append(("remove", rng.choice([-1, -1, 0, 0, 1, 2, -2, -3, 3, 5, -6, 7])))
            elif (api and r < 0.5) or (not api and r < 0.03):
                script.append(("clear",))
            else:
                n = rng.choice([0, 1, 1, 2, 2, 3, 3, 4, maxbatch])
                script.append(("update", [(rng.randrange(nslots), rng.randrange(nuni)) for _ in range(n)]))
        return script

    def rand_case():
        kind = "hof" if rng.random() < 0.5 else "pf"
        nobj = rng.choice([1, 2, 2, 3, 3, 4, 4])
        weights = tuple(rng.choice([1, -1]) * rng.choice([1, 1, 2]) for _ in range(nobj))
        simk = rng.choice(["SimEq"] * 5 + ["SimHead"] * 3 + ["SimAlways", "SimNever", "SimLe"])
        honest = rng.random() < 0.8
        uni = rand_universe(nobj, simk, honest)
        m = rng.choice([1, 1, 2, 2, 3, 3, 4, 5, 6])
        nslots = rng.randint(1, 5)
        script = rand_script(len(uni), nslots, rng.randint(1, 14), 7, api=False)
        return kind, m, simk, weights, uni, script

    nrand = run.scale(1000, 15000)
    for it in range(nrand):
        kind, m, simk, weights, uni, script = rand_case()
        term, hterm, case = D.drive(kind, m, simk, weights, uni, script, "rand", use_creator=rng.random() < 0.3)
        add("rand", term, case)
        add("rand_heap", hterm, case)

    def search(run_):
        """Extra counterexample search on the implementation alone (only when something broke)."""
        import time
        t_end = time.time() + run_.scale(60, 600)
        while time.time() < t_end and not run_.oracle_viol:
            kind, m, simk, weights, uni, script = rand_case()
            if simk not in EQUIV:
                simk = "SimEq"
            D.drive(kind, m, simk, weights, uni, script + rand_script(len(uni), 5, rng.randint(1, 20), 9, api=False), "search")
    run.search_fn = search

    # planted: an antichain is shown first, then individuals dominating several members at once
    for it in range(run.scale(150, 3000)):
        nobj = rng.choice([2, 2, 3, 4])
        weights = tuple(rng.choice([1, -1]) for _ in range(nobj))
        k = rng.randint(2, 5)
        uni = []
        for j in range(k):                        # antichain on the first two objectives (weighted)
            v = [0] * nobj
            v[0], v[1] = j * weights[0], (k - 1 - j) * weights[1]
            uni.append(([j], tuple(v)))
        for j in range(rng.randint(1, 3)):        # dominators of a random sub-range (usually >= 2 members)
            a = rng.randint(0, k - 1)
            b = rng.randint(a, k - 1)
            if a == b and k >= 2 and rng.random() < 0.7:
                a, b = (a - 1, b) if a > 0 else (a, b + 1)
            v = [0] * nobj
            v[0], v[1] = b * weights[0], (k - 1 - a) * weights[1]
            if rng.random() < 0.5:
                v[-1] = rng.choice([0, 1]) * weights[-1]
            uni.append(([100 + j], tuple(v)))
        order = list(range(k))
        rng.shuffle(order)
        shown = order if rng.random() < 0.7 else order[:rng.randint(1, k)]
        script = [("update", [(j, u) for j, u in enumerate(shown)])]
        for _ in range(rng.randint(1, 4)):
            script.append(("update", [(rng.randrange(5), rng.choice([rng.randrange(len(uni)), k + rng.randrange(len(uni) - k)]))
                                      for _ in range(rng.randint(0, 4))]))
        kind = "pf" if rng.random() < 0.7 else "hof"
        term, hterm, case = D.drive(kind, rng.randint(1, 4), "SimEq", weights, uni, script, "plant")
        add("plant", term, case)
        add("plant_heap", hterm, case)

    # noncontig: 3-4 objectives, every weight-sign mix in turn; an archive of 3..6 mutually non-dominated
    # members, then a newcomer built to dominate a NON-CONTIGUOUS set of positions of the sorted archive
    # (componentwise maximum of the chosen members plus a bump, checked not to dominate the others)
    sign_cycle = itertools.cycle([w for n in (3, 4) for w in itertools.product([1, -1], repeat=n)])
    for it in range(run.scale(250, 4000)):
        weights = next(sign_cycle)
        nobj = len(weights)
        built = None
        for attempt in range(60):
            pts = []
            for _ in range(300):
                if len(pts) >= rng.randint(3, 6):
                    break
                c = tuple(rng.randint(0, rng.choice([3, 5, 9])) for _ in range(nobj))
                if c in pts or any(dom_spec(c, q) or dom_spec(q, c) for q in pts):
                    continue
                pts.append(c)
            if len(pts) < 3:
                continue
            order = sorted(pts, reverse=True)              # positions in the archive (weighted, best first)
            n = len(order)
            idx = sorted(rng.sample(range(n), rng.randint(2, n - 1)))
            if idx[-1] - idx[0] + 1 == len(idx):
                continue                                   # contiguous
            newc = [max(order[i][k] for i in idx) for k in range(nobj)]
            newc[rng.randrange(nobj)] += 1
            newc = tuple(newc)
            if any(dom_spec(newc, order[i]) for i in range(n) if i not in idx):
                continue
            built = (pts, newc)
            break
        if built is None:                                  # fall back to the known witness shape
            weights = (1, 1, 1)
            built = ([(3, 2, 0), (2, 9, 0), (1, 1, 1)], (4, 3, 1))
        pts, newc = built
        to_vals = lambda c: tuple(x * w for x, w in zip(c, weights))     # weights are +-1
        uni = [([j], to_vals(c)) for j, c in enumerate(pts)] + [([50], to_vals(newc))]
        for j in range(rng.randint(0, 2)):
            uni.append(([60 + j], to_vals(tuple(rng.randint(0, 5) for _ in range(len(weights))))))
        members = list(range(len(pts)))
        rng.shuffle(members)
        cut = rng.randint(1, len(members))
        script = [("update", [(j, u) for j, u in enumerate(members[:cut])])]
        if members[cut:]:
            script.append(("update", [(j, u) for j, u in enumerate(members[cut:])]))
        extra = [(rng.randrange(5), rng.randrange(len(uni))) for _ in range(rng.randint(0, 2))]
        batch = [(0, len(pts))] + [(1 + e[0] % 4, e[1]) for e in extra]
        if rng.random() < 0.5:
            rng.shuffle(batch)
        script.append(("update", batch))
        if rng.random() < 0.4:
            script.append(("update", [(rng.randrange(5), rng.randrange(len(uni))) for _ in range(rng.randint(1, 3))]))
        kind = "pf" if rng.random() < 0.85 else "hof"
        term, hterm, case = D.drive(kind, rng.randint(2, 6), "SimEq", weights, uni, script, "noncontig")
        add("noncontig", term, case)
        add("noncontig_heap", hterm, case)

    # api: direct insert / remove / clear mixed with updates, and maxsize 0
    for it in range(run.scale(300, 5000)):
        kind = "hof" if rng.random() < 0.5 else "pf"
        nobj = rng.choice([1, 2, 3])
        weights = tuple(rng.choice([1, -1]) for _ in range(nobj))
        simk = rng.choice(["SimEq", "SimEq", "SimHead", "SimNever"])
        uni = rand_universe(nobj, simk, True)
        m = rng.choice([0, 1, 2, 3, 4])
        script = rand_script(len(uni), rng.randint(1, 4), rng.randint(1, 10), 5, api=True)
        term, hterm, case = D.drive(kind, m, simk, weights, uni, script, "api")
        add("api", term, case)
        add("api_heap", hterm, case)

    for g in list(groups):
        flush(g)
    run.extra_cov["events_observed"] = dict(D.stats)
