"""Fail-closed translator: the printing / reading / compiling part of deap/gp.py -> Gallina (tie (T) of property C12,
DESIGN.md 2.3).

The working-tree source is parsed with Python's `ast`; the body of every function of the table FUNCS is compiled,
statement by statement, into the option monad of coq/Model/C12_GenRt.v (None = an exception, or exhausted loop fuel)
and written to coq/Gen/C12_gen.v (never committed).  coq/Proofs/C12_gen_equiv.v then proves, for all arguments,
`gen_f args = <hand model of f> args`, and coq/Props/C12_gen.v restates the C12 theorems on the regenerated
definitions.  A semantic change of the source breaks a proof obligation; a construct outside the grammar makes the
translator REFUSE that function (class Refuse): its regenerated definition is then the hand model itself (a
placeholder, reported as such) and the function is tied by the correspondence only.

Grammar (everything else is refused)
  statements   x = e | a, b = e | x = l.pop() / d.popleft() | p.append(e) | p[-1][k].append(e) (the last item of a local
               list whose items are only ever created with fresh list displays) | d.extendleft(e) | m.update(e)
               | p[i] = e (list item, dict entry) | m[k].value = e (attribute of an object found in a mapping)
               | del m[k] | if/elif/else | `if x is None: x = e` | for <name or pair> in <iterable> | while <condition>
               (fuel: one more than the total length of the lists in the loop state; exhausted fuel is the result None) | break | continue | return e (not in a
               loop) | raise <anything> | try: <one statement> except ...: ... raise (an exception stays an exception)
               | docstrings.   p is a local name or an attribute of a record (self.arguments, self.mapping, pset.context).
  iterables    a list | enumerate(l) (read live when l is changed by item assignment in the body) | reversed(e) | list(e)
               | zip(a, b)
  expressions  str / small int / bool / None constants, names, == != > on ints, == on strings, len(list) == x.arity,
               `in` on dicts, is None / is not None (narrowing in `x is not None and ...`), and/or/not, len, pairs, the
               empty list, {k: v}, p[-1], t[0] / t[1], d[k], attribute reads of the signature table, deque(),
               re.split(<the separator class>, s), eval(token), type(c), issubclass, isinstance(x, Primitive),
               Terminal(c, b, t), cls(l), str(tree), x.format( *args ) (method dispatch on a node object, or str.format
               of a Primitive.seq), self.conv_fct(v), sep.join(<generator over a list>), "..{a}..".format(a=.., ..) with
               plain named fields (a field holding a format-string fragment makes the result a format string, tpl),
               range(n), map("{{{0}}}".format, <numbers>) (the text of positional fields), self.x = e / self.x in
               Primitive.__init__ (the regenerated value is the final self.seq), compile(tree, pset) (the hand model's compile), `lambda value=f: value`,
               eval(code, dict(pset.context), {}) as the returned value of compile: the function stops there and returns
               the code string (what eval does with it stays modelled as in Model/C12_GPPrint.v).
Types: str, nat (every int), bool, node, ty, cst, pset, fpset, arity (option nat), tpl (a format string), conv, tval, compiled, obj, lists,
pairs, dicts with str keys, option.  Locals are named v_<name> in the generated text.
Module level: the builtins the grammar uses must not be rebound in deap/gp.py; Primitive, Terminal, compile, re, deque must be
what the signature table assumes (otherwise every function is refused).
An in-place change of a parameter is refused (the caller would see it), except `self` of a procedure, whose final
state is the result (renameArguments); compileADF's change of each pset.context is local to the loop variable: what the
caller sees of it afterwards is not regenerated (nor modelled).
C12_FORCE_REFUSE=<gen name>[,..] in the environment forces the refusal of functions (self-test of the proof scripts).
"""
import ast
import os
import string as _string


class Refuse(Exception):
    def __init__(self, node, why):
        self.node = type(node).__name__ if not isinstance(node, str) else node
        self.line = getattr(node, "lineno", None)
        self.why = why
        Exception.__init__(self, "%s at line %s: %s" % (self.node, self.line, why))


def refuse(node, why):
    raise Refuse(node, why)


# ---- types ---------------------------------------------------------------------------------------------------
def L(t):
    return ("list", t)


def P(a, b):
    return ("pair", a, b)


def O(t):
    return ("opt", t)


def D(t):
    return ("dict", t)


def is_k(t, k):
    return isinstance(t, tuple) and t[0] == k


def unify(a, b):
    """least type both fit in (an option absorbs its content type), or None"""
    if a == b:
        return a
    if a == "?":
        return b
    if b == "?":
        return a
    if is_k(a, "opt") and is_k(b, "opt"):
        u = unify(a[1], b[1])
        return None if u is None else O(u)
    if is_k(a, "opt"):
        u = unify(a[1], b)
        return None if u is None else O(u)
    if is_k(b, "opt"):
        return unify(b, a)
    if isinstance(a, tuple) and isinstance(b, tuple) and a[0] == b[0] and len(a) == len(b):
        parts = [unify(x, y) for x, y in zip(a[1:], b[1:])]
        return None if any(p is None for p in parts) else (a[0],) + tuple(parts)
    return None


def fits(have, want):
    return unify(have, want) is not None


def coerce(txt, have, want, node):
    """text of type `have` used where `want` is expected"""
    if have == want:
        return txt
    if is_k(want, "opt") and not is_k(have, "opt"):
        if unify(have, want[1]) is None:
            refuse(node, "type %s where %s is expected" % (have, want))
        return "(Some %s)" % txt
    if unify(have, want) is not None:
        return txt
    refuse(node, "type %s where %s is expected" % (have, want))


SEP_CLASS = "[ \t\n\r\x0c\x0b(),]"

# (type, attribute) -> (read text, type, monadic?, setter text or None)
ATTRS = {
    ("node", "arity"): ("(node_arity %s)", "arity", False, None),
    ("node", "ret"): ("(node_ret %s)", "ty", False, None),
    ("node", "args"): ("(attr_args %s)", L("ty"), True, None),
    ("pset", "arguments"): ("(ps_arguments %s)", L("str"), False, "(set_arguments %s %s)"),
    ("pset", "mapping"): ("(ps_mapping %s)", D("node"), False, "(set_mapping %s %s)"),
    ("fpset", "arguments"): ("(ps_arguments (fp_ps %s))", L("str"), False, None),
    ("fpset", "context"): ("(fp_ctx %s)", D("obj"), False, "(fp_set_ctx %s %s)"),
    ("fpset", "name"): ("(fp_name %s)", "str", False, None),
}

# ---- signature table (trusted) -------------------------------------------------------------------------------
# py: function name, cls: class or None, gen: name of the regenerated definition, coq_params: binder text,
# env: Python parameter -> type ("self" of an object type: attribute -> (Coq name, type)), heap: the pset holding the
# Terminal.value of the argument terminals when nodes are printed, ends: "return" | "self", placeholder: the hand model in the same signature.
FUNCS = [
    dict(py="__init__", cls="Primitive", gen="gen_Primitive_seq",
         coq_params="(v_name : string) (v_args : list ty) (v_ret : ty)",
         env={"name": "str", "args": L("ty"), "ret": "ty"}, selfstore=True, ends="attr:seq",
         placeholder="Some (prim_seq v_name (List.length v_args))"),
    dict(py="format", cls="Primitive", gen="gen_Primitive_format",
         coq_params="(self_seq : tpl) (v_args : list string)",
         env={"args": L("str")}, selfattrs={"seq": ("self_seq", "tpl")}, vararg="args", ends="return",
         placeholder="tpl_format self_seq v_args"),
    dict(py="format", cls="Terminal", gen="gen_Terminal_format",
         coq_params="(self_conv_fct : conv) (self_value : tval)",
         env={}, selfattrs={"conv_fct": ("self_conv_fct", "conv"), "value": ("self_value", "tval")}, ends="return",
         placeholder="apply_conv self_conv_fct self_value"),
    "INTERLUDE_FORMAT",
    dict(py="__str__", cls="PrimitiveTree", gen="gen_str", coq_params="(ps : pset) (v_self : list node)",
         env={"self": L("node")}, heap="ps", ends="return",
         placeholder="Some (str_tree ps v_self)"),
    dict(py="from_string", cls="PrimitiveTree", gen="gen_from_string",
         coq_params="(sub : ty -> ty -> bool) (v_string : string) (v_pset : pset)",
         env={"cls": "treeclass", "string": "str", "pset": "pset"}, ends="return",
         placeholder="read sub (ps_mapping v_pset) v_string"),
    dict(py="compile", cls=None, gen="gen_compile_code", coq_params="(v_expr : list node) (v_pset : pset)",
         env={"expr": L("node"), "pset": "pset"}, heap="v_pset", ends="return", eval3="code",
         placeholder="Some (code_with \",\" v_pset v_expr)"),
    dict(py="renameArguments", cls="PrimitiveSetTyped", gen="gen_renameArguments",
         coq_params="(v_self : pset) (v_kargs : list (string * string))",
         env={"self": "pset", "kargs": D("str")}, kwarg="kargs", ends="self",
         placeholder="rename v_kargs v_self"),
    dict(py="compileADF", cls=None, gen="gen_compileADF",
         coq_params="{V : Type} (cval : cst -> option V) (v_expr : list (list node)) (v_psets : list (fpset V))",
         env={"expr": L(L("node")), "psets": L("fpset")}, ends="return",
         placeholder="Some (compile_adf_loop cval (rev (map (fun p => mkdef (fp_ps (fst p)) (fp_name (fst p)) "
                     "(fp_ctx (fst p)) (snd p)) (combine v_psets v_expr))) [] None)"),
]

INTERLUDE_FORMAT = """
(* FIXED TEXT: method dispatch  node.format( *args )  on the class of the node object (object layer of
   Model/C12_GenRt.v); an ephemeral class object has no bound format method. *)
Definition gen_format (ps : pset) (n : node) (args : list string) : option string :=
  match n with
  | NPrim name a r => bind (gen_Primitive_seq name a r) (fun s => gen_Primitive_format s args)
  | NClass _ _ => None
  | _ => match args with
         | [] => bind (attr_conv_fct n) (fun f => bind (attr_value ps n) (fun v => gen_Terminal_format f v))
         | _ => None
         end
  end.
"""

HEADER = """(* GENERATED by harness/c12_py2coq.py from the working-tree text of deap/gp.py -- do not edit, never committed.
   One definition per function of the signature table; a function the translator refused is the hand model
   (marked REFUSED). *)
From Coq Require Import List ZArith Bool String Ascii.
From DV Require Import Base.C12_Str Model.C12_GPPrint Model.C12_GenRt.
Import ListNotations.
Local Open Scope string_scope.
Local Open Scope list_scope.
"""


def cstr(s):
    for ch in s:
        if ord(ch) < 32 or ord(ch) > 126:
            raise Refuse("Constant", "string constant with a character outside printable ASCII")
    return '"%s"' % s.replace('"', '""')


def wrap(pre, body):
    for pat, m in reversed(pre):
        if m is None:
            body = "let %s in %s" % (pat, body)
        else:
            body = "bind %s (fun %s =>\n %s)" % (m, pat, body)
    return body


def names_assigned(stmts):
    """names (re)bound or changed in place by the statements"""
    out = set()

    def base(e):
        while isinstance(e, (ast.Attribute, ast.Subscript, ast.Call)):
            e = e.func if isinstance(e, ast.Call) else e.value
        return e.id if isinstance(e, ast.Name) else None

    def tgt(t):
        if isinstance(t, ast.Name):
            out.add(t.id)
        elif isinstance(t, (ast.Tuple, ast.List)):
            for x in t.elts:
                tgt(x)
        else:
            b = base(t)
            if b:
                out.add(b)

    for s in stmts:
        for n in ast.walk(s):
            if isinstance(n, ast.Assign):
                for t in n.targets:
                    tgt(t)
            elif isinstance(n, (ast.AugAssign, ast.AnnAssign)):
                tgt(n.target)
            elif isinstance(n, ast.For):
                tgt(n.target)
            elif isinstance(n, ast.Delete):
                for t in n.targets:
                    tgt(t)
            elif isinstance(n, ast.Call) and isinstance(n.func, ast.Attribute) and n.func.attr in (
                    "append", "pop", "popleft", "extendleft", "update", "extend", "insert", "remove", "clear", "sort",
                    "reverse", "appendleft", "setdefault", "popitem"):
                b = base(n.func.value)
                if b:
                    out.add(b)
            elif isinstance(n, (ast.NamedExpr, ast.Global, ast.Nonlocal, ast.With, ast.FunctionDef, ast.ClassDef,
                                ast.Import, ast.ImportFrom)):
                refuse(n, "outside the grammar")
    return out


def names_read(nodes):
    out = set()
    for s in nodes:
        for n in ast.walk(s):
            if isinstance(n, ast.Name):
                out.add(n.id)
    return out


def escapes(stmts):
    return bool(stmts) and isinstance(stmts[-1], (ast.Continue, ast.Break, ast.Raise, ast.Return))


class Loop(object):
    def __init__(self, state, types):
        self.state, self.types = state, dict(types)
        self.seen = []      # environments at the points where the loop state is handed on


class Tr(object):
    def __init__(self, sig):
        self.sig = sig
        self.n = 0
        self.loops = []

    def fresh(self, base="t"):
        self.n += 1
        return "%s_%d" % (base, self.n)

    # ---------------------------------------------------------------- places
    def place(self, e, env):
        """a mutable location: (read text, type, set(new text) -> (pattern, None) let-binding)"""
        base = e.value if isinstance(e, ast.Attribute) else e
        if isinstance(base, ast.Name) and base.id in self.sig["env"] and base.id not in self.rebound \
                and not (base.id == "self" and self.sig["ends"] == "self"):
            # the caller would see the change; only `self` of a procedure is handed back as the result
            refuse(e, "in-place change of the parameter %s" % base.id)
        if isinstance(e, ast.Name):
            if e.id not in env:
                refuse(e, "name %s is not bound" % e.id)
            v = "v_" + e.id
            return v, env[e.id], (lambda new: ("%s := %s" % (v, new), None)), e.id
        if isinstance(e, ast.Attribute) and isinstance(e.value, ast.Name) and e.value.id in env \
                and not e.value.id.startswith("self.") and not (e.value.id == "self" and "selfattrs" in self.sig):
            t = env[e.value.id]
            a = ATTRS.get((t, e.attr))
            if a is None or a[3] is None or a[2]:
                refuse(e, "attribute %s of %s cannot be changed" % (e.attr, t))
            v = "v_" + e.value.id
            return a[0] % v, a[1], (lambda new: ("%s := %s" % (v, a[3] % (v, new)), None)), e.value.id
        refuse(e, "not a location of the grammar")

    # ---------------------------------------------------------------- expressions
    def expr(self, e, env):
        """-> (pre, text, type); pre = [(pattern, monadic text)] to be bound before text is meaningful"""
        if isinstance(e, ast.Constant):
            v = e.value
            if v is None:
                return [], "None", O("?")
            if v is True or v is False:
                return [], "true" if v else "false", "bool"
            if isinstance(v, int) and 0 <= v < 1000:
                return [], str(v), "nat"
            if isinstance(v, str):
                return [], cstr(v), "str"
            refuse(e, "constant %r" % (v,))
        if isinstance(e, ast.Name):
            if e.id in env:
                return [], "v_" + e.id, env[e.id]
            refuse(e, "name %s is not bound (or is a global outside the grammar)" % e.id)
        if isinstance(e, ast.Attribute):
            if isinstance(e.value, ast.Name) and e.value.id == "self" and self.sig.get("selfstore"):
                if "self." + e.attr not in env:
                    refuse(e, "attribute self.%s is read before it is set" % e.attr)
                return [], "v_self_" + e.attr, env["self." + e.attr]
            if isinstance(e.value, ast.Name) and e.value.id == "self" and "selfattrs" in self.sig:
                a = self.sig["selfattrs"].get(e.attr)
                if a is None:
                    refuse(e, "attribute self.%s is not in the signature table" % e.attr)
                return [], a[0], a[1]
            pre, t, ty = self.expr(e.value, env)
            a = ATTRS.get((ty, e.attr))
            if a is None:
                refuse(e, "attribute %s of a value of type %s" % (e.attr, ty))
            if a[2]:
                x = self.fresh()
                return pre + [(x, a[0] % t)], x, a[1]
            return pre, a[0] % t, a[1]
        if isinstance(e, ast.Tuple):
            if len(e.elts) != 2:
                refuse(e, "only pairs")
            p1, t1, y1 = self.expr(e.elts[0], env)
            p2, t2, y2 = self.expr(e.elts[1], env)
            return p1 + p2, "(%s, %s)" % (t1, t2), P(y1, y2)
        if isinstance(e, ast.List):
            if e.elts:
                refuse(e, "only the empty list display")
            return [], "[]", L("?")
        if isinstance(e, ast.Dict):
            if len(e.keys) == 0:
                return [], "[]", D("?")
            if len(e.keys) != 1 or e.keys[0] is None:
                refuse(e, "only {} and {k: v}")
            p1, t1, y1 = self.expr(e.keys[0], env)
            p2, t2, y2 = self.expr(e.values[0], env)
            if y1 != "str":
                refuse(e, "dict key of type %s" % (y1,))
            if y2 == "compiled":            # a compiled tree stored in a dict is the object obj_of
                t2, y2 = "(obj_of cval %s)" % t2, "obj"
            return p1 + p2, "[(%s, %s)]" % (t1, t2), D(y2)
        if isinstance(e, ast.Subscript):
            pre, t, ty = self.expr(e.value, env)
            ix = e.slice
            if is_k(ty, "pair"):
                if isinstance(ix, ast.Constant) and ix.value in (0, 1) and ix.value is not True and ix.value is not False:
                    return pre, "(%s %s)" % (("fst", "snd")[ix.value], t), ty[1 + ix.value]
                refuse(e, "pair index")
            if is_k(ty, "list"):
                if isinstance(ix, ast.UnaryOp) and isinstance(ix.op, ast.USub) and isinstance(ix.operand, ast.Constant) \
                        and ix.operand.value == 1:
                    x = self.fresh()
                    return pre + [(x, "(last_ %s)" % t)], x, ty[1]
                p2, t2, y2 = self.expr(ix, env)
                if y2 != "nat":
                    refuse(e, "list index of type %s" % (y2,))
                x = self.fresh()
                return pre + p2 + [(x, "(nth_error %s %s)" % (t, t2))], x, ty[1]
            if is_k(ty, "dict"):
                p2, t2, y2 = self.expr(ix, env)
                if y2 != "str":
                    refuse(e, "dict key of type %s" % (y2,))
                x = self.fresh()
                return pre + p2 + [(x, "(dget %s %s)" % (t2, t))], x, ty[1]
            refuse(e, "subscript of a value of type %s" % (ty,))
        if isinstance(e, ast.BinOp) and isinstance(e.op, ast.Add):
            p1, t1, y1 = self.expr(e.left, env)
            p2, t2, y2 = self.expr(e.right, env)
            if y1 != "str" or y2 != "str":
                refuse(e, "+ on %s and %s" % (y1, y2))
            return p1 + p2, "(String.append %s %s)" % (t1, t2), "str"
        if isinstance(e, ast.UnaryOp) and isinstance(e.op, ast.Not):
            pre, t, ty = self.as_bool(e.operand, env)
            if ty != "bool":
                refuse(e, "not of a %s" % (ty,))
            return pre, "(negb %s)" % t, "bool"
        if isinstance(e, ast.BoolOp):
            return self.boolop(e, e.values, env)
        if isinstance(e, ast.Compare):
            return self.compare(e, env)
        if isinstance(e, ast.Call):
            return self.call(e, env)
        if isinstance(e, ast.Lambda):
            a = e.args
            if (len(a.args) == 1 and not a.posonlyargs and not a.kwonlyargs and a.vararg is None and a.kwarg is None
                    and len(a.defaults) == 1 and isinstance(e.body, ast.Name) and e.body.id == a.args[0].arg):
                pre, t, ty = self.expr(a.defaults[0], env)
                if ty != "compiled":
                    refuse(e, "default of type %s" % (ty,))
                return pre, "(default_thunk %s)" % t, "obj"
            refuse(e, "only `lambda x=<value>: x`")
        if isinstance(e, ast.GeneratorExp):
            if len(e.generators) != 1 or e.generators[0].ifs or e.generators[0].is_async \
                    or not isinstance(e.generators[0].target, ast.Name):
                refuse(e, "only one plain for clause")
            pre, t, ty = self.expr(e.generators[0].iter, env)
            if not is_k(ty, "list"):
                refuse(e, "generator over a %s" % (ty,))
            x = e.generators[0].target.id
            if x in env:
                refuse(e, "generator variable shadows %s" % x)
            env2 = dict(env)
            env2[x] = ty[1]
            p2, t2, y2 = self.expr(e.elt, env2)
            if p2:
                refuse(e, "element with effects")
            return pre, "(map (fun v_%s => %s) %s)" % (x, t2, t), L(y2)
        refuse(e, "expression outside the grammar")

    def boolop(self, node, values, env):
        first, rest = values[0], values[1:]
        if not rest:
            pre, t, ty = self.as_bool(first, env)
            if ty != "bool":
                refuse(node, "operand of type %s" % (ty,))
            return pre, t, ty
        if isinstance(node.op, ast.And) and isinstance(first, ast.Compare) and len(first.ops) == 1 \
                and isinstance(first.ops[0], ast.IsNot) and isinstance(first.left, ast.Name) \
                and isinstance(first.comparators[0], ast.Constant) and first.comparators[0].value is None:
            x = first.left.id
            if x not in env or not is_k(env[x], "opt"):
                refuse(first, "%s is not an optional value" % x)
            env2 = dict(env)
            env2[x] = env[x][1]
            p2, t2, _ = self.boolop(node, rest, env2)
            return [], "match v_%s with Some v_%s => %s | None => Some false end" % (x, x, wrap(p2, "ret %s" % t2)), "mbool"
        p1, t1, y1 = self.as_bool(first, env)
        if y1 != "bool":
            refuse(node, "operand of type %s" % (y1,))
        p2, t2, y2 = self.boolop(node, rest, env)
        if y2 == "mbool" or p2:
            inner = t2 if y2 == "mbool" else wrap(p2, "ret %s" % t2)
            if isinstance(node.op, ast.And):
                return p1, "(if %s then %s else Some false)" % (t1, inner), "mbool"
            return p1, "(if %s then Some true else %s)" % (t1, inner), "mbool"
        return p1, "(%s %s %s)" % (t1, "&&" if isinstance(node.op, ast.And) else "||", t2), "bool"

    def as_bool(self, e, env):
        """an expression in a boolean position: Python truthiness of lists, dicts and strings"""
        pre, t, ty = self.expr(e, env)
        if is_k(ty, "list") or is_k(ty, "dict"):
            return pre, "(negb (Nat.eqb (List.length %s) 0))" % t, "bool"
        if ty == "str":
            return pre, '(negb (String.eqb %s ""))' % t, "bool"
        return pre, t, ty

    def pure_bool(self, e, env):
        """a condition: (pre, text : bool)"""
        pre, t, ty = self.as_bool(e, env)
        if ty == "mbool":
            x = self.fresh("c")
            return pre + [(x, "(%s)" % t)], x
        if ty != "bool":
            refuse(e, "condition of type %s" % (ty,))
        return pre, t

    def compare(self, e, env):
        if len(e.ops) != 1:
            refuse(e, "chained comparison")
        op, a, b = e.ops[0], e.left, e.comparators[0]
        if isinstance(op, (ast.Is, ast.IsNot)):
            if not (isinstance(b, ast.Constant) and b.value is None):
                refuse(e, "`is` only with None")
            pre, t, ty = self.expr(a, env)
            if not is_k(ty, "opt"):
                refuse(e, "`is None` on a value of type %s" % (ty,))
            r = "match %s with Some _ => false | None => true end" % t
            return pre, "(%s)" % r if isinstance(op, ast.Is) else "(negb (%s))" % r, "bool"
        p1, t1, y1 = self.expr(a, env)
        p2, t2, y2 = self.expr(b, env)
        pre = p1 + p2
        if isinstance(op, (ast.In, ast.NotIn)):
            if y1 == "str" and is_k(y2, "dict"):
                r = "(dmem %s %s)" % (t1, t2)
                return pre, r if isinstance(op, ast.In) else "(negb %s)" % r, "bool"
            refuse(e, "`in` on %s" % (y2,))
        if isinstance(op, (ast.Eq, ast.NotEq)):
            if y1 == "nat" and y2 == "nat":
                r = "(Nat.eqb %s %s)" % (t1, t2)
            elif y1 == "str" and y2 == "str":
                r = "(String.eqb %s %s)" % (t1, t2)
            elif y1 == "nat" and y2 == "arity":
                r = "(eq_arity %s %s)" % (t1, t2)
            elif y1 == "arity" and y2 == "nat":
                r = "(eq_arity %s %s)" % (t2, t1)
            else:
                refuse(e, "== on %s and %s" % (y1, y2))
            return pre, r if isinstance(op, ast.Eq) else "(negb %s)" % r, "bool"
        if y1 == "nat" and y2 == "nat":
            if isinstance(op, ast.Gt):
                return pre, "(Nat.ltb %s %s)" % (t2, t1), "bool"
            if isinstance(op, ast.Lt):
                return pre, "(Nat.ltb %s %s)" % (t1, t2), "bool"
            if isinstance(op, ast.GtE):
                return pre, "(Nat.leb %s %s)" % (t2, t1), "bool"
            if isinstance(op, ast.LtE):
                return pre, "(Nat.leb %s %s)" % (t1, t2), "bool"
        refuse(e, "comparison outside the grammar")

    def call(self, e, env):
        f = e.func
        if any(isinstance(a, ast.Starred) for a in e.args) and not (
                isinstance(f, ast.Attribute) and f.attr == "format" and len(e.args) == 1 and not e.keywords):
            refuse(e, "starred argument")
        if isinstance(f, ast.Name) and f.id not in env:
            n = f.id
            args = e.args
            if e.keywords:
                refuse(e, "keyword arguments")
            if n == "len" and len(args) == 1:
                pre, t, ty = self.expr(args[0], env)
                if not (is_k(ty, "list") or is_k(ty, "dict")):
                    refuse(e, "len of a %s" % (ty,))
                return pre, "(List.length %s)" % t, "nat"
            if n == "str" and len(args) == 1:
                pre, t, ty = self.expr(args[0], env)
                if ty != L("node") or "heap" not in self.sig:
                    refuse(e, "str of a %s" % (ty,))
                x = self.fresh()
                return pre + [(x, "(gen_str %s %s)" % (self.sig["heap"], t))], x, "str"
            if n == "range" and len(args) == 1:
                pre, t, ty = self.expr(args[0], env)
                if ty != "nat":
                    refuse(e, "range of a %s" % (ty,))
                return pre, "(range_ %s)" % t, L("nat")
            if n == "map" and len(args) == 2:
                fn = args[0]
                if not (isinstance(fn, ast.Attribute) and fn.attr == "format" and isinstance(fn.value, ast.Constant)
                        and fn.value.value == "{{{0}}}"):
                    refuse(e, "map of another function than \"{{{0}}}\".format")
                pre, t, ty = self.expr(args[1], env)
                if ty != L("nat"):
                    refuse(e, "field numbers of type %s" % (ty,))
                return pre, "(map tpl_field %s)" % t, L("tpl")
            if n == "deque" and not args:
                return [], "[]", L("?")
            if n in ("reversed", "list") and len(args) == 1:
                pre, t, ty = self.expr(args[0], env)
                if not is_k(ty, "list"):
                    refuse(e, "%s of a %s" % (n, ty))
                return pre, ("(reversed_ %s)" % t) if n == "reversed" else t, ty
            if n == "zip" and len(args) == 2:
                p1, t1, y1 = self.expr(args[0], env)
                p2, t2, y2 = self.expr(args[1], env)
                if not (is_k(y1, "list") and is_k(y2, "list")):
                    refuse(e, "zip of %s, %s" % (y1, y2))
                return p1 + p2, "(combine %s %s)" % (t1, t2), L(P(y1[1], y2[1]))
            if n == "enumerate" and len(args) == 1:
                pre, t, ty = self.expr(args[0], env)
                if not is_k(ty, "list"):
                    refuse(e, "enumerate of a %s" % (ty,))
                return pre, "(combine (range_ (List.length %s)) %s)" % (t, t), L(P("nat", ty[1]))
            if n == "issubclass" and len(args) == 2:
                p1, t1, y1 = self.expr(args[0], env)
                p2, t2, y2 = self.expr(args[1], env)
                if not fits(y1, "ty") or not fits(y2, "ty"):
                    refuse(e, "issubclass of %s, %s" % (y1, y2))
                return p1 + p2, "(sub %s %s)" % (t1, t2), "bool"
            if n == "type" and len(args) == 1:
                pre, t, ty = self.expr(args[0], env)
                if ty != "cst":
                    refuse(e, "type of a %s" % (ty,))
                return pre, "(typeof %s)" % t, "ty"
            if n == "isinstance" and len(args) == 2 and isinstance(args[1], ast.Name) and args[1].id == "Primitive":
                pre, t, ty = self.expr(args[0], env)
                if ty != "node":
                    refuse(e, "isinstance of a %s" % (ty,))
                return pre, "(is_Primitive %s)" % t, "bool"
            if n == "eval" and len(args) == 1:
                pre, t, ty = self.expr(args[0], env)
                if ty != "str":
                    refuse(e, "eval of a %s" % (ty,))
                x = self.fresh()
                return pre + [(x, "(eval_token %s)" % t)], x, "cst"
            if n == "Terminal" and len(args) == 3:
                ps, ts, ys = zip(*[self.expr(a, env) for a in args])
                if not all(fits(a_, b_) for a_, b_ in zip(ys, ("cst", "bool", "ty"))):
                    refuse(e, "Terminal%s" % (tuple(ys),))
                x = self.fresh()
                return sum(ps, []) + [(x, "(new_Terminal %s %s %s)" % ts)], x, "node"
            if n == "compile" and len(args) == 2 and self.sig["py"] == "compileADF":
                p1, t1, y1 = self.expr(args[0], env)
                p2, t2, y2 = self.expr(args[1], env)
                if y1 != L("node") or y2 != "fpset":
                    refuse(e, "compile of %s, %s" % (y1, y2))
                x = self.fresh()
                return p1 + p2 + [(x, "(compile cval (fp_ps %s) (fp_ctx %s) %s)" % (t2, t2, t1))], x, "compiled"
            refuse(e, "call of %s" % n)
        if isinstance(f, ast.Name) and env.get(f.id) == "treeclass" and len(e.args) == 1 and not e.keywords:
            pre, t, ty = self.expr(e.args[0], env)
            if ty != L("node"):
                refuse(e, "cls of a %s" % (ty,))
            return pre, t, ty
        if isinstance(f, ast.Attribute):
            m = f.attr
            if (m == "split" and isinstance(f.value, ast.Name) and f.value.id == "re" and "re" not in env
                    and len(e.args) == 2 and not e.keywords):
                if not (isinstance(e.args[0], ast.Constant) and e.args[0].value == SEP_CLASS):
                    refuse(e, "re.split with another pattern than the separator class")
                pre, t, ty = self.expr(e.args[1], env)
                if ty != "str":
                    refuse(e, "re.split of a %s" % (ty,))
                return pre, "(re_split_seps %s)" % t, L("str")
            if m == "format" and isinstance(f.value, ast.Constant) and isinstance(f.value.value, str):
                if e.args:
                    refuse(e, "positional fields")
                kw = {}
                pre = []
                for k in e.keywords:
                    if k.arg is None:
                        refuse(e, "** in format")
                    p, t, ty = self.expr(k.value, env)
                    if ty not in ("str", "tpl"):
                        refuse(e, "format field of type %s" % (ty,))
                    pre += p
                    kw[k.arg] = (t, ty)
                as_tpl = any(ty == "tpl" for _, ty in kw.values())
                parts = []
                for lit_, field, spec, conv_ in _string.Formatter().parse(f.value.value):
                    if lit_:
                        if as_tpl and ("{" in lit_ or "}" in lit_):
                            refuse(e, "escaped braces in a format string that is formatted again")
                        parts.append("(tpl_lit %s)" % cstr(lit_) if as_tpl else cstr(lit_))
                    if field is not None:
                        if spec or conv_ or field not in kw:
                            refuse(e, "format field {%s}" % field)
                        t, ty = kw[field]
                        parts.append("(tpl_lit %s)" % t if as_tpl and ty == "str" else t)
                if as_tpl:
                    txt = parts[-1] if parts else "[]"
                    for p in reversed(parts[:-1]):
                        txt = "(%s ++ %s)" % (p, txt)
                    return pre, txt, "tpl"
                if not parts:
                    parts = ['""']
                txt = parts[-1]
                for p in reversed(parts[:-1]):
                    txt = "(String.append %s %s)" % (p, txt)
                return pre, txt, "str"
            if m == "join" and len(e.args) == 1 and not e.keywords:
                p1, t1, y1 = self.expr(f.value, env)
                p2, t2, y2 = self.expr(e.args[0], env)
                if y1 == "str" and y2 == L("tpl"):
                    return p1 + p2, "(tpl_join %s %s)" % (t1, t2), "tpl"
                if y1 != "str" or y2 != L("str"):
                    refuse(e, "join of %s, %s" % (y1, y2))
                return p1 + p2, "(String.concat %s %s)" % (t1, t2), "str"
            if m == "format" and len(e.args) == 1 and isinstance(e.args[0], ast.Starred) and not e.keywords:
                p1, t1, y1 = self.expr(f.value, env)
                p2, t2, y2 = self.expr(e.args[0].value, env)
                if not fits(y2, L("str")):
                    refuse(e, "format( *%s )" % (y2,))
                x = self.fresh()
                if y1 == "tpl":
                    return p1 + p2 + [(x, "(tpl_format %s %s)" % (t1, t2))], x, "str"
                if y1 == "node" and "heap" in self.sig:
                    return p1 + p2 + [(x, "(gen_format %s %s %s)" % (self.sig["heap"], t1, t2))], x, "str"
                refuse(e, "format method of a %s" % (y1,))
            if isinstance(f.value, ast.Name) and f.value.id == "self" and "selfattrs" in self.sig \
                    and len(e.args) == 1 and not e.keywords:
                p1, t1, y1 = self.expr(f, env)
                p2, t2, y2 = self.expr(e.args[0], env)
                if y1 == "conv" and y2 == "tval":
                    x = self.fresh()
                    return p1 + p2 + [(x, "(apply_conv %s %s)" % (t1, t2))], x, "str"
                refuse(e, "call of a %s on a %s" % (y1, y2))
        refuse(e, "call outside the grammar")

    # ---------------------------------------------------------------- statements
    def block(self, stmts, env, tail):
        """text of the statements followed by tail(env)"""
        if not stmts:
            return tail(env)
        s, rest = stmts[0], stmts[1:]

        def cont(env2):
            return self.block(rest, env2, tail)

        if isinstance(s, ast.Expr) and isinstance(s.value, ast.Constant) and isinstance(s.value.value, str):
            return cont(env)
        if isinstance(s, ast.Pass):
            return cont(env)
        if isinstance(s, ast.Assign):
            if len(s.targets) != 1:
                refuse(s, "chained assignment")
            if isinstance(s.value, ast.IfExp):        # x = a if c else b  is  if c: x = a else: x = b
                v = s.value
                a1 = ast.copy_location(ast.Assign(targets=s.targets, value=v.body), s)
                a2 = ast.copy_location(ast.Assign(targets=s.targets, value=v.orelse), s)
                return self.if_(ast.copy_location(ast.If(test=v.test, body=[a1], orelse=[a2]), s), env, rest, tail)
            return self.assign(s, s.targets[0], s.value, env, cont)
        if isinstance(s, ast.Expr) and isinstance(s.value, ast.Call):
            return self.effect(s, s.value, env, cont)
        if isinstance(s, ast.Delete):
            if len(s.targets) != 1 or not isinstance(s.targets[0], ast.Subscript):
                refuse(s, "del outside the grammar")
            t = s.targets[0]
            rd, ty, setter, _ = self.place(t.value, env)
            if is_k(ty, "list") and isinstance(t.value, ast.Name) and isinstance(t.slice, ast.UnaryOp) \
                    and isinstance(t.slice.op, ast.USub) and isinstance(t.slice.operand, ast.Constant) \
                    and t.slice.operand.value == 1:
                env2 = dict(env)
                env2.pop("#alias:" + t.value.id, None)
                return wrap([("'(_, %s)" % rd, "(pop_ %s)" % rd)], cont(env2))
            if not is_k(ty, "dict"):
                refuse(s, "del on a %s" % (ty,))
            pk, tk, yk = self.expr(t.slice, env)
            if yk != "str":
                refuse(s, "dict key of type %s" % (yk,))
            x = self.fresh()
            return wrap(pk + [(x, "(ddel_ %s %s)" % (tk, rd)), setter(x)], cont(env))
        if isinstance(s, ast.If):
            return self.if_(s, env, rest, tail)
        if isinstance(s, ast.For):
            return self.for_(s, env, cont)
        if isinstance(s, ast.While):
            return self.while_(s, env, cont)
        if isinstance(s, ast.Continue):
            if not self.loops:
                refuse(s, "continue outside a loop")
            return self.hand_on("Next", env, s)
        if isinstance(s, ast.Break):
            if not self.loops:
                refuse(s, "break outside a loop")
            return self.hand_on("Break", env, s)
        if isinstance(s, ast.Raise):
            return "raise_"
        if isinstance(s, ast.Return):
            if self.loops:
                refuse(s, "return inside a loop")
            if self.sig["ends"] != "return" or s.value is None:
                refuse(s, "return in a procedure")
            v = s.value
            if (self.sig.get("eval3") and isinstance(v, ast.Call) and isinstance(v.func, ast.Name) and v.func.id == "eval"
                    and "eval" not in env and len(v.args) == 3 and not v.keywords):
                g, l = v.args[1], v.args[2]
                ok = (isinstance(g, ast.Call) and isinstance(g.func, ast.Name) and g.func.id == "dict" and len(g.args) == 1
                      and not g.keywords and isinstance(g.args[0], ast.Attribute) and g.args[0].attr == "context"
                      and isinstance(g.args[0].value, ast.Name) and g.args[0].value.id == "pset"
                      and isinstance(l, ast.Dict) and not l.keys)
                if not ok:
                    refuse(v, "eval with other globals / locals than dict(pset.context), {}")
                pre, t, ty = self.expr(v.args[0], env)
                if ty != "str":
                    refuse(v, "eval of a %s" % (ty,))
                return wrap(pre, "ret %s" % t)
            pre, t, ty = self.expr(v, env)
            if is_k(ty, "opt") and ty[1] == "?":
                refuse(s, "returned value of unknown type")
            return wrap(pre, "ret %s" % t)
        if isinstance(s, ast.Try):
            if s.orelse or s.finalbody or len(s.body) != 1 or not isinstance(s.body[0], (ast.Assign, ast.Return)):
                refuse(s, "try outside the grammar")
            for h in s.handlers:
                if not h.body or not isinstance(h.body[-1], ast.Raise):
                    refuse(h, "handler that does not end in raise")
                for b in h.body[:-1]:
                    if not isinstance(b, ast.Assign):
                        refuse(b, "handler statement")
            return self.block([s.body[0]] + rest, env, tail)
        refuse(s, "statement outside the grammar")

    def assign(self, s, target, value, env, cont):
        if isinstance(target, ast.Name) or isinstance(target, ast.Tuple):
            popped = None
            # x = l.pop() / d.popleft()
            if isinstance(value, ast.Call) and isinstance(value.func, ast.Attribute) \
                    and value.func.attr in ("pop", "popleft") and not value.args and not value.keywords:
                rd, ty, setter, base = self.place(value.func.value, env)
                if not is_k(ty, "list") or not isinstance(value.func.value, ast.Name):
                    refuse(s, "%s on a %s" % (value.func.attr, ty))
                x = self.fresh()
                pre = [("'(%s, %s)" % (x, rd), "(%s_ %s)" % (value.func.attr, rd))]
                t, vt = x, ty[1]
                popped = value.func.value.id
            else:
                pre, t, vt = self.expr(value, env)
                if vt == "mbool":
                    refuse(s, "assignment of a condition with effects")
            env2 = dict(env)
            if popped is not None:
                env2.pop("#alias:" + popped, None)
            if vt not in ("nat", "bool", "str", "ty", "cst", "arity"):
                # the new name may share a (mutable) item of a list whose items are changed in place
                for x in ast.walk(value):
                    if isinstance(x, ast.Subscript) and isinstance(x.value, ast.Name) and x.value.id in self.fresh_item_lists:
                        env2["#alias:" + x.value.id] = True
            if isinstance(target, ast.Name):
                env2[target.id] = vt
                return wrap(pre + [("v_%s := %s" % (target.id, t), None)], cont(env2))
            if len(target.elts) != 2 or not all(isinstance(x, ast.Name) for x in target.elts) or not is_k(vt, "pair"):
                refuse(s, "tuple assignment outside the grammar")
            a, b = target.elts[0].id, target.elts[1].id
            if a == b:
                refuse(s, "same name twice")
            env2[a], env2[b] = vt[1], vt[2]
            return wrap(pre + [("'(v_%s, v_%s) := %s" % (a, b, t), None)], cont(env2))
        if isinstance(target, ast.Attribute) and isinstance(target.value, ast.Name) and target.value.id == "self" \
                and self.sig.get("selfstore"):
            pre, t, vt = self.expr(value, env)
            if vt == "mbool" or vt == "?":
                refuse(s, "attribute value of type %s" % (vt,))
            env2 = dict(env)
            env2["self." + target.attr] = vt
            return wrap(pre + [("v_self_%s := %s" % (target.attr, t), None)], cont(env2))
        if isinstance(target, ast.Subscript):
            rd, ty, setter, base = self.place(target.value, env)
            pv, tv, yv = self.expr(value, env)
            pi, ti, yi = self.expr(target.slice, env)
            if is_k(ty, "list"):
                if yi != "nat" or unify(ty[1], yv) is None:
                    refuse(s, "item assignment of %s at %s in %s" % (yv, yi, ty))
                x = self.fresh()
                return wrap(pv + pi + [(x, "(setitem_ %s %s %s)" % (rd, ti, tv)), setter(x)], cont(env))
            if is_k(ty, "dict"):
                if yv == "compiled" and ty[1] in ("obj", "?"):     # a compiled tree stored in a dict is the object obj_of
                    tv, yv = "(obj_of cval %s)" % tv, "obj"
                if yi != "str" or unify(ty[1], yv) is None:
                    refuse(s, "entry assignment of %s at %s in %s" % (yv, yi, ty))
                env2 = dict(env)
                if isinstance(target.value, ast.Name):
                    env2[base] = D(unify(ty[1], yv))
                return wrap(pv + pi + [setter("(dset %s %s %s)" % (ti, tv, rd))], cont(env2))
            refuse(s, "item assignment on a %s" % (ty,))
        if isinstance(target, ast.Attribute) and target.attr == "value" and isinstance(target.value, ast.Subscript):
            # m[k].value = e : the object found in the mapping is changed in place (its state lives in the pset)
            sub = target.value
            rd, ty, setter, base = self.place(sub.value, env)
            if ty != D("node") or env.get(base) != "pset":
                refuse(s, "attribute assignment outside the grammar")
            pk, tk, yk = self.expr(sub.slice, env)
            pv, tv, yv = self.expr(value, env)
            if yk != "str" or yv != "str":
                refuse(s, "attribute assignment of %s at key %s" % (yv, yk))
            o, x = self.fresh("o"), "v_" + base
            return wrap(pv + pk + [(o, "(dget %s %s)" % (tk, rd)), (x, "(set_attr_value %s %s %s)" % (x, o, tv))], cont(env))
        refuse(s, "assignment target outside the grammar")

    def effect(self, s, c, env, cont):
        f = c.func
        if isinstance(f, ast.Attribute) and f.attr == "reverse" and not c.args and not c.keywords:
            rd, ty, setter, base = self.place(f.value, env)
            if not is_k(ty, "list"):
                refuse(s, "reverse on a %s" % (ty,))
            return wrap([setter("(reversed_ %s)" % rd)], cont(env))
        if not isinstance(f, ast.Attribute) or c.keywords or len(c.args) != 1 or isinstance(c.args[0], ast.Starred):
            refuse(s, "call statement outside the grammar")
        m, recv, arg = f.attr, f.value, c.args[0]
        # p[-1][k].append(e)
        if (m == "append" and isinstance(recv, ast.Subscript) and isinstance(recv.value, ast.Subscript)
                and isinstance(recv.value.value, ast.Name)):
            inner = recv.value
            ix = inner.slice
            if not (isinstance(ix, ast.UnaryOp) and isinstance(ix.op, ast.USub) and isinstance(ix.operand, ast.Constant)
                    and ix.operand.value == 1 and isinstance(recv.slice, ast.Constant) and recv.slice.value in (0, 1)
                    and not isinstance(recv.slice.value, bool)):
                refuse(s, "in-place change outside the grammar")
            name = inner.value.id
            ty = env.get(name)
            if name not in self.fresh_item_lists or not is_k(ty, "list") or not is_k(ty[1], "pair") \
                    or env.get("#alias:" + name):
                refuse(s, "in-place change of an item of %s, which may be shared" % name)
            k = recv.slice.value
            comp = ty[1][1 + k]
            pv, tv, yv = self.expr(arg, env)
            if not is_k(comp, "list") or unify(comp[1], yv) is None:
                refuse(s, "append of %s to %s" % (yv, comp))
            newty = list(ty[1])
            newty[1 + k] = L(unify(comp[1], yv))
            env2 = dict(env)
            env2[name] = L(tuple(newty))
            x = self.fresh()
            upd = "(fun it => (fst it, (snd it ++ [%s])))" % tv if k == 1 else "(fun it => ((fst it ++ [%s]), snd it))" % tv
            return wrap(pv + [("v_" + name, "(upd_last_ v_%s %s)" % (name, upd))], cont(env2))
        rd, ty, setter, base = self.place(recv, env)
        pv, tv, yv = self.expr(arg, env)
        env2 = dict(env)
        if m == "append" and is_k(ty, "list"):
            u = unify(ty[1], yv)
            if u is None:
                refuse(s, "append of %s to %s" % (yv, ty))
            if isinstance(recv, ast.Name):
                env2[base] = L(u)
            return wrap(pv + [setter("(%s ++ [%s])" % (rd, coerce(tv, yv, u, s)))], cont(env2))
        if m == "extendleft" and is_k(ty, "list") and is_k(yv, "list"):
            u = unify(ty[1], yv[1])
            if u is None:
                refuse(s, "extendleft of %s to %s" % (yv, ty))
            if isinstance(recv, ast.Name):
                env2[base] = L(u)
            return wrap(pv + [setter("(extendleft_ %s %s)" % (rd, tv))], cont(env2))
        if m == "update" and is_k(ty, "dict") and is_k(yv, "dict"):
            u = unify(ty[1], yv[1])
            if u is None:
                refuse(s, "update of %s with %s" % (ty, yv))
            if isinstance(recv, ast.Name):
                env2[base] = D(u)
            # the argument may be the same kind of dict with its value type still unknown
            if isinstance(arg, ast.Name) and is_k(env.get(arg.id), "dict"):
                env2[arg.id] = D(u)
            return wrap(pv + [setter("(dupdate %s %s)" % (rd, tv))], cont(env2))
        refuse(s, "method %s on a %s" % (m, ty))

    @staticmethod
    def fresh_item(e):
        return isinstance(e, ast.Tuple) and all(isinstance(x, ast.Name) or (isinstance(x, ast.List) and not x.elts)
                                                for x in e.elts)

    def hand_on(self, how, env, node):
        lp = self.loops[-1]
        lp.seen.append(dict(env))
        vals = []
        for v in lp.state:
            if v not in env:
                refuse(node, "%s may be unbound" % v)
            vals.append(coerce("v_" + v, env[v], lp.types[v], node) if unify(env[v], lp.types[v]) is not None else "v_" + v)
        return "ret (%s, %s)" % (how, self.tup(vals))

    @staticmethod
    def tup(vals):
        if not vals:
            return "tt"
        if len(vals) == 1:
            return vals[0]
        return "(%s)" % ", ".join(vals)

    @staticmethod
    def pat(names):
        if not names:
            return "_"
        if len(names) == 1:
            return "v_" + names[0]
        return "'(%s)" % ", ".join("v_" + n for n in names)

    def if_(self, s, env, rest, tail):
        # `if x is None: x = e` : narrowing of an optional value
        t = s.test
        if (isinstance(t, ast.Compare) and len(t.ops) == 1 and isinstance(t.ops[0], ast.Is) and isinstance(t.left, ast.Name)
                and isinstance(t.comparators[0], ast.Constant) and t.comparators[0].value is None and not s.orelse
                and len(s.body) == 1 and isinstance(s.body[0], ast.Assign) and len(s.body[0].targets) == 1
                and isinstance(s.body[0].targets[0], ast.Name) and s.body[0].targets[0].id == t.left.id):
            x = t.left.id
            ty = env.get(x)
            if ty is None or not is_k(ty, "opt"):
                refuse(s, "%s is not an optional value" % x)
            pre, tv, yv = self.expr(s.body[0].value, env)
            u = unify(ty[1], yv)
            if pre or u is None or is_k(yv, "opt"):
                refuse(s, "default outside the grammar")
            env2 = dict(env)
            env2[x] = u
            return "let v_%s := match v_%s with Some v_%s => v_%s | None => %s end in\n %s" % (
                x, x, x, x, tv, self.block(rest, env2, tail))
        pre, c = self.pure_bool(t, env)
        live = names_read(rest) | self.live_out
        cand = sorted((names_assigned(s.body) | names_assigned(s.orelse)) & live)
        # first pass: the environments at the end of the branches
        ends_then, ends_else = [], []
        saved = self.n, [list(lp.seen) for lp in self.loops]
        self.block(s.body, env, lambda e2: (ends_then.append(e2), "PROBE")[1])
        self.block(s.orelse, env, lambda e2: (ends_else.append(e2), "PROBE")[1])
        self.n = saved[0]
        for lp, sn in zip(self.loops, saved[1]):
            lp.seen = sn

        def never(e2):
            refuse(s, "internal: branch was found to leave")

        if not ends_then and not ends_else:          # both branches leave: nothing follows
            return wrap(pre, "if %s then %s\n else %s" % (c, self.block(s.body, env, never), self.block(s.orelse, env, never)))
        if not ends_then:                            # the then-branch leaves: the rest follows the else-branch
            return wrap(pre, "if %s then %s\n else %s" % (
                c, self.block(s.body, env, never), self.block(list(s.orelse) + list(rest), env, tail)))
        if not ends_else:
            return wrap(pre, "if %s then %s\n else %s" % (
                c, self.block(list(s.body) + list(rest), env, tail), self.block(s.orelse, env, never)))
        ends = ends_then + ends_else
        jenv = dict(env)
        jvars = []
        for v in cand:
            tys = [e2.get(v) for e2 in ends]
            u = tys[0]
            for x in tys[1:]:
                u = unify(u, x) if (u is not None and x is not None) else None
            if u is None:                            # unbound on a path, or of two types: not visible afterwards
                jenv.pop(v, None)
                continue
            jenv[v] = u
            jvars.append(v)
        for e2 in ends:
            for mk in e2:
                if mk.startswith("#"):
                    jenv[mk] = True
        k = self.fresh("k")

        def join(e2):
            return "%s %s" % (k, self.tup([coerce("v_" + v, e2[v], jenv[v], s) for v in jvars]))

        rest_txt = self.block(rest, jenv, tail)
        return wrap(pre, "let %s := (fun %s => %s) in\n if %s then %s\n else %s" % (
            k, self.pat(jvars), rest_txt, c, self.block(s.body, env, join), self.block(s.orelse, env, join)))

    def loop_state(self, s, env, extra_targets):
        """names the body changes that exist before the loop, in the order of their first binding in the function
        (so that renaming a local does not permute the state)"""
        st = sorted((v for v in names_assigned(s.body) if v in env and v not in extra_targets),
                    key=lambda v: self.order.get(v, (0, 0, v)))
        return st

    def run_loop(self, s, env, state, make):
        """translate the loop body until the types of the loop state are stable; make(loop, env_in) -> text"""
        types = {v: env[v] for v in state}
        marks = set(k for k in env if k.startswith("#"))
        for _ in range(6):
            lp = Loop(state, types)
            self.loops.append(lp)
            saved = self.n
            try:
                env_in = dict(env)
                env_in.update(types)
                for mk in marks:
                    env_in[mk] = True
                txt = make(lp, env_in)
            finally:
                self.loops.pop()
            seen_marks = set(k for e2 in lp.seen for k in e2 if k.startswith("#"))
            if not seen_marks <= marks:
                marks |= seen_marks
                self.n = saved
                continue
            new = dict(types)
            for e2 in lp.seen:
                for v in state:
                    u = unify(new[v], e2[v]) if v in e2 else None
                    if u is None:
                        refuse(s, "%s changes its type in the loop" % v)
                    new[v] = u
            if new == types:
                types = dict(types)
                for mk in marks:
                    types[mk] = True
                return txt, types
            types = new
            self.n = saved
        refuse(s, "types of the loop state do not settle")

    def for_(self, s, env, cont):
        if s.orelse:
            refuse(s, "for-else")
        targets = [s.target.id] if isinstance(s.target, ast.Name) else \
            [x.id for x in s.target.elts] if isinstance(s.target, ast.Tuple) and len(s.target.elts) == 2 and all(
                isinstance(x, ast.Name) for x in s.target.elts) else None
        if targets is None or len(set(targets)) != len(targets):
            refuse(s, "loop target outside the grammar")
        after = self.live_out
        for tname in targets:
            if tname in env:
                refuse(s, "loop variable %s shadows a bound name" % tname)
        state = self.loop_state(s, env, targets)
        it = s.iter
        live_list = None
        # enumerate(p) with p changed by item assignment in the body: items are read live
        if isinstance(it, ast.Call) and isinstance(it.func, ast.Name) and it.func.id == "enumerate" and len(it.args) == 1 \
                and not it.keywords and "enumerate" not in env:
            try:
                rd, ty, _, base = self.place(it.args[0], env)
            except Refuse:
                base = None
            if base is not None and base in state:
                self.only_setitem(s.body, it.args[0])
                live_list = it.args[0]
        if live_list is not None:
            rd, ty, _, base = self.place(live_list, env)
            if not is_k(ty, "list") or len(targets) != 2:
                refuse(s, "enumerate outside the grammar")
            ipre, itxt, ity = [], "(range_ (List.length %s))" % rd, L("nat")
        else:
            ipre, itxt, ity = self.expr(it, env)
            if not is_k(ity, "list"):
                refuse(s, "iteration over a %s" % (ity,))
            for x in ast.walk(it):
                if isinstance(x, ast.Name) and x.id in self.fresh_item_lists:
                    self.fresh_item_lists.discard(x.id)
            for v in names_read([it]):
                if v in state:
                    refuse(s, "the iterated value depends on %s, which the body changes" % v)

        def make(lp, env_in):
            env_b = dict(env_in)
            if live_list is not None:
                rd2, ty2, _, _ = self.place(live_list, env_in)
                env_b[targets[0]] = "nat"
                env_b[targets[1]] = ty2[1]
                body = self.block(s.body, env_b, lambda e2: self.hand_on("Next", e2, s))
                body = "bind (nth_error %s v_%s) (fun v_%s =>\n %s)" % (rd2, targets[0], targets[1], body)
                xpat = "v_" + targets[0]
            else:
                el = ity[1]
                if len(targets) == 1:
                    env_b[targets[0]] = el
                    xpat = "v_" + targets[0]
                else:
                    if not is_k(el, "pair"):
                        refuse(s, "pair target over items of type %s" % (el,))
                    env_b[targets[0]], env_b[targets[1]] = el[1], el[2]
                    xpat = "'(v_%s, v_%s)" % tuple(targets)
                body = self.block(s.body, env_b, lambda e2: self.hand_on("Next", e2, s))
            return "(for_ %s (fun %s %s =>\n %s) %s)" % (itxt, xpat, self.pat(lp.state), body,
                                                       self.tup([coerce("v_" + v, env[v], lp.types[v], s) for v in lp.state]))

        saved_live = self.live_out
        self.live_out = self.live_out | names_read([s])
        try:
            txt, types = self.run_loop(s, env, state, make)
        finally:
            self.live_out = saved_live
        env2 = dict(env)
        env2.update(types)
        return wrap(ipre + [(self.pat(state), txt)], cont(env2))

    def only_setitem(self, body, lst):
        """the list expression `lst` is only changed by item assignment in the body"""
        d = ast.dump(lst)
        base = lst
        while isinstance(base, ast.Attribute):
            base = base.value
        for st in body:
            for n in ast.walk(st):
                if isinstance(n, ast.Assign):
                    for t in n.targets:
                        if isinstance(t, ast.Subscript) and ast.dump(t.value).replace("Store()", "Load()") == d:
                            if isinstance(t.slice, ast.Slice):
                                refuse(n, "slice assignment to the iterated list")
                        elif isinstance(t, ast.Name) and isinstance(base, ast.Name) and t.id == base.id:
                            refuse(n, "the iterated list is rebound")
                        elif isinstance(t, ast.Attribute) and ast.dump(t).replace("Store()", "Load()") == d:
                            refuse(n, "the iterated list is rebound")
                elif isinstance(n, ast.Call) and isinstance(n.func, ast.Attribute) and ast.dump(n.func.value) == d:
                    refuse(n, "the iterated list is changed by a method")
                elif isinstance(n, ast.Delete):
                    for t in n.targets:
                        if isinstance(t, ast.Subscript) and ast.dump(t.value).replace("Del()", "Load()") == d:
                            refuse(n, "deletion in the iterated list")

    def while_(self, s, env, cont):
        if s.orelse:
            refuse(s, "while-else")
        state = self.loop_state(s, env, [])
        # fuel: one more than the total length of the lists in the loop state at entry.  Not trusted: when it does not
        # suffice the regenerated function returns None and the equality with the model fails.
        lists = [v for v in state if is_k(env[v], "list")]
        if not lists:
            refuse(s, "while loop without a list in its state (no fuel)")
        fuel = "(S (%s))" % " + ".join("List.length v_%s" % v for v in lists)

        def make(lp, env_in):
            cpre, c = self.pure_bool(s.test, env_in)
            body = self.block(s.body, env_in, lambda e2: self.hand_on("Next", e2, s))
            return "(while_ %s (fun %s => %s) (fun %s =>\n %s) %s)" % (
                fuel, self.pat(lp.state), wrap(cpre, "ret %s" % c), self.pat(lp.state), body,
                self.tup([coerce("v_" + v, env[v], lp.types[v], s) for v in lp.state]))

        saved_live = self.live_out
        self.live_out = self.live_out | names_read([s])
        try:
            txt, types = self.run_loop(s, env, state, make)
        finally:
            self.live_out = saved_live
        env2 = dict(env)
        env2.update(types)
        return wrap([(self.pat(state), txt)], cont(env2))

    # ---------------------------------------------------------------- a function
    def function(self, fd):
        sig = self.sig
        a = fd.args
        if a.posonlyargs or a.kwonlyargs or a.defaults or a.kw_defaults:
            refuse(fd, "parameter list outside the grammar")
        expected = list(sig["env"].keys())
        got = [x.arg for x in a.args]
        if "selfattrs" in sig or sig.get("selfstore"):
            if not got or got[0] != "self":
                refuse(fd, "method without self")
            got = got[1:]
        if (a.vararg.arg if a.vararg else None) != sig.get("vararg") or (a.kwarg.arg if a.kwarg else None) != sig.get("kwarg"):
            refuse(fd, "star parameters differ from the signature table")
        if a.vararg:
            got.append(a.vararg.arg)
        if a.kwarg:
            got.append(a.kwarg.arg)
        if got != expected:
            refuse(fd, "parameters %s differ from the signature table %s" % (got, expected))
        for d in fd.decorator_list:
            if not (isinstance(d, ast.Name) and d.id in ("classmethod",)):
                refuse(fd, "decorator")
        env = dict(sig["env"])
        self.live_out = set()
        # parameters rebound by a plain assignment somewhere: from then on the name may hold a local value
        self.rebound = set()
        for n in ast.walk(fd):
            if isinstance(n, ast.Assign):
                for t in n.targets:
                    for x in ([t] if isinstance(t, ast.Name) else t.elts if isinstance(t, ast.Tuple) else []):
                        if isinstance(x, ast.Name):
                            self.rebound.add(x.id)
        self.order = {}
        for n in ast.walk(fd):
            tg = []
            if isinstance(n, ast.Assign):
                tg = n.targets
            elif isinstance(n, ast.For):
                tg = [n.target]
            elif isinstance(n, ast.Expr) and isinstance(n.value, ast.Call):
                tg = [n.value.func]
            for t in tg:
                for x in ast.walk(t):
                    if isinstance(x, ast.Name):
                        pos = (n.lineno, n.col_offset, x.id)
                        if x.id not in self.order or pos < self.order[x.id]:
                            self.order[x.id] = pos
        # local lists whose items are only created by fresh displays (so that an item can be changed in place)
        self.fresh_item_lists = set()
        for n in ast.walk(fd):
            if isinstance(n, ast.Assign) and len(n.targets) == 1 and isinstance(n.targets[0], ast.Name) \
                    and isinstance(n.value, ast.List) and not n.value.elts:
                self.fresh_item_lists.add(n.targets[0].id)
        for n in ast.walk(fd):          # ... and never bound to a second name or stored anywhere
            if isinstance(n, ast.Assign):
                if isinstance(n.value, ast.Name) and n.value.id in self.fresh_item_lists:
                    self.fresh_item_lists.discard(n.value.id)
                for t in n.targets:
                    if isinstance(t, ast.Name) and t.id in self.fresh_item_lists and not (
                            isinstance(n.value, ast.List) and not n.value.elts):
                        self.fresh_item_lists.discard(t.id)
        for n in ast.walk(fd):          # ... and whose items are all pairs of names and fresh empty lists
            if isinstance(n, ast.Call) and isinstance(n.func, ast.Attribute) and isinstance(n.func.value, ast.Name) \
                    and n.func.value.id in self.fresh_item_lists:
                if n.func.attr == "append" and len(n.args) == 1 and self.fresh_item(n.args[0]):
                    continue
                if n.func.attr == "pop" and not n.args:
                    continue
                self.fresh_item_lists.discard(n.func.value.id)
        if sig["ends"].startswith("attr:"):
            attr = sig["ends"][5:]

            def tail(e2):
                if "self." + attr not in e2:
                    refuse(fd, "self.%s is not set" % attr)
                return "ret v_self_" + attr
        elif sig["ends"] == "self":
            def tail(e2):
                return "ret v_self"
        else:
            def tail(e2):
                refuse(fd, "the function may end without return")
        return self.block(fd.body, env, tail)


def find_function(tree, cls, name):
    body = tree.body
    if cls is not None:
        cs = [n for n in body if isinstance(n, ast.ClassDef) and n.name == cls]
        if len(cs) != 1:
            raise Refuse("Module", "class %s not found exactly once" % cls)
        body = cs[0].body
    fs = [n for n in body if isinstance(n, ast.FunctionDef) and n.name == name]
    if len(fs) != 1:
        raise Refuse("Module", "function %s not found exactly once" % name)
    return fs[0]


# names the grammar reads as Python builtins: a module-level binding of one of them changes their meaning
BUILTINS_USED = {"len", "str", "repr", "reversed", "list", "zip", "enumerate", "issubclass", "type", "isinstance", "eval",
                 "range", "map", "dict", "TypeError", "NameError", "MemoryError"}


def module_bound(tree):
    out = {}
    for n in tree.body:
        if isinstance(n, (ast.FunctionDef, ast.ClassDef, ast.AsyncFunctionDef)):
            out[n.name] = n
        elif isinstance(n, (ast.Import, ast.ImportFrom)):
            for a in n.names:
                out[(a.asname or a.name).split(".")[0]] = n
        else:
            for x in ast.walk(n):
                if isinstance(x, ast.Name) and isinstance(x.ctx, ast.Store):
                    out[x.id] = n
    return out


def check_globals(tree):
    """the module-level names the grammar relies on mean what the signature table assumes"""
    mb = module_bound(tree)
    bad = sorted(BUILTINS_USED & set(mb))
    if bad:
        raise Refuse(mb[bad[0]], "the builtin name %s is rebound at module level" % bad[0])
    for name, kind in (("Primitive", ast.ClassDef), ("Terminal", ast.ClassDef), ("compile", ast.FunctionDef)):
        if not isinstance(mb.get(name), kind):
            raise Refuse("Module", "%s is not the module-level %s the signature table assumes" % (name, kind.__name__))
    r = mb.get("re")
    if not (isinstance(r, ast.Import) and any(a.name == "re" and a.asname is None for a in r.names)):
        raise Refuse("Module", "`re` is not the standard module imported as `import re`")
    d = mb.get("deque")
    if d is not None and not (isinstance(d, ast.ImportFrom) and d.module == "collections" and d.level == 0
                              and any(a.name == "deque" and a.asname is None for a in d.names)):
        raise Refuse("Module", "`deque` is not collections.deque")


def gen_names():
    return [f["gen"] for f in FUNCS if isinstance(f, dict)]


def translate_source(src, forced=None):
    """-> (text of Gen/C12_gen.v, {gen name: None (translated) | Refuse})"""
    forced = dict(forced or {})
    for n in os.environ.get("C12_FORCE_REFUSE", "").split(","):
        if n.strip():
            forced.setdefault(n.strip(), Refuse("FunctionDef", "refusal forced by C12_FORCE_REFUSE"))
    try:
        tree = ast.parse(src)
        perr = None
    except (SyntaxError, ValueError) as e:
        tree, perr = None, Refuse("Module", "the source does not parse: %s" % e)
    if tree is not None:
        try:
            check_globals(tree)
        except Refuse as r:
            perr = r
    out = [HEADER]
    status = {}
    for sig in FUNCS:
        if sig == "INTERLUDE_FORMAT":
            out.append(INTERLUDE_FORMAT)
            continue
        g = sig["gen"]
        try:
            if perr is not None:
                raise perr
            if g in forced:
                raise forced[g]
            fd = find_function(tree, sig["cls"], sig["py"])
            body = Tr(sig).function(fd)
            if "PROBE" in body:
                raise Refuse(fd, "internal: unresolved probe")
            out.append("(* %s%s, line %d *)\nDefinition %s %s :=\n %s.\n" % (
                (sig["cls"] + "." if sig["cls"] else ""), sig["py"], fd.lineno, g, sig["coq_params"], body))
            status[g] = None
        except Refuse as r:
            out.append("(* REFUSED: %s%s -- %s *)\nDefinition %s %s :=\n %s.\n" % (
                (sig["cls"] + "." if sig["cls"] else ""), sig["py"], str(r).replace("*)", "* )").replace("(*", "( *"),
                g, sig["coq_params"], sig["placeholder"]))
            status[g] = r
        except Exception as e:  # noqa  (a translator fault on this function is a refusal of this function: fail closed)
            r = Refuse("Module", "translator error %s: %s" % (type(e).__name__, e))
            out.append("(* REFUSED: %s *)\nDefinition %s %s :=\n %s.\n" % (r, g, sig["coq_params"], sig["placeholder"]))
            status[g] = r
    trailer = os.path.join(os.path.dirname(os.path.abspath(__file__)), "c12_gen_trailer.v.in")
    if os.path.exists(trailer):
        out.append(open(trailer).read())
    return "\n".join(out), status


def translate_repo(repo, forced=None):
    with open(os.path.join(repo, "deap", "gp.py")) as f:
        src = f.read()
    return translate_source(src, forced)


if __name__ == "__main__":
    import sys
    txt, st = translate_repo(sys.argv[1] if len(sys.argv) > 1 else os.environ.get("VERIF_REPO", "/repo"))
    sys.stdout.write(txt)
    for k, v in st.items():
        sys.stderr.write("%s: %s\n" % (k, "translated" if v is None else v))
