"""C07 — SPEA2, NSGA-III selection and the reference-point generator (deap/tools/emo.py)."""
import itertools
import math
from fractions import Fraction

import os
import re
import time

import numpy

import vlib
from vlib import cz, czl, cnat, cnatl, cbool, clist, copt, cq, cfloat, guarded

GEN = os.path.join(vlib.COQ, "Gen", "C07_gen.v")


def regen(repo=None, typecheck=True):
    """Tie (T): regenerate coq/Gen/C07_gen.v from the working tree's deap/tools/emo.py (harness/c07_py2coq.py).
    A function the translator refuses is emitted as an alias of the model; so is one whose generated definition
    does not type-check (the translator must never make the build fail on a source it did not understand).
    Returns {function: None (regenerated) | refusal text}."""
    import c07_py2coq
    repo = repo or vlib.REPO
    forced = {}
    status = {}
    for _ in range(len(c07_py2coq.FUNCTIONS) + 1):
        text, status = c07_py2coq.translate_repo(repo, forced)
        with vlib.BuildLock():
            os.makedirs(os.path.dirname(GEN), exist_ok=True)
            old = open(GEN).read() if os.path.exists(GEN) else None
            if old != text:
                with open(GEN, "w") as f:
                    f.write(text)
        if not typecheck or all(v is not None for v in status.values()):
            break
        ok, out = vlib.make_targets(["Gen/C07_gen.vo"], timeout=1200)
        for attempt in range(2):
            if ok or "Error" in out:
                break
            time.sleep(10)                       # make died without a Coq error (killed): not a verdict
            ok, out = vlib.make_targets(["Gen/C07_gen.vo"], timeout=1200)
        if ok:
            break
        m = re.search(r'File "\./Gen/C07_gen\.v", line (\d+)', out)
        if not m:
            break                                # the failure is elsewhere: reported by build_props
        line = int(m.group(1))
        culprit = None
        for k, l in enumerate(text.splitlines(), 1):
            d = re.match(r"(?:Definition|Fixpoint) (gen_\w+)", l)
            if d and k <= line:
                culprit = [f for f, g in c07_py2coq.GEN_NAME.items() if g == d.group(1)][0]
        if culprit is None or culprit in forced or status.get(culprit) is not None:
            break
        forced[culprit] = c07_py2coq.Refuse("FunctionDef", "the generated definition does not type-check: %s"
                                            % " ".join(out[m.end():m.end() + 300].split()))
    return {k: (None if v is None else str(v)) for k, v in status.items()}

GEN_KINDS = ("CSelectQ", "CSelectF", "CSpea2Q", "CSpea2F", "CRefF", "CRefQ")     # case kinds Corr/C07_gen.v re-evaluates with the regenerated definitions
EPS = Fraction(1, 2 ** 52)          # numpy.finfo(float).eps


# ----------------------------------------------------------------------------
# literals
# ----------------------------------------------------------------------------
def cfl(l):
    return clist([cfloat(x) for x in l])


def cfll(ll):
    return clist([cfl(l) for l in ll])


def cql(l):
    return clist([cq(x) for x in l])


def cqll(ll):
    return clist([cql(l) for l in ll])


def czll(ll):
    return clist([czl(l) for l in ll])


def cnatll(ll):
    return clist([cnatl(l) for l in ll])


# ----------------------------------------------------------------------------
# independent statements used by the oracle
# ----------------------------------------------------------------------------
def dom(a, b):
    """a dominates b on weighted values (maximisation)."""
    return all(x >= y for x, y in zip(a, b)) and any(x > y for x, y in zip(a, b))


def depths(wv):
    """Pareto depth of every individual by peeling (independent of deap's sorters)."""
    n = len(wv)
    depth = [None] * n
    left = set(range(n))
    d = 0
    while left:
        front = [i for i in left if not any(dom(wv[j], wv[i]) for j in left)]
        for i in front:
            depth[i] = d
        left -= set(front)
        d += 1
    return depth


def perp_d2(fn, r):
    """squared distance from the point fn to the line spanned by r (exact, Fractions)."""
    rr = sum(x * x for x in r)
    t = sum(x * y for x, y in zip(fn, r)) / rr
    return sum((t * y - x) ** 2 for x, y in zip(fn, r))


# ----------------------------------------------------------------------------
# find_intercepts recomputed exactly (independent of the Coq model; used for the oracle and to
# decide, from exact quantities only, whether rounding can change a decision of the float code)
# ----------------------------------------------------------------------------
TOL6 = Fraction(1e-6)


def solve_frac(A, b):
    """the unique solution of A x = b over the rationals (Gauss-Jordan), None when A is singular"""
    n = len(A)
    m = [list(r) + [Fraction(v)] for r, v in zip(A, b)]
    for c in range(n):
        piv = next((r for r in range(c, n) if m[r][c] != 0), None)
        if piv is None:
            return None
        m[c], m[piv] = m[piv], m[c]
        m[c] = [v / m[c][c] for v in m[c]]
        for r in range(n):
            if r != c and m[r][c] != 0:
                f = m[r][c]
                m[r] = [v - f * u for v, u in zip(m[r], m[c])]
    return [m[r][n] for r in range(n)]


def _dyadic_small(v):
    v = Fraction(v)
    d = v.denominator
    return d & (d - 1) == 0 and d <= 2 ** 24 and abs(v.numerator) < 2 ** 34


def _pow2(v):
    v = abs(Fraction(v))
    return v != 0 and v.numerator & (v.numerator - 1) == 0 and v.denominator & (v.denominator - 1) == 0


def lu_is_exact(A):
    """Is the singularity of A met EXACTLY by the binary64 LU with partial pivoting, so that numpy.linalg.solve
    certainly raises LinAlgError?  True for a zero row or a zero column (they stay exactly zero whatever the rounding
    of the other entries, so some pivot is exactly zero).  Otherwise the elimination is simulated exactly and must only
    use pivots that are powers of two - OpenBLAS multiplies by the rounded reciprocal of the pivot, so even two identical
    rows need not cancel exactly (observed: [[999999,4,0],[999999,4,0],[0,1,3999999]] is NOT reported singular) - and
    short dyadic multipliers / entries."""
    n = len(A)
    m = [list(r) for r in A]
    if any(all(v == 0 for v in r) for r in m) or any(all(m[r][c] == 0 for r in range(n)) for c in range(n)):
        return True
    if not all(_dyadic_small(v) for r in m for v in r):
        return False
    for c in range(n):
        piv = max(range(c, n), key=lambda r: (abs(m[r][c]), -r))
        if m[piv][c] == 0:
            return True
        if not _pow2(m[piv][c]):
            return False
        m[c], m[piv] = m[piv], m[c]
        for r in range(c + 1, n):
            f = m[r][c] / m[c][c]
            if not _dyadic_small(f):
                return False
            m[r] = [v - f * u for v, u in zip(m[r], m[c])]
            if not all(_dyadic_small(v) for v in m[r]):
                return False
    return True


def icpt_exact(ext, best, worst, fw):
    """find_intercepts over the rationals: branch, result, and whether the branch is stable under rounding"""
    M = len(best)
    ext = [[Fraction(v) for v in r] for r in ext]
    best, worst, fw = [Fraction(v) for v in best], [Fraction(v) for v in worst], [Fraction(v) for v in fw]
    A = [[z - b for z, b in zip(row, best)] for row in ext]
    x = solve_frac(A, [1] * M)
    if x is None:
        return {"branch": "singular", "result": worst, "robust": lu_is_exact(A), "tol": Fraction(1, 10 ** 9)}
    inv_cols = [solve_frac(A, [1 if i == j else 0 for i in range(M)]) for j in range(M)]
    norm_a = max(sum(abs(v) for v in r) for r in A)
    norm_inv = max(sum(abs(inv_cols[j][i]) for j in range(M)) for i in range(M))
    cond = norm_a * norm_inv
    tol = max(Fraction(1, 10 ** 9), cond * Fraction(1, 10 ** 14))
    well = cond <= 10 ** 6
    if any(v == 0 for v in x):
        return {"branch": "zero", "result": fw, "robust": well, "tol": tol, "cond": cond}
    a = [1 / v for v in x]
    viol, clear_viol, all_clear = False, False, True
    for aj, bj, wj in zip(a, best, worst):
        m1 = abs(aj - TOL6) > 10 * tol * (abs(aj) + TOL6)
        m2 = abs(aj + bj - wj) > 10 * tol * abs(aj) + Fraction(1, 10 ** 14) * (abs(aj + bj) + abs(wj))
        v1, v2 = aj <= TOL6, aj + bj > wj
        viol = viol or v1 or v2
        clear_viol = clear_viol or (v1 and m1) or (v2 and m2)
        all_clear = all_clear and m1 and m2
    if viol:
        return {"branch": "guard", "result": fw, "robust": well and clear_viol, "tol": tol, "cond": cond, "a": a}
    return {"branch": "main", "result": a, "robust": well and all_clear, "tol": tol, "cond": cond, "a": a}


def shuffle_code(before, after):
    """code c with: element before[i] is inserted at position c[i] among before[0..i-1] as ordered in `after`."""
    pos = {x: i for i, x in enumerate(after)}
    return [sum(1 for j in range(i) if pos[before[j]] < pos[before[i]]) for i in range(len(before))]


# ----------------------------------------------------------------------------
# recording proxies installed in the namespace of deap.tools.emo
# ----------------------------------------------------------------------------
class RandomProxy(object):
    def __init__(self, seed):
        import random as _r
        self._rng = _r.Random(seed)
        self.log = []

    def randint(self, a, b):
        r = self._rng.randint(a, b)
        self.log.append(r)
        return r

    def __getattr__(self, name):
        return getattr(self._rng, name)


class NpRandomProxy(object):
    def __init__(self, seed):
        self._rs = numpy.random.RandomState(seed)
        self.log = []

    def shuffle(self, arr):
        before = [int(x) for x in arr]
        self._rs.shuffle(arr)
        after = [int(x) for x in arr]
        if sorted(before) != sorted(after) or len(set(before)) != len(before):
            raise RuntimeError("shuffle proxy: not a permutation of distinct values")
        self.log.append(shuffle_code(before, after))

    def __getattr__(self, name):
        return getattr(self._rs, name)


class NumpyProxy(object):
    def __init__(self, seed):
        self.random = NpRandomProxy(seed)

    def __getattr__(self, name):
        return getattr(numpy, name)


class Recorder(object):
    """Replaces random / numpy / helper functions in deap.tools.emo by logging versions."""
    NAMES = ["random", "numpy", "_randomizedSelect", "sortNondominated", "sortLogNondominated",
             "associate_to_niche", "niching", "find_extreme_points", "find_intercepts"]

    def __init__(self, emo, seed):
        self.emo = emo
        self.saved = {n: getattr(emo, n) for n in self.NAMES}
        self.rnd = RandomProxy(seed)
        self.np = NumpyProxy(seed)
        self.selects = []       # (array copy, K, draws, result)
        self.fronts = []
        self.assoc = []
        self.nich = []
        self.extreme = []
        self.icpt = []
        self._depth = 0

    def __enter__(self):
        emo, saved = self.emo, self.saved
        emo.random = self.rnd
        emo.numpy = self.np

        def rsel(array, begin, end, i):
            if self._depth == 0:
                rec = {"array": list(array), "begin": begin, "end": end, "i": i, "d0": len(self.rnd.log)}
            self._depth += 1
            try:
                r = saved["_randomizedSelect"](array, begin, end, i)
            finally:
                self._depth -= 1
            if self._depth == 0:
                rec["draws"] = self.rnd.log[rec["d0"]:]
                rec["result"] = r
                self.selects.append(rec)
            return r

        def mk_sort(name):
            def f(individuals, k, first_front_only=False):
                r = saved[name](individuals, k, first_front_only)
                self.fronts.append([list(fr) for fr in r])
                return r
            return f

        def assoc(fitnesses, reference_points, best_point, intercepts):
            args = (numpy.array(fitnesses, dtype=float), numpy.array(reference_points, dtype=float),
                    numpy.array(best_point, dtype=float).reshape(-1), numpy.array(intercepts, dtype=float).reshape(-1))
            niches, dist = saved["associate_to_niche"](fitnesses, reference_points, best_point, intercepts)
            self.assoc.append({"fits": args[0], "refs": args[1], "best": args[2], "icpt": args[3],
                               "niches": [int(x) for x in niches], "dist": [float(x) for x in dist]})
            return niches, dist

        def nich(individuals, k, niches, distances, niche_counts):
            rec = {"inds": list(individuals), "k": int(k), "niches": [int(x) for x in niches],
                   "dist": [float(x) for x in distances], "counts0": [int(x) for x in niche_counts],
                   "d0": len(self.np.random.log)}
            r = saved["niching"](individuals, k, niches, distances, niche_counts)
            rec["codes"] = self.np.random.log[rec["d0"]:]
            rec["counts1"] = [int(x) for x in niche_counts]
            rec["selected"] = list(r)
            self.nich.append(rec)
            return r

        def fext(fitnesses, best_point, extreme_points=None):
            r = saved["find_extreme_points"](fitnesses, best_point, extreme_points)
            self.extreme.append({"fits": numpy.array(fitnesses, dtype=float), "best": numpy.array(best_point, dtype=float).reshape(-1),
                                 "prev": None if extreme_points is None else numpy.array(extreme_points, dtype=float),
                                 "result": numpy.array(r, dtype=float)})
            return r

        def ficpt(extreme_points, best_point, current_worst, front_worst):
            before = [numpy.array(v, dtype=float) for v in (extreme_points, best_point, current_worst, front_worst)]
            r = saved["find_intercepts"](extreme_points, best_point, current_worst, front_worst)
            extreme_points, best_point, current_worst, front_worst = before      # the inputs as they were given
            self.icpt.append({"ext": numpy.array(extreme_points, dtype=float),
                              "best": numpy.array(best_point, dtype=float).reshape(-1),
                              "worst": numpy.array(current_worst, dtype=float).reshape(-1),
                              "front_worst": numpy.array(front_worst, dtype=float).reshape(-1),
                              "result": numpy.array(r, dtype=float).reshape(-1)})
            return r

        emo.find_extreme_points = fext
        emo.find_intercepts = ficpt
        emo._randomizedSelect = rsel
        emo.sortNondominated = mk_sort("sortNondominated")
        emo.sortLogNondominated = mk_sort("sortLogNondominated")
        emo.associate_to_niche = assoc
        emo.niching = nich
        return self

    def __exit__(self, *a):
        for n, v in self.saved.items():
            setattr(self.emo, n, v)
        return False


# ----------------------------------------------------------------------------
# populations
# ----------------------------------------------------------------------------
class PopFactory(object):
    def __init__(self, base):
        self.base = base
        self.classes = {}

    def cls(self, w, int_weights=False):
        """int_weights: the weights are Python integers (with integer values the weighted values stay integers, and the
        numpy arrays built from them have an integer dtype)"""
        w = tuple(int(x) for x in w) if int_weights else tuple(float(x) for x in w)
        key = (w, bool(int_weights))
        if key not in self.classes:
            F = type("F%d" % len(self.classes), (self.base.Fitness,), {"weights": w})
            self.classes[key] = (type("Ind%d" % len(self.classes), (list,), {}), F)
        return self.classes[key]

    def make(self, w, vals, vtype="float"):
        """vtype: how the fitness values are handed to the setter (float / int / numpy scalars / mixed)."""
        intw = vtype in ("int", "npint") and all(float(x) == int(x) for x in w) and len(vals) % 2 == 0
        self.int_weight_populations = getattr(self, "int_weight_populations", 0) + bool(intw)
        I, F = self.cls(w, intw)
        conv = {"float": float, "int": int, "npfloat": numpy.float64, "npint": numpy.int64}
        pop = []
        for n, v in enumerate(vals):
            ind = I([n])
            ind.fitness = F()
            if vtype == "mixed":
                ind.fitness.values = tuple([float, int, numpy.float64, numpy.int64][(n + c) % 4](x) for c, x in enumerate(v))
            else:
                ind.fitness.values = tuple(conv[vtype](x) for x in v)
            pop.append(ind)
        return pop


def snapshot(pop):
    """what a selection must not change: the list, the objects, their genomes and fitnesses"""
    return [(id(p), list(p), tuple(p.fitness.values), tuple(p.fitness.wvalues)) for p in pop]


def gen_values(rng, n, M, style=None):
    """n integer fitness vectors with M objectives."""
    style = style or rng.choice(["grid", "grid", "grid", "dups", "collinear", "single", "layers", "wide", "ndups", "firsttie"])
    if style == "ndups":
        # an anti-chain (for all-min or all-max weights) with exact duplicates, plus points dominated by it
        vals = []
        for _ in range(n):
            t = rng.randint(0, 3)
            base_pt = [t, 3 - t] + [0] * (M - 2)
            if rng.random() < 0.35:
                base_pt = [x + rng.choice([0, 0.5, 1]) * 2 for x in base_pt]      # weakly / strictly worse or better copies
                base_pt = [int(x) for x in base_pt]
            vals.append(base_pt)
        return style, vals
    if style == "firsttie":
        # many exact ties on the first objective, the dominated member often listed first
        vals = [[rng.randint(0, 1)] + [rng.randint(0, 4) for _ in range(M - 1)] for _ in range(n)]
        if rng.random() < 0.5:
            vals.sort(key=lambda v: (v[0], -sum(v[1:])))
        else:
            vals.sort(key=lambda v: v[0])
        return style, vals
    if style == "grid":
        hi = rng.choice([1, 2, 3, 6])
        return style, [[rng.randint(0, hi) for _ in range(M)] for _ in range(n)]
    if style == "wide":
        return style, [[rng.randint(-20, 20) for _ in range(M)] for _ in range(n)]
    if style == "dups":
        base = [[rng.randint(0, 3) for _ in range(M)] for _ in range(rng.randint(1, 3))]
        return style, [list(rng.choice(base)) for _ in range(n)]
    if style == "collinear":
        a = [rng.randint(-3, 3) for _ in range(M)]
        d = [rng.choice([-2, -1, 0, 1, 2]) for _ in range(M)]
        return style, [[x + t * y for x, y in zip(a, d)] for t in [rng.randint(0, 4) for _ in range(n)]]
    if style == "single":
        a = [rng.randint(-3, 3) for _ in range(M)]
        return style, [list(a) for _ in range(n)]
    # layers: shifted anti-chains -> several fronts of controlled size (for all-max or all-min weights)
    vals = []
    for _ in range(n):
        layer = rng.randint(0, 2)
        cut = sorted(rng.randint(0, 4) for _ in range(M - 1))
        parts = [b - a for a, b in zip([0] + cut, cut + [4])]
        vals.append([p + layer for p in parts])
    return style, vals


def gen_weights(rng, M):
    mode = rng.random()
    if mode < 0.3:
        return [-1] * M
    if mode < 0.5:
        return [1] * M
    if mode < 0.9:
        return [rng.choice([1, -1]) for _ in range(M)]
    return [rng.choice([1, -1]) * rng.choice([1, 2, 3]) for _ in range(M)]


# ----------------------------------------------------------------------------
def main(run):
    from deap import base, tools
    from deap.tools import emo

    run.rule = ("SPEA2: exhaustive populations of 1..3 (thorough: 1..4) individuals over {0,1,2}^2 x every k, plus seeded random "
                "integer-grid populations (2..5 objectives, +-weights, duplicates, collinear, single-point, layered fronts, k in 1..n) "
                "replayed exactly over Q, and random float populations replayed bit for bit; every _randomizedSelect call with its pivot draws. "
                "NSGA-III: the same population styles x both sorters x generated reference points (p 1..8, optional scaling, two layers), "
                "memory variant threaded over 2..4 calls (best/worst/extreme points); 15% of the populations mix objectives of magnitude 1 and 1e6; "
                "plus float-valued populations (discrete part, association and oracle only); "
                "niching replayed with the recorded shuffles; association checked in binary64 "
                "within tolerance and exactly over Q on a robust subset. Reference points: every (M,p) in 2..6 x 1..8, scalings. "
                "Deepening: find_intercepts on every integer-valued call inside selNSGA3 and on crafted direct calls (M 1..5; random / dense / diagonal matrices, "
                "guards holding with equality, duplicate extreme points, extreme point = best point, objective constant over the extreme points, 2x / 3x / summed rows, "
                "zero component of the solution, negative / dyadic tiny / too large intercepts, offsets up to 1e6) against the exact model of every branch; "
                "the whole selNSGA3 pipeline recomputed from weighted values, k, nd, reference points, memory and shuffles (CFull), 30% of the integer populations "
                "with one individual far out on every axis so that the main branch of find_intercepts is reached. "
                "Hardening: sequences on the same objects (same population selected from repeatedly / reordered; selNSGA3WithMemory and the "
                "hand-threaded best_point/worst_point/extreme_points/return_memory route; two interleaved clients sharing one reference array; "
                "overwritten reference-point results), inputs snapshotted and compared after every call, value domains (int / numpy scalar "
                "fitnesses, 1-ulp near-ties, +-0.0, 1e9 offsets with 1e-3 spread, 1e-9 scale, objectives offset by 10..1e9, float32 reference "
                "points), exact duplicates of non-dominated points and first-objective ties, k at 1 / n / |nd|+-1 / cumulative front sizes +-1, "
                "keyword / default-argument / numpy-integer routes, p = 9..12. "
                "A case is distinct by its full input; non-trivial = more than one individual or a non-default parameter.")
    run.trusted += ["Coq 8.16.1 kernel and vm_compute",
                    "hand-written models coq/Model/C07_{Spea2,Nsga3,RefPoints}.v tied by correspondence (harness/c07.py)",
                    "recording proxies for random / numpy.random / helper functions placed in the namespace of deap.tools.emo",
                    "integer-valued NSGA-III populations (CFull): the whole of selNSGA3 runs inside the model nsga3_full (C04's models of the two sorters, "
                    "best/worst/extreme points, find_intercepts, association, niching); only the shuffles are recorded. LAPACK's rounding in numpy.linalg.solve is "
                    "not modelled: where the exact branch decision of find_intercepts has no margin (a guard holding with equality, an inexact elimination of a "
                    "singular matrix - decided by the harness from exact quantities) the observed intercepts only have to be one of the values a branch can return",
                    "float-valued NSGA-III populations, and integer ones failing the robustness conditions of CFull, still use the first-round route: fronts and "
                    "intercepts recorded from the implementation (fronts checked by an independent peeling oracle, intercepts by the guard oracle); "
                    "find_extreme_points is modelled for integer-valued fitnesses only",
                    "hand-written models coq/Model/C07_{Intercepts,Full}.v and C04's coq/Model/C04_{NDSort,LogSort}.v (inside nsga3_full) tied by correspondence",
                    "exact replay of selSPEA2 uses integer grids (|coordinate| <= 64, n <= 64): float keys raw + 1/(d+2) then order exactly like the rationals; "
                    "the binary64 replay (Coq primitive floats) has no such restriction",
                    "K = math.sqrt(N) is modelled by isqrt(N) (valid for N < 2^50)"]
    run.assumptions += ["fitness values are finite (no NaN/inf)", "1 <= k <= n", "individuals are distinct objects",
                        "reference points non-zero, scaling in (0, 1]"]
    run.build_props(extra=["Props/C07_full.v"])
    run.build_props(props="Props/C07_full.v")       # selNSGA3 composed with C04's sorters, find_intercepts (obligations + Print Assumptions)

    # ---- tie (T): regenerate Gen/C07_gen.v from the working tree, re-prove regenerated = model ----------
    import c07_py2coq
    try:
        status = regen()
    except Exception as e:  # noqa  (fail closed: a crash of the translator is a refusal of everything)
        status = {f: "translator error %s: %s" % (type(e).__name__, e) for f in c07_py2coq.FUNCTIONS}
        try:
            with vlib.BuildLock():
                with open(GEN, "w") as f:
                    f.write(c07_py2coq.translate_source("raise SyntaxError(", "unparsable")[0])
        except Exception:  # noqa
            pass
    translated = [f for f in c07_py2coq.FUNCTIONS if status.get(f) is None]
    refused = [(f, status[f]) for f in c07_py2coq.FUNCTIONS if status.get(f) is not None]
    gen_proved, gen_corr = False, False
    if translated:
        gen_proved = run.build_props(props="Props/C07_gen.v", extra=["Corr/C07_gen.v"])
        gen_corr = os.path.exists(os.path.join(vlib.COQ, "Corr", "C07_gen.vo")) and gen_proved
        run.trusted += ["translator harness/c07_py2coq.py with its signature table (parameter types, which parameter is the array mutated in "
                        "place, the fuel of `while` loops / of the recursion and the value an exhausted fuel reads as - the conventions of the "
                        "hand model; K = math.sqrt(N) as isqrt; ints next to floats through their float value; list.sort() / sorted() as insertion sort; "
                        "numpy.zeros / numpy.array / array-op-scalar as declared primitives; the interface of the two branch units of selSPEA2) "
                        "and the run-time library coq/Model/C07_GenRt.v; negative indices are not wrapped; validated on every run "
                        "because the regenerated definitions are evaluated against the implementation on the recorded calls"]
    if translated and not refused:
        tie = "tie: regenerated (%d/%d functions translated from the working-tree source%s)" % (
            len(translated), len(c07_py2coq.FUNCTIONS),
            " and proved equal to the model for every input" if gen_proved else
            "; the equivalence with the model / the theorems on the regenerated definitions NO LONGER CHECK")
    elif translated:
        tie = "tie: regenerated for %s%s; correspondence-only for %s" % (
            ", ".join(translated), "" if gen_proved else " (equivalence / theorems NO LONGER CHECK)",
            "; ".join("%s (translator refused %s)" % x for x in refused))
    else:
        tie = "tie: correspondence-only (translator refused %s)" % "; ".join("%s: %s" % x for x in refused)
    tie += ("; every other function of the property (selNSGA3, niching, find_extreme_points, find_intercepts, "
            "associate_to_niche) is tied by correspondence only")
    run.notes.append(tie)
    run.extra_cov["tie"] = tie
    run.extra_cov["regenerated_functions"] = translated
    run.extra_cov["refused_functions"] = dict(refused)
    if refused and translated:
        run.notes.append("the theorems of Props/C07_gen.v about %s are about the model alias on this run (not regenerated)"
                         % ", ".join(f for f, _ in refused))
    rng = run.rng
    pf = PopFactory(base)
    groups = {}

    def add(group, term, case, nontrivial=True):
        g = groups.setdefault(group, ([], []))
        g[0].append(term)
        g[1].append(case)

    def note(case, nontrivial=True):
        run.note_case(case, nontrivial, sample=case if len(run.samples) < 6 and run.evaluations % 211 == 1 else None)

    # ------------------------------------------------------------------
    # SPEA2
    # ------------------------------------------------------------------
    def input_modified(what, case):
        """the models read their inputs only: an implementation that changes them disagrees with the model"""
        run.disagreements.append({"group": "inputs-unmodified", "index": None, "term": what, "case": case})

    def spea2_case(w, vals, k, floats=False, record_selects=True, vtype="float", pop=None):
        pop = pop if pop is not None else pf.make(w, vals, vtype)
        n = len(pop)
        idx = {id(p): i for i, p in enumerate(pop)}
        seed = rng.getrandbits(32)
        before = snapshot(pop)
        with Recorder(emo, seed) as rec:
            res = guarded(tools.selSPEA2, pop, k)
        case = {"kind": "spea2", "weights": list(w), "values": [list(v) for v in vals], "k": k, "seed": seed, "vtype": vtype}
        note(case, n > 1)
        if snapshot(pop) != before:
            input_modified("selSPEA2 changed its input list / individuals / fitnesses", case)
        if res[0] != "ok":
            run.oracle_violation("selSPEA2 raised %s" % res[1], case)
            return
        out = res[1]
        ids = [id(x) for x in out]
        case["observed"] = [idx.get(i, -1) for i in ids]
        if any(i not in idx for i in ids):
            run.oracle_violation("selSPEA2 returned an object that is not an input individual", case)
            return
        sel = [idx[i] for i in ids]
        if len(sel) != k:
            run.oracle_violation("selSPEA2 returned %d individuals instead of k=%d" % (len(sel), k), case)
        if len(set(sel)) != len(sel):
            run.oracle_violation("selSPEA2 returned an individual twice", case)
        wv = [p.fitness.wvalues for p in pop]
        nd = [i for i in range(n) if not any(dom(wv[j], wv[i]) for j in range(n))]
        if len(nd) <= k and not set(nd) <= set(sel):
            run.oracle_violation("selSPEA2 left out a non-dominated individual although there are at most k of them", case)
        if len(nd) >= k and not set(sel) <= set(nd):
            run.oracle_violation("selSPEA2 returned a dominated individual although there are at least k non-dominated ones", case)
        # K is only compared with integers: floor must be the integer square root
        if math.floor(math.sqrt(n)) != math.isqrt(n):
            run.oracle_violation("floor(sqrt(N)) != isqrt(N)", case)
        draws = list(rec.rnd.log)
        if floats:
            add("spea2f", "CSpea2F %s %s %s %s %s" % (cfll(vals), cfl(w), cnat(k), czl(draws), cnatl(sel)), case)
        else:
            add("spea2q", "CSpea2Q %s %s %s %s %s" % (czll(vals), czl(w), cnat(k), czl(draws), cnatl(sel)), case)
        if record_selects:
            for s in rec.selects[:3]:
                if s["begin"] != 0 or s["end"] != len(s["array"]) - 1:
                    continue
                rank = math.floor(s["i"])
                srt = sorted(s["array"])
                c2 = {"kind": "select", "array": s["array"], "K": s["i"], "draws": s["draws"], "observed": s["result"]}
                note(c2, len(srt) > 1)
                if s["result"] != srt[rank]:
                    run.oracle_violation("_randomizedSelect did not return the element of rank floor(K)", c2)
                if floats:
                    add("select", "CSelectF %s %s %s %s" % (cfl(s["array"]), cz(rank), czl(s["draws"]), cfloat(s["result"])), c2)
                else:
                    add("select", "CSelectQ %s %s %s %s" % (cql(s["array"]), cz(rank), czl(s["draws"]), cq(s["result"])), c2)

    # exhaustive small scope
    pts = list(itertools.product([0, 1, 2], repeat=2))
    for n in range(1, run.scale(3, 4) + 1):
        for vals in itertools.product(pts, repeat=n):
            for k in range(1, n + 1):
                spea2_case([-1, -1], [list(v) for v in vals], k, record_selects=False)
    def boundary_k(n, marks):
        """k at / next to the thresholds of the code: 1, n, and the given sizes +-1"""
        cands = {1, n}
        for m in marks:
            cands |= {m - 1, m, m + 1}
        return rng.choice(sorted(c for c in cands if 1 <= c <= n))

    def nd_count(w, vals):
        wv = [[x * y for x, y in zip(v, w)] for v in vals]
        return sum(1 for i in range(len(wv)) if not any(dom(wv[j], wv[i]) for j in range(len(wv))))

    # random grids
    for _ in range(run.scale(620, 7000)):
        M = rng.randint(2, 5)
        n = rng.choice([1, 2, 3, 4, 5, 6, 8, 10, 12, 16, 20]) if rng.random() < 0.8 else rng.randint(1, 30)
        style, vals = gen_values(rng, n, M)
        w = gen_weights(rng, M)
        if style in ("ndups", "firsttie") and rng.random() < 0.7:
            w = [rng.choice([-1, -1, -2])] * M if rng.random() < 0.7 else [1] * M
        k = boundary_k(n, [nd_count(w, vals)]) if rng.random() < 0.4 else rng.randint(1, n)
        vtype = rng.choice(["float"] * 6 + ["int", "npfloat", "npint", "mixed"])
        spea2_case(w, vals, k, vtype=vtype)
    # the same population objects selected from repeatedly (no state may survive between calls) and in a
    # second list holding the same objects in another order
    for _ in range(run.scale(40, 400)):
        M = rng.randint(2, 4)
        n = rng.randint(2, 12)
        style, vals = gen_values(rng, n, M)
        w = gen_weights(rng, M)
        pop = pf.make(w, vals)
        for rep in range(3):
            spea2_case(w, vals, rng.randint(1, n), pop=pop, record_selects=False)
        perm = list(range(n))
        rng.shuffle(perm)
        spea2_case(w, [vals[i] for i in perm], rng.randint(1, n), pop=[pop[i] for i in perm], record_selects=False)
    # floats (bit-exact replay)
    for _ in range(run.scale(200, 3000)):
        M = rng.randint(2, 5)
        n = rng.randint(1, 14)
        kind = rng.random()
        if kind < 0.5:
            vals = [[rng.random() for _ in range(M)] for _ in range(n)]
        elif kind < 0.8:
            vals = [[rng.choice([0.1, 0.2, 0.3, 0.7, 1e8, 1e-7, -0.1]) for _ in range(M)] for _ in range(n)]
        elif kind < 0.9:
            vals = [[rng.uniform(-1e3, 1e3) for _ in range(M)] for _ in range(n)]
        else:
            # near-ties (1 ulp / 2^-40 relative), +-0.0, large offset with tiny spread, tiny scale
            sub = rng.choice(["ulp", "zero", "offset", "tiny"])
            if sub == "ulp":
                b = [rng.choice([0.1, 1.0, 3.0]) for _ in range(M)]
                vals = [[rng.choice([x, math.nextafter(x, 9.0), x * (1 + 2.0 ** -40), x]) for x in b] for _ in range(n)]
            elif sub == "zero":
                vals = [[rng.choice([0.0, -0.0, 1.0, -1.0]) for _ in range(M)] for _ in range(n)]
            elif sub == "offset":
                vals = [[1e9 + rng.choice([0.0, 1e-3, -1e-3, 2e-3]) for _ in range(M)] for _ in range(n)]
            else:
                vals = [[rng.randint(0, 3) * 1e-9 for _ in range(M)] for _ in range(n)]
        w = [rng.choice([1.0, -1.0, -0.3, 2.5]) for _ in range(M)]
        k = boundary_k(n, [nd_count(w, vals)]) if rng.random() < 0.3 else rng.randint(1, n)
        spea2_case(w, vals, k, floats=True)

    # ------------------------------------------------------------------
    # reference points
    # ------------------------------------------------------------------
    def ref_case(M, p, scaling, route="pos"):
        if route == "kw":
            res = guarded(tools.uniform_reference_points, nobj=M, p=p, scaling=scaling)
        elif route == "np":
            res = guarded(tools.uniform_reference_points, numpy.int64(M), numpy.int64(p),
                          None if scaling is None else numpy.float64(scaling))
        elif route == "default":          # p omitted: the documented default p = 4
            assert p == 4 and scaling is None
            res = guarded(tools.uniform_reference_points, M)
        else:
            res = guarded(tools.uniform_reference_points, M, p, scaling)
        case = {"kind": "refpoints", "nobj": M, "p": p, "scaling": scaling, "route": route}
        note(case, True)
        if res[0] != "ok":
            run.oracle_violation("uniform_reference_points raised %s" % res[1], case)
            return None
        pts_ = res[1]
        rows = [tuple(float(x) for x in r) for r in pts_]
        if len(rows) != math.comb(M + p - 1, p):
            run.oracle_violation("uniform_reference_points returned %d points, expected C(M+p-1,p)=%d" % (len(rows), math.comb(M + p - 1, p)), case)
        if len(set(rows)) != len(rows):
            run.oracle_violation("uniform_reference_points returned a point twice", case)
        if any(x < 0 for r in rows for x in r):
            run.oracle_violation("uniform_reference_points returned a negative coordinate", case)
        if any(len(r) != M or abs(sum(Fraction(x) for x in r) - 1) > Fraction(1, 10 ** 12) for r in rows):
            run.oracle_violation("uniform_reference_points: coordinates do not sum to 1", case)
        big = len(rows) * M > 3000
        if scaling is None:
            nums = [[int(round(x * p)) for x in r] for r in rows]
            if any(float(a) / float(p) != x for r, nr in zip(rows, nums) for x, a in zip(r, nr)):
                run.oracle_violation("uniform_reference_points: a coordinate is not i/p", case)
            add("ref", "CRefN %s %s %s" % (cnat(M), cnat(p), cnatll(nums)), case)
        elif not big:
            add("ref", "CRefQ %s %s %s %s" % (cnat(M), cnat(p), cq(scaling), cqll(rows)), case)
        if not big or scaling is not None:
            add("ref", "CRefF %s %s %s %s" % (cnat(M), cnat(p), copt(scaling, cfloat), cfll(rows)), case)
        return pts_

    for M in range(2, 7):
        for p in range(1, 9):
            ref_case(M, p, None)
    for M, p in [(1, 3), (1, 1)]:
        ref_case(M, p, None)
    # beyond the quantifier range (the recursion must not depend on float remainders): p = 9..12
    for M in range(3, run.scale(4, 6)):
        for p in range(9, 13):
            if math.comb(M + p - 1, p) <= 500:
                ref_case(M, p, None)
    scal = [0.5, 1.0, 0.25, 0.3, 0.75, 0.9, 1e-9, 1]
    for M in range(2, 7):
        for p in range(1, 9):
            if math.comb(M + p - 1, p) <= run.scale(330, 1300):
                ref_case(M, p, rng.choice(scal))
    # rarely used routes: keyword arguments, default p, numpy integer / float arguments; two results are independent arrays
    for M in range(2, 7):
        ref_case(M, 4, None, "default")
        ref_case(M, rng.randint(1, 5), rng.choice([None, 0.5]), "kw")
        ref_case(M, rng.randint(1, 5), rng.choice([None, 0.3]), "np")
    # a caller that overwrites a returned array must not influence later calls (no cached result)
    for M, p, sc in [(3, 4, None), (2, 5, 0.5), (4, 3, None)]:
        a1 = tools.uniform_reference_points(M, p, sc)
        a1 *= 0.0
        a1[0, :] = 7.0
        ref_case(M, p, sc)

    # ------------------------------------------------------------------
    # NSGA-III
    # ------------------------------------------------------------------
    budget = {"exact": run.scale(40, 400), "full_singular": run.scale(10, 100), "nsga3q": run.scale(10, 100)}
    coverage = {"full": {}, "icpt": {}}

    def make_refs(M):
        while True:
            p = rng.randint(1, 8)
            if math.comb(M + p - 1, p) <= 130:
                break
        r = rng.random()
        if r < 0.6:
            return tools.uniform_reference_points(M, p), {"p": p}
        if r < 0.8:
            s = rng.choice(scal)
            return tools.uniform_reference_points(M, p, s), {"p": p, "scaling": s}
        p2 = rng.randint(1, 2)
        return numpy.concatenate((tools.uniform_reference_points(M, p, 1.0),
                                  tools.uniform_reference_points(M, p2, 0.5)), axis=0), {"p": p, "inner_p": p2}

    def check_nsga3_call(pop, k, out, rec_fronts, rec_assoc, rec_nich, case, R, single=False, fullctx=None):
        # single=True: float32 reference points (the implementation then computes their norms in single precision)
        """Oracle for one selNSGA3 call + correspondence terms."""
        n = len(pop)
        idx = {id(p): i for i, p in enumerate(pop)}
        ids = [id(x) for x in out]
        if any(i not in idx for i in ids):
            run.oracle_violation("selNSGA3 returned an object that is not an input individual", case)
            return
        sel = [idx[i] for i in ids]
        case["observed"] = sel
        if len(sel) != k:
            run.oracle_violation("selNSGA3 returned %d individuals instead of k=%d" % (len(sel), k), case)
        if len(set(sel)) != len(sel):
            run.oracle_violation("selNSGA3 returned an individual twice", case)
        wv = [p.fitness.wvalues for p in pop]
        dep = depths(wv)
        selset = set(sel)
        if selset:
            worst_sel = max(dep[i] for i in selset)
            if any(dep[j] < worst_sel for j in range(n) if j not in selset):
                run.oracle_violation("selNSGA3 left out an individual of a strictly better front than one it selected", case)
        fronts = [[idx[id(x)] for x in fr] for fr in rec_fronts]
        case["fronts"] = fronts
        flat = [i for fr in fronts for i in fr]
        # the hypothesis of the front-priority theorem, checked on what the sorter returned inside this call
        for r, fr in enumerate(fronts):
            if sorted(fr) != [i for i in range(n) if dep[i] == r]:
                run.oracle_violation("selNSGA3: the fronts it sorted are not the Pareto fronts of the population (front %d)" % r, case)
                break
        if not fronts or len(flat) < k or len(flat) - len(fronts[-1]) >= k:
            run.oracle_violation("selNSGA3: the sorted fronts do not satisfy |fronts[:-1]| < k <= |fronts|", case)
        # association: argmin of the perpendicular distance in the normalised space, recomputed exactly
        a = rec_assoc
        finite = bool(numpy.all(numpy.isfinite(a["fits"])) and numpy.all(numpy.isfinite(a["best"])) and
                      numpy.all(numpy.isfinite(a["icpt"])) and numpy.all(numpy.isfinite(a["dist"])))
        robust = finite
        if finite:
            refsF = [[Fraction(x) for x in r] for r in a["refs"]]
            bestF = [Fraction(x) for x in a["best"]]
            icptF = [Fraction(x) for x in a["icpt"]]
            den = [c - b + EPS for c, b in zip(icptF, bestF)]
            if any(d == 0 for d in den):
                finite = robust = False
        rowinfo = []
        if finite:
            for row, niche in zip(a["fits"], a["niches"]):
                fn = [(Fraction(x) - b) / d for x, b, d in zip(row, bestF, den)]
                d2 = [perp_d2(fn, r) for r in refsF]
                m = min(d2)
                if 0 <= niche < len(refsF):
                    rowinfo.append((tuple(float(x) for x in row), niche, d2[niche], sum(x * x for x in fn)))
                # rounding errors of the distance computation are relative to |fn|^2 (it is homogeneous in fn)
                tol = Fraction(1, 10 ** 5 if single else 10 ** 9) * sum(x * x for x in fn) + Fraction(1, 10 ** 290)
                if not (0 <= niche < len(refsF)) or d2[niche] > m + tol:
                    run.oracle_violation("selNSGA3 associated a candidate with a reference direction that is not the closest "
                                         "(perpendicular distance in the normalised space)", case,
                                         observed={"fitness_row": [float(x) for x in row], "niche": niche,
                                                   "closest": d2.index(m)})
                    robust = False
                    break
                srt = sorted(d2)
                if len(srt) > 1 and not all(x == 0 for x in fn):
                    if srt[1] < srt[0] + Fraction(1, 10 ** 6) * sum(x * x for x in fn):
                        robust = False
        # niche balance from the recorded association
        nlast = len(fronts[-1]) if fronts else 0
        niches_all = a["niches"]
        if len(niches_all) == len(flat) and nlast:
            niche_of = dict(zip(flat, niches_all))
            counts = {}
            for i in sel:
                if i in niche_of:
                    counts[niche_of[i]] = counts.get(niche_of[i], 0) + 1
            last = fronts[-1]
            received = set(niche_of[i] for i in last if i in selset)
            left = set(niche_of[i] for i in last if i not in selset)
            for na in received:
                for nb in left:
                    if counts.get(na, 0) > counts.get(nb, 0) + 1:
                        run.oracle_violation("niching: niche %d received a last-front member and ends at %d, more than one above niche %d (%d) "
                                             "which still had a candidate left" % (na, counts.get(na, 0), nb, counts.get(nb, 0)), case)
        # correspondence terms
        nr = rec_nich
        lastidx = {id(x): i for i, x in enumerate(nr["inds"])}
        nsel = [lastidx.get(id(x), 4999) for x in nr["selected"]]
        add("niching", "CNiching %s %s %s %s %s %s %s" % (cnat(nr["k"]), cnatl(nr["niches"]), cql(nr["dist"]), cnatl(nr["counts0"]),
                                                            cnatll(nr["codes"]), cnatl(nsel), cnatl(nr["counts1"])), case)
        if finite:
            add("nsga3", "CNsga3 %s %s %s %s %s %s %s %s" % (cnatll(fronts), cnat(k), cnat(R), cnatl(a["niches"]), cql(a["dist"]),
                                                              cnatll(nr["codes"]), cnatl(sel), cnatl(nr["counts1"])), case)
            if not single:
                add("assocf", "CAssocF %s %s %s %s %s %s" % (cfll(a["fits"]), cfll(a["refs"]), cfl(a["best"]), cfl(a["icpt"]),
                                                             cnatl(a["niches"]), cfl(a["dist"])), case)
            size = len(a["fits"]) * len(a["refs"]) * len(a["best"])
            # closest-if-empty rule: the model orders the squared exact distances, the code the rounded
            # distances; two last-front candidates of one niche must be the same point or clearly apart
            dist_robust = robust and len(rowinfo) == len(flat)
            if dist_robust and nlast:
                lastinfo = rowinfo[len(rowinfo) - nlast:]
                for i1 in range(len(lastinfo)):
                    for i2 in range(i1 + 1, len(lastinfo)):
                        r1, r2 = lastinfo[i1], lastinfo[i2]
                        if r1[1] == r2[1] and r1[0] != r2[0] and \
                                abs(r1[2] - r2[2]) <= Fraction(1, 10 ** 6) * max(r1[3], r2[3]) + Fraction(1, 10 ** 290):
                            dist_robust = False
            if fullctx is not None and fullctx["icpt_info"]["branch"] == "singular" and budget["full_singular"] <= 0:
                dist_robust = False         # enough full-pipeline cases of the LinAlgError branch: keep the budget for the others
            if robust and not single and size <= 400 and budget["exact"] > 0 and fullctx is not None and dist_robust:
                if fullctx["icpt_info"]["branch"] == "singular":
                    budget["full_singular"] -= 1
                # the whole of selNSGA3 inside the model: only the weighted values, k, nd, the reference points,
                # the memory and the shuffles are given; everything else is recomputed and compared
                budget["exact"] -= 1
                fc = fullctx
                info = fc["icpt_info"]
                coverage["full"][info["branch"] + ("" if info["robust"] else "/boundary")] = \
                    coverage["full"].get(info["branch"] + ("" if info["robust"] else "/boundary"), 0) + 1
                add("exact", "CFull %s %s %s %s %s %s %s %s %s %s %s %s %s %s %s %s %s" % (
                    cbool(fc["nd"] == "log"), czll(fc["wv"]), cnat(k), cqll(a["refs"]),
                    copt(fc["mem"], lambda t: "(%s, %s)" % (czl(t[0]), czl(t[1]))), copt(fc["pext"], czll),
                    cnatll(nr["codes"]), cbool(info["robust"]), cq(info["tol"]),
                    cnatll(fronts), czl(fc["best"]), czl(fc["worst"]), czll(fc["ext"]), cql(fc["icpt"]),
                    cnatl(a["niches"]), cnatl(sel), cnatl(nr["counts1"])), dict(case, full=True))
            elif robust and not single and size <= 400 and budget["exact"] > 0 and budget["nsga3q"] > 0:
                budget["exact"] -= 1
                budget["nsga3q"] -= 1
                add("exact", "CNsga3Q %s %s %s %s %s %s %s %s %s %s" % (
                    cqll(a["fits"]), cnatll(fronts), cnat(k), cqll(a["refs"]), cql(a["best"]), cql(a["icpt"]), cql(a["dist"]),
                    cnatll(nr["codes"]), cnatl(a["niches"]), cnatl(sel)), case)

    def intercept_oracle(ic, case):
        """what find_intercepts may return, stated on the implementation's own output with the float comparisons of
        the statement: the remembered worst point, the worst point of the sorted fronts, or intercepts each above
        1e-6 and none beyond the worst point once translated back by the best point"""
        r, best, worst, fw = ic["result"], ic["best"], ic["worst"], ic["front_worst"]
        if r.shape != best.shape:
            run.oracle_violation("find_intercepts returned %d intercepts for %d objectives" % (r.size, best.size), case,
                                 observed={"intercepts": [float(x) for x in r]})
            return
        if numpy.array_equal(r, worst) or numpy.array_equal(r, fw):
            return
        if not numpy.all(numpy.isfinite(r)) or numpy.any(r <= 1e-6) or numpy.any(r + best > worst):
            run.oracle_violation("find_intercepts returned intercepts that are neither a fall-back (worst point / worst of the "
                                 "sorted fronts) nor all above 1e-6 and within the worst point", case,
                                 observed={"intercepts": [float(x) for x in r], "best": [float(x) for x in best],
                                           "worst": [float(x) for x in worst], "front_worst": [float(x) for x in fw]})
            return
        # the hyperplane through the extreme points: sum_j (z_j - best_j) / a_j = 1 (only on well-conditioned exact inputs)
        try:
            A = [[Fraction(float(z)) - Fraction(float(b)) for z, b in zip(row, best)] for row in ic["ext"]]
            inv = [1 / Fraction(float(v)) for v in r]
            scale = max([abs(v) for row in A for v in row] + [1]) * max(abs(v) for v in inv)
            for row in A:
                if abs(sum(u * v for u, v in zip(row, inv)) - 1) > Fraction(1, 10 ** 6) * max(1, scale):
                    run.oracle_violation("find_intercepts: the returned intercepts are not those of the hyperplane through "
                                         "the extreme points", case, observed={"intercepts": [float(x) for x in r]})
                    return
        except (ZeroDivisionError, ValueError, OverflowError):
            pass

    def icpt_term(ext, best, worst, fw, obs, case, where):
        """correspondence term for one find_intercepts call on exact (integer / dyadic) inputs"""
        info = icpt_exact(ext, best, worst, fw)
        key = where + ":" + info["branch"] + ("" if info["robust"] else "/boundary")
        coverage["icpt"][key] = coverage["icpt"].get(key, 0) + 1
        add("icpt", "CIcpt %s %s %s %s %s %s %s" % (cqll(ext), cql(best), cql(worst), cql(fw), cbool(info["robust"]),
                                                    cq(info["tol"]), cql(obs)),
            dict(case, intercepts={"where": where, "ext": [[float(x) for x in r] for r in ext], "best": [float(x) for x in best],
                                   "worst": [float(x) for x in worst], "front_worst": [float(x) for x in fw],
                                   "observed": obs, "exact_branch": info["branch"], "robust": info["robust"]}))
        return info

    def icpt_case():
        """find_intercepts called directly on crafted exact inputs: every branch, incl. singular (duplicate extreme
        points, an extreme point equal to the best point, proportional / dependent rows), a zero component of the
        solution, negative / tiny / too large intercepts, and guards that hold with equality"""
        M = rng.choice([1, 2, 2, 3, 3, 4, 5])
        off = rng.choice([0, 0, 0, 10, -7, 1000, 10 ** 6])
        best = [rng.randint(-3, 3) + off for _ in range(M)]
        kind = rng.choice(["random", "random", "diag", "diag-eq", "dup", "bestrow", "bestcol", "pow2dup", "prop2", "prop3", "sumrows",
                           "zerox", "negative", "tiny", "tiny", "beyond", "dense"])
        rel = None
        if kind in ("diag", "diag-eq", "tiny", "beyond"):
            d = [rng.randint(1, 9) for _ in range(M)]
            if kind == "tiny":
                # 2^-10 .. 2^-19 are above the 1e-6 threshold (main branch if within the worst point), 2^-20 .. below it
                d[rng.randrange(M)] = Fraction(1, 2 ** rng.choice([10, 14, 17, 19, 20, 21, 24]))
            rel = [[d[i] if i == j else 0 for j in range(M)] for i in range(M)]
        elif kind in ("random", "negative", "dense"):
            hi = 6 if kind != "dense" else 40
            rel = [[rng.randint(0, hi) for _ in range(M)] for _ in range(M)]
            if kind == "negative" and M >= 2:
                rel = [[(i + j + 1) for j in range(M)] for i in range(M)]
                rel[rng.randrange(M)][rng.randrange(M)] += rng.randint(1, 3)
        elif kind in ("dup", "bestrow", "bestcol", "pow2dup", "prop2", "prop3", "sumrows"):
            rel = [[rng.randint(0, 6) for _ in range(M)] for _ in range(M)]
            if kind == "pow2dup":
                rel = [[rng.choice([0, 1, 2, 4, 8]) for _ in range(M)] for _ in range(M)]     # power-of-two pivots: exact LU
            if M >= 2:
                i, j = rng.sample(range(M), 2)
                if kind in ("dup", "pow2dup"):
                    rel[j] = list(rel[i])
                elif kind == "bestrow":
                    rel[j] = [0] * M
                elif kind == "bestcol":
                    for row in rel:
                        row[j] = 0              # every extreme point has the best value in objective j
                elif kind == "prop2":
                    rel[j] = [2 * v for v in rel[i]]
                elif kind == "prop3":
                    rel[j] = [3 * v for v in rel[i]]
                elif M >= 3:
                    l = next(t for t in range(M) if t not in (i, j))
                    rel[l] = [u + v for u, v in zip(rel[i], rel[j])]
            else:
                rel = [[0]]
        else:   # zerox: the solution has an exactly zero component j
            if M >= 3:
                j = rng.randrange(M)
                others = [i for i in range(M) if i != j]
                d = {i: rng.randint(1, 6) for i in others}
                rel = [[0] * M for _ in range(M)]
                for i in others:
                    rel[i][i] = d[i]
                    rel[i][j] = rng.randint(0, 5)
                m_ = rng.choice(others)
                rel[j][m_] = d[m_]
                rel[j][j] = rel[m_][j] + rng.randint(1, 4)
            elif M == 2:
                j = rng.randrange(2)
                o = 1 - j
                dd = rng.randint(1, 6)
                rel = [[0, 0], [0, 0]]
                rel[o][o], rel[o][j] = dd, rng.randint(0, 4)
                rel[j][o], rel[j][j] = dd, rel[o][j] + rng.randint(1, 4)
            else:
                rel = [[rng.randint(1, 5)]]
        ext = [[b + v for b, v in zip(best, row)] for row in rel]
        spread = max([abs(v) for row in rel for v in row] + [1])
        if kind == "diag-eq":
            worst = [b + rel[i][i] for i, b in enumerate(best)]          # the worst-point guard holds with equality
        elif kind == "beyond":
            worst = [b + max(0, rel[i][i] - rng.randint(0, 2)) for i, b in enumerate(best)]
        else:
            worst = [b + rng.choice([spread, 2 * spread, 10 * spread, rng.randint(0, int(spread) + 1)]) for b in best]
        fw = [b + rng.randint(0, int(spread) + 2) for b in best]
        case = {"kind": "find_intercepts", "style": kind, "M": M, "ext": [[float(x) for x in r] for r in ext],
                "best": [float(x) for x in best], "worst": [float(x) for x in worst], "front_worst": [float(x) for x in fw]}
        note(case, M > 1)
        args = [numpy.array([[float(x) for x in r] for r in ext]), numpy.array([float(x) for x in best]),
                numpy.array([float(x) for x in worst]), numpy.array([float(x) for x in fw])]
        before = [v.copy() for v in args]
        res = guarded(emo.find_intercepts, *args)
        if res[0] != "ok":
            run.oracle_violation("find_intercepts raised %s" % res[1], case)
            return
        if any(not numpy.array_equal(u, v) for u, v in zip(args, before)):
            input_modified("find_intercepts changed one of its arguments", case)
        r = numpy.array(res[1], dtype=float).reshape(-1)
        case["observed"] = [float(x) for x in r]
        intercept_oracle({"ext": before[0], "best": before[1], "worst": before[2], "front_worst": before[3], "result": r}, case)
        if len(r) == M:
            icpt_term(ext, best, worst, fw, [float(x) for x in r], case, "direct")

    class Client(object):
        """One holder of NSGA-III memory: the class selNSGA3WithMemory, or selNSGA3 called with the
        best_point / worst_point / extreme_points / return_memory arguments threaded by hand."""
        def __init__(self, refs, nd, mode):
            self.refs, self.nd, self.mode = refs, nd, mode
            self.sel = tools.selNSGA3WithMemory(refs, nd) if mode == "class" else None
            self.best = self.worst = self.ext = None
            self.calls, self.obs = [], []
            self.prev = (None, None)

        def __call__(self, pop, k):
            if self.mode == "class":
                out = self.sel(pop, k)
                self.best, self.worst, self.ext = self.sel.best_point, self.sel.worst_point, self.sel.extreme_points
                return out
            if self.best is None:
                out, mem = tools.selNSGA3(pop, k, self.refs, self.nd, return_memory=True)
            else:
                out, mem = tools.selNSGA3(pop, k, ref_points=self.refs, nd=self.nd, best_point=self.best.reshape((1, -1)),
                                          worst_point=self.worst.reshape((1, -1)), extreme_points=self.ext, return_memory=True)
            self.best, self.worst, self.ext = mem.best_point, mem.worst_point, mem.extreme_points
            return out

    def nsga3_case(memory_calls=0, floats=False, mode="class", nclients=1):
        M = rng.randint(2, 5)
        w = gen_weights(rng, M) if not floats else [rng.choice([1.0, -1.0, -0.3, 2.5]) for _ in range(M)]
        refs, rinfo = make_refs(M)
        single = (not memory_calls) and rng.random() < 0.05
        if single:
            refs = refs.astype(numpy.float32)
            rinfo = dict(rinfo, dtype="float32")
        refs_before = refs.copy()
        nd = rng.choice(["standard", "log"])
        seed = rng.getrandbits(32)
        ncalls = memory_calls or 1
        clients = [Client(refs, nd, mode) for _ in range(nclients)] if memory_calls else []
        # per-objective integer offsets kept for all calls of the case (objectives far from the origin)
        offs = [0] * M
        if not floats and rng.random() < 0.3:
            offs = [rng.choice([0, 10, -10, 1000, 10 ** 9, -10 ** 6]) for _ in range(M)]
        for call in range(ncalls):
            cl = clients[call % nclients] if clients else None
            n = rng.choice([1, 2, 3, 4, 5, 6, 8, 10, 12, 16]) if rng.random() < 0.8 else rng.randint(1, 24)
            style, vals = gen_values(rng, n, M)
            if floats:
                kind = rng.random()
                style = "floats"
                if kind < 0.5:
                    vals = [[rng.random() for _ in range(M)] for _ in range(n)]
                elif kind < 0.7:
                    vals = [[rng.choice([0.1, 0.2, 0.3, 0.7, 1e3, 1e-4, -0.1]) for _ in range(M)] for _ in range(n)]
                elif kind < 0.85:
                    vals = [[rng.uniform(-1e3, 1e3) for _ in range(M)] for _ in range(n)]
                else:
                    sub = rng.choice(["offset", "tiny", "zero"])
                    if sub == "offset":
                        vals = [[1e9 + rng.choice([0.0, 1e-3, -1e-3, 2e-3]) for _ in range(M)] for _ in range(n)]
                    elif sub == "tiny":
                        vals = [[rng.randint(0, 3) * 1e-9 for _ in range(M)] for _ in range(n)]
                    else:
                        vals = [[rng.choice([0.0, -0.0, 1.0, -1.0]) for _ in range(M)] for _ in range(n)]
            else:
                if rng.random() < 0.3 and n >= M:
                    # one individual far out on every axis of the (minimised) objective space plus interior points:
                    # distinct extreme points, a regular system in find_intercepts (main branch / guards)
                    hi = rng.choice([7, 13, 40])
                    frows = []
                    for i in range(M):
                        row = [rng.randint(0, 2) for _ in range(M)]
                        row[i] = hi + rng.randint(0, 5)
                        frows.append(row)
                    while len(frows) < n:
                        frows.append([rng.randint(0, hi) for _ in range(M)])
                    rng.shuffle(frows)
                    vals = [[-(6 * x) // wc for x, wc in zip(row, w)] for row in frows]      # wvalues = -6 * frows, exactly
                    style = "axes"
                if rng.random() < 0.15:
                    # objectives of very different magnitude (still exact integers): the ASF weights matter
                    big = [rng.random() < 0.5 for _ in range(M)]
                    vals = [[x * 10 ** 6 if bflag else x for x, bflag in zip(v, big)] for v in vals]
                    style += "+mixed-magnitude"
                if any(offs):
                    vals = [[x + o for x, o in zip(v, offs)] for v in vals]
                    style += "+offset"
            # k: random, or at / next to the cumulative front sizes (last front taken completely / by one)
            if rng.random() < 0.4:
                dep0 = depths([[x * y for x, y in zip(v, w)] for v in vals])
                cums, tot = [], 0
                for r in range(max(dep0) + 1):
                    tot += dep0.count(r)
                    cums.append(tot)
                k = boundary_k(n, cums)
            else:
                k = rng.randint(1, n)
            vtype = "float" if floats else rng.choice(["float"] * 6 + ["int", "npfloat", "npint", "mixed"])
            pop = pf.make(w, vals, vtype)
            route = "plain"
            if cl is None and not single:
                route = rng.choice(["plain"] * 5 + ["kw", "bestonly", "extonly"])
                if route == "extonly" and floats:
                    route = "kw"
            case = {"kind": "nsga3", "weights": w, "values": vals, "k": k, "nd": nd, "refs": rinfo, "seed": seed,
                    "memory_call": call if memory_calls else None, "style": style, "vtype": vtype, "route": route,
                    "mode": mode if memory_calls else None, "client": (call % nclients) if clients else None}
            note(case, n > 1)
            before = snapshot(pop)
            with Recorder(emo, seed + call) as rec:
                if cl is not None:
                    res = guarded(cl, pop, k)
                elif route == "kw":
                    res = guarded(tools.selNSGA3, individuals=pop, k=k, ref_points=refs, nd=nd, return_memory=False)
                elif route == "bestonly":     # worst_point missing: the code must ignore best_point as well
                    res = guarded(tools.selNSGA3, pop, k, refs, nd, best_point=numpy.array([[float(rng.randint(-5, 5)) for _ in range(M)]]))
                elif route == "extonly":      # previous extreme points without best / worst memory
                    res = guarded(tools.selNSGA3, pop, k, refs, nd,
                                  extreme_points=numpy.array([[float(rng.randint(0, 6) + o) for o in offs] for _ in range(M)]))
                else:
                    res = guarded(tools.selNSGA3, pop, k, refs, nd)
            if res[0] != "ok":
                run.oracle_violation("selNSGA3 raised %s" % res[1], case)
                return
            if snapshot(pop) != before:
                input_modified("selNSGA3 changed its input list / individuals / fitnesses", case)
            if refs.dtype != refs_before.dtype or not numpy.array_equal(refs, refs_before):
                input_modified("selNSGA3 changed the reference points it was given", case)
                refs[...] = refs_before
            if len(rec.fronts) != 1 or len(rec.assoc) != 1 or len(rec.nich) != 1:
                run.notes.append("nsga3: unexpected number of recorded helper calls %r" % ((len(rec.fronts), len(rec.assoc), len(rec.nich)),))
                run.broken.append({"kind": "harness_recording", "where": ["harness/c07.py"], "log": "helper calls not recorded once"})
                return
            fullctx = None
            if len(rec.icpt) == 1:
                intercept_oracle(rec.icpt[0], case)
            if not floats and len(rec.extreme) == 1 and len(rec.icpt) == 1:
                ex0, ic0 = rec.extreme[0], rec.icpt[0]
                wv_rows = [[float(x) for x in p.fitness.wvalues] for p in pop]
                arrays = [ic0["ext"], ic0["best"], ic0["worst"], ic0["front_worst"], ex0["result"]] + \
                         ([ex0["prev"]] if ex0["prev"] is not None else [])
                if all(x.is_integer() for r in wv_rows for x in r) and \
                        all(bool(numpy.all(numpy.isfinite(m_)) and numpy.all(m_ == numpy.round(m_))) for m_ in arrays):
                    irows = lambda m_: [[int(x) for x in r] for r in m_]
                    info = icpt_term(irows(ic0["ext"]), [int(x) for x in ic0["best"]], [int(x) for x in ic0["worst"]],
                                     [int(x) for x in ic0["front_worst"]], [float(x) for x in ic0["result"]], case, "in-selNSGA3")
                    pb0, pw0 = (cl.prev if cl is not None else (None, None))
                    fullctx = {"nd": nd, "wv": irows(wv_rows), "mem": None if pb0 is None or pw0 is None else (pb0, pw0),
                               "pext": None if ex0["prev"] is None else irows(ex0["prev"]),
                               "best": [int(x) for x in ic0["best"]], "worst": [int(x) for x in ic0["worst"]],
                               "ext": irows(ex0["result"]), "icpt": [float(x) for x in ic0["result"]], "icpt_info": info}
            check_nsga3_call(pop, k, res[1], rec.fronts[0], rec.assoc[0], rec.nich[0], case, len(refs), single=single,
                             fullctx=None if single else fullctx)
            if floats and len(rec.icpt) == 1:
                # float populations: only the oracle (coordinatewise extremes, exact float min/max)
                ic = rec.icpt[0]
                frows = [[float(x) for x in r] for r in rec.assoc[0]["fits"]]
                pb, pw = (cl.prev if cl is not None else (None, None))
                seen = frows + ([pb] if pb is not None else [])
                seenw = frows + ([pw] if pw is not None else [])
                if ([float(x) for x in ic["best"]] != [min(c) for c in zip(*seen)] or
                        [float(x) for x in ic["worst"]] != [max(c) for c in zip(*seenw)] or
                        [float(x) for x in ic["front_worst"]] != [max(c) for c in zip(*frows)]):
                    run.oracle_violation("selNSGA3: best/worst/front-worst point is not the coordinatewise extreme", case)
                if cl is not None:
                    cl.prev = ([float(x) for x in cl.best.reshape(-1)], [float(x) for x in cl.worst.reshape(-1)])
                continue
            if len(rec.extreme) == 1 and len(rec.icpt) == 1:
                ex, ic = rec.extreme[0], rec.icpt[0]
                ints = lambda a: [int(x) for x in a]
                rows = lambda m: [ints(r) for r in m]
                fitrows = rows(rec.assoc[0]["fits"])
                pb, pw = (cl.prev if cl is not None else (None, None))
                # oracle: best / worst / front-worst are the coordinatewise extremes
                seen = fitrows + ([pb] if pb is not None else [])
                seenw = fitrows + ([pw] if pw is not None else [])
                if (ints(ic["best"]) != [min(c) for c in zip(*seen)] or ints(ic["worst"]) != [max(c) for c in zip(*seenw)]
                        or ints(ic["front_worst"]) != [max(c) for c in zip(*fitrows)]):
                    run.oracle_violation("selNSGA3: best/worst/front-worst point is not the coordinatewise extreme", case)
                add("points", "CPoints %s %s %s %s %s %s" % (copt(pb, czl), copt(pw, czl), czll(fitrows), czl(ints(ic["best"])),
                                                            czl(ints(ic["worst"])), czl(ints(ic["front_worst"]))), case)
                add("points", "CExtreme %s %s %s %s" % (czll(rows(ex["fits"])), czl(ints(ex["best"])),
                                                        copt(None if ex["prev"] is None else rows(ex["prev"]), czll), czll(rows(ex["result"]))), case)
            if cl is not None:
                cl.prev = ([int(x) for x in cl.best.reshape(-1)], [int(x) for x in cl.worst.reshape(-1)])
                fits = rec.assoc[0]["fits"]
                cl.calls.append([[int(x) for x in row] for row in fits])
                cl.obs.append(([float(x) for x in cl.best.reshape(-1)],
                               [float(x) for x in cl.worst.reshape(-1)],
                               [] if cl.ext is None else [[int(x) for x in row] for row in cl.ext]))
        for ci, cl in enumerate(clients):
            if floats or not cl.calls:
                continue
            case = {"kind": "nsga3-memory", "calls": cl.calls, "observed": cl.obs, "mode": mode, "client": ci, "clients": nclients}
            note(case, True)
            # oracle: the remembered best/worst points are the extremes over everything THIS client has seen
            seen = []
            for fits, (b, wst, _ext) in zip(cl.calls, cl.obs):
                seen += fits
                if b != [float(min(c)) for c in zip(*seen)] or wst != [float(max(c)) for c in zip(*seen)]:
                    run.oracle_violation("selNSGA3 memory: remembered best/worst point is not the extreme of the fitnesses seen", case)
            add("memory", "CMem %s %s" % (clist([czll(c) for c in cl.calls]),
                                          clist(["(%s, %s, %s)" % (czl([int(x) for x in b]), czl([int(x) for x in wst]), czll(ext))
                                                 for b, wst, ext in cl.obs])), case)

    for _ in range(run.scale(450, 6000)):
        icpt_case()
    for _ in range(run.scale(380, 4000)):
        nsga3_case()
    for _ in range(run.scale(40, 500)):
        nsga3_case(memory_calls=rng.randint(2, 4))
    for _ in range(run.scale(25, 300)):
        nsga3_case(memory_calls=rng.randint(2, 4), mode="func")
    for _ in range(run.scale(20, 250)):      # two clients sharing one reference-point array, interleaved
        nsga3_case(memory_calls=rng.randint(3, 6), mode=rng.choice(["class", "func"]), nclients=2)
    for _ in range(run.scale(80, 900)):
        nsga3_case(floats=True)
    for _ in range(run.scale(15, 150)):
        nsga3_case(memory_calls=rng.randint(2, 4), floats=True, mode=rng.choice(["class", "func"]), nclients=rng.choice([1, 2]))

    run.extra_cov["timing"] = {"generate_s": round(time.time() - run.t0, 1)}
    run.extra_cov["case_kinds"] = {g: len(groups[g][0]) for g in sorted(groups)}
    run.extra_cov["find_intercepts_branches"] = dict(coverage["icpt"])      # exact branch, "/boundary" = decision not stable under rounding
    run.extra_cov["full_pipeline_cases"] = dict(coverage["full"])
    # one sharded evaluation for everything; the expensive exact cases are spread evenly over the shards
    terms, cases = [], []
    for g in sorted(groups):
        if g != "exact":
            terms += groups[g][0]
            cases += [dict(c, group=g) for c in groups[g][1]]
    ex_terms, ex_cases = groups.get("exact", ([], []))
    if ex_terms:
        step = max(1, len(terms) // len(ex_terms))
        for n, (t, c) in enumerate(zip(ex_terms, ex_cases)):
            pos = min(len(terms), n * (step + 1))
            terms.insert(pos, t)
            cases.insert(pos, dict(c, group="exact"))
    t1 = time.time()
    run.correspond("all", "C07", terms, cases, shard=run.scale(60, 120))
    run.extra_cov["timing"]["coq_s"] = round(time.time() - t1, 1)
    # the regenerated definitions evaluated on the same recorded calls (validates the translator itself)
    if gen_corr:
        sub = [i for i, t in enumerate(terms) if t.split(" ", 1)[0] in GEN_KINDS]
        if run.tier == "quick":          # the many small exhaustive selSPEA2 cases: every third one is re-evaluated
            sub = [i for n, i in enumerate(sub) if not terms[i].startswith("CSpea2Q") or n % 3 == 0]
        t2 = time.time()
        run.correspond("regen", "C07_gen", [terms[i] for i in sub], [dict(cases[i], evaluated="regenerated definitions") for i in sub],
                       check="check_gen", shard=run.scale(60, 120))
        run.corr_groups["regen"]["evaluated"] = "regenerated definitions (Gen/C07_gen.v) on the recorded calls"
        run.extra_cov["timing"]["coq_regen_s"] = round(time.time() - t2, 1)
    elif translated:
        run.notes.append("Props/C07_gen.v / Corr/C07_gen.v did not build: the regenerated definitions were not evaluated")
