"""C07 — SPEA2, NSGA-III selection and the reference-point generator (deap/tools/emo.py)."""
import itertools
import math
from fractions import Fraction

import numpy

from vlib import cz, czl, cnat, cnatl, cbool, clist, copt, cq, cfloat, guarded

EPS = Fraction(1, 2 ** 52)          # numpy.finfo(float).eps


# ----------------------------------------------------------------------------
# literals
# ----------------------------------------------------------------------------
def cfl(l):
    return clist([cfloat(x) for x in l])


def cfll(ll):
    return clist([cfl(l) for l in ll])


def cql(l):
    return clist([cq(x) for x in l])


def cqll(ll):
    return clist([cql(l) for l in ll])


def czll(ll):
    return clist([czl(l) for l in ll])


def cnatll(ll):
    return clist([cnatl(l) for l in ll])


# ----------------------------------------------------------------------------
# independent statements used by the oracle
# ----------------------------------------------------------------------------
def dom(a, b):
    """a dominates b on weighted values (maximisation)."""
    return all(x >= y for x, y in zip(a, b)) and any(x > y for x, y in zip(a, b))


def depths(wv):
    """Pareto depth of every individual by peeling (independent of deap's sorters)."""
    n = len(wv)
    depth = [None] * n
    left = set(range(n))
    d = 0
    while left:
        front = [i for i in left if not any(dom(wv[j], wv[i]) for j in left)]
        for i in front:
            depth[i] = d
        left -= set(front)
        d += 1
    return depth


def perp_d2(fn, r):
    """squared distance from the point fn to the line spanned by r (exact, Fractions)."""
    rr = sum(x * x for x in r)
    t = sum(x * y for x, y in zip(fn, r)) / rr
    return sum((t * y - x) ** 2 for x, y in zip(fn, r))


def shuffle_code(before, after):
    """code c with: element before[i] is inserted at position c[i] among before[0..i-1] as ordered in `after`."""
    pos = {x: i for i, x in enumerate(after)}
    return [sum(1 for j in range(i) if pos[before[j]] < pos[before[i]]) for i in range(len(before))]


# ----------------------------------------------------------------------------
# recording proxies installed in the namespace of deap.tools.emo
# ----------------------------------------------------------------------------
class RandomProxy(object):
    def __init__(self, seed):
        import random as _r
        self._rng = _r.Random(seed)
        self.log = []

    def randint(self, a, b):
        r = self._rng.randint(a, b)
        self.log.append(r)
        return r

    def __getattr__(self, name):
        return getattr(self._rng, name)


class NpRandomProxy(object):
    def __init__(self, seed):
        self._rs = numpy.random.RandomState(seed)
        self.log = []

    def shuffle(self, arr):
        before = [int(x) for x in arr]
        self._rs.shuffle(arr)
        after = [int(x) for x in arr]
        if sorted(before) != sorted(after) or len(set(before)) != len(before):
            raise RuntimeError("shuffle proxy: not a permutation of distinct values")
        self.log.append(shuffle_code(before, after))

    def __getattr__(self, name):
        return getattr(self._rs, name)


class NumpyProxy(object):
    def __init__(self, seed):
        self.random = NpRandomProxy(seed)

    def __getattr__(self, name):
        return getattr(numpy, name)


class Recorder(object):
    """Replaces random / numpy / helper functions in deap.tools.emo by logging versions."""
    NAMES = ["random", "numpy", "_randomizedSelect", "sortNondominated", "sortLogNondominated",
             "associate_to_niche", "niching", "find_extreme_points", "find_intercepts"]

    def __init__(self, emo, seed):
        self.emo = emo
        self.saved = {n: getattr(emo, n) for n in self.NAMES}
        self.rnd = RandomProxy(seed)
        self.np = NumpyProxy(seed)
        self.selects = []       # (array copy, K, draws, result)
        self.fronts = []
        self.assoc = []
        self.nich = []
        self.extreme = []
        self.icpt = []
        self._depth = 0

    def __enter__(self):
        emo, saved = self.emo, self.saved
        emo.random = self.rnd
        emo.numpy = self.np

        def rsel(array, begin, end, i):
            if self._depth == 0:
                rec = {"array": list(array), "begin": begin, "end": end, "i": i, "d0": len(self.rnd.log)}
            self._depth += 1
            try:
                r = saved["_randomizedSelect"](array, begin, end, i)
            finally:
                self._depth -= 1
            if self._depth == 0:
                rec["draws"] = self.rnd.log[rec["d0"]:]
                rec["result"] = r
                self.selects.append(rec)
            return r

        def mk_sort(name):
            def f(individuals, k, first_front_only=False):
                r = saved[name](individuals, k, first_front_only)
                self.fronts.append([list(fr) for fr in r])
                return r
            return f

        def assoc(fitnesses, reference_points, best_point, intercepts):
            args = (numpy.array(fitnesses, dtype=float), numpy.array(reference_points, dtype=float),
                    numpy.array(best_point, dtype=float).reshape(-1), numpy.array(intercepts, dtype=float).reshape(-1))
            niches, dist = saved["associate_to_niche"](fitnesses, reference_points, best_point, intercepts)
            self.assoc.append({"fits": args[0], "refs": args[1], "best": args[2], "icpt": args[3],
                               "niches": [int(x) for x in niches], "dist": [float(x) for x in dist]})
            return niches, dist

        def nich(individuals, k, niches, distances, niche_counts):
            rec = {"inds": list(individuals), "k": int(k), "niches": [int(x) for x in niches],
                   "dist": [float(x) for x in distances], "counts0": [int(x) for x in niche_counts],
                   "d0": len(self.np.random.log)}
            r = saved["niching"](individuals, k, niches, distances, niche_counts)
            rec["codes"] = self.np.random.log[rec["d0"]:]
            rec["counts1"] = [int(x) for x in niche_counts]
            rec["selected"] = list(r)
            self.nich.append(rec)
            return r

        def fext(fitnesses, best_point, extreme_points=None):
            r = saved["find_extreme_points"](fitnesses, best_point, extreme_points)
            self.extreme.append({"fits": numpy.array(fitnesses, dtype=float), "best": numpy.array(best_point, dtype=float).reshape(-1),
                                 "prev": None if extreme_points is None else numpy.array(extreme_points, dtype=float),
                                 "result": numpy.array(r, dtype=float)})
            return r

        def ficpt(extreme_points, best_point, current_worst, front_worst):
            r = saved["find_intercepts"](extreme_points, best_point, current_worst, front_worst)
            self.icpt.append({"best": numpy.array(best_point, dtype=float).reshape(-1),
                              "worst": numpy.array(current_worst, dtype=float).reshape(-1),
                              "front_worst": numpy.array(front_worst, dtype=float).reshape(-1),
                              "result": numpy.array(r, dtype=float).reshape(-1)})
            return r

        emo.find_extreme_points = fext
        emo.find_intercepts = ficpt
        emo._randomizedSelect = rsel
        emo.sortNondominated = mk_sort("sortNondominated")
        emo.sortLogNondominated = mk_sort("sortLogNondominated")
        emo.associate_to_niche = assoc
        emo.niching = nich
        return self

    def __exit__(self, *a):
        for n, v in self.saved.items():
            setattr(self.emo, n, v)
        return False


# ----------------------------------------------------------------------------
# populations
# ----------------------------------------------------------------------------
class PopFactory(object):
    def __init__(self, base):
        self.base = base
        self.classes = {}

    def cls(self, w):
        w = tuple(float(x) for x in w)
        if w not in self.classes:
            F = type("F%d" % len(self.classes), (self.base.Fitness,), {"weights": w})
            self.classes[w] = (type("Ind%d" % len(self.classes), (list,), {}), F)
        return self.classes[w]

    def make(self, w, vals, vtype="float"):
        """vtype: how the fitness values are handed to the setter (float / int / numpy scalars / mixed)."""
        I, F = self.cls(w)
        conv = {"float": float, "int": int, "npfloat": numpy.float64, "npint": numpy.int64}
        pop = []
        for n, v in enumerate(vals):
            ind = I([n])
            ind.fitness = F()
            if vtype == "mixed":
                ind.fitness.values = tuple([float, int, numpy.float64, numpy.int64][(n + c) % 4](x) for c, x in enumerate(v))
            else:
                ind.fitness.values = tuple(conv[vtype](x) for x in v)
            pop.append(ind)
        return pop


def snapshot(pop):
    """what a selection must not change: the list, the objects, their genomes and fitnesses"""
    return [(id(p), list(p), tuple(p.fitness.values), tuple(p.fitness.wvalues)) for p in pop]


def gen_values(rng, n, M, style=None):
    """n integer fitness vectors with M objectives."""
    style = style or rng.choice(["grid", "grid", "grid", "dups", "collinear", "single", "layers", "wide", "ndups", "firsttie"])
    if style == "ndups":
        # an anti-chain (for all-min or all-max weights) with exact duplicates, plus points dominated by it
        vals = []
        for _ in range(n):
            t = rng.randint(0, 3)
            base_pt = [t, 3 - t] + [0] * (M - 2)
            if rng.random() < 0.35:
                base_pt = [x + rng.choice([0, 0.5, 1]) * 2 for x in base_pt]      # weakly / strictly worse or better copies
                base_pt = [int(x) for x in base_pt]
            vals.append(base_pt)
        return style, vals
    if style == "firsttie":
        # many exact ties on the first objective, the dominated member often listed first
        vals = [[rng.randint(0, 1)] + [rng.randint(0, 4) for _ in range(M - 1)] for _ in range(n)]
        if rng.random() < 0.5:
            vals.sort(key=lambda v: (v[0], -sum(v[1:])))
        else:
            vals.sort(key=lambda v: v[0])
        return style, vals
    if style == "grid":
        hi = rng.choice([1, 2, 3, 6])
        return style, [[rng.randint(0, hi) for _ in range(M)] for _ in range(n)]
    if style == "wide":
        return style, [[rng.randint(-20, 20) for _ in range(M)] for _ in range(n)]
    if style == "dups":
        base = [[rng.randint(0, 3) for _ in range(M)] for _ in range(rng.randint(1, 3))]
        return style, [list(rng.choice(base)) for _ in range(n)]
    if style == "collinear":
        a = [rng.randint(-3, 3) for _ in range(M)]
        d = [rng.choice([-2, -1, 0, 1, 2]) for _ in range(M)]
        return style, [[x + t * y for x, y in zip(a, d)] for t in [rng.randint(0, 4) for _ in range(n)]]
    if style == "single":
        a = [rng.randint(-3, 3) for _ in range(M)]
        return style, [list(a) for _ in range(n)]
    # layers: shifted anti-chains -> several fronts of controlled size (for all-max or all-min weights)
    vals = []
    for _ in range(n):
        layer = rng.randint(0, 2)
        cut = sorted(rng.randint(0, 4) for _ in range(M - 1))
        parts = [b - a for a, b in zip([0] + cut, cut + [4])]
        vals.append([p + layer for p in parts])
    return style, vals


def gen_weights(rng, M):
    mode = rng.random()
    if mode < 0.3:
        return [-1] * M
    if mode < 0.5:
        return [1] * M
    if mode < 0.9:
        return [rng.choice([1, -1]) for _ in range(M)]
    return [rng.choice([1, -1]) * rng.choice([1, 2, 3]) for _ in range(M)]


# ----------------------------------------------------------------------------
def main(run):
    from deap import base, tools
    from deap.tools import emo

    run.rule = ("SPEA2: exhaustive populations of 1..3 (thorough: 1..4) individuals over {0,1,2}^2 x every k, plus seeded random "
                "integer-grid populations (2..5 objectives, +-weights, duplicates, collinear, single-point, layered fronts, k in 1..n) "
                "replayed exactly over Q, and random float populations replayed bit for bit; every _randomizedSelect call with its pivot draws. "
                "NSGA-III: the same population styles x both sorters x generated reference points (p 1..8, optional scaling, two layers), "
                "memory variant threaded over 2..4 calls (best/worst/extreme points); 15% of the populations mix objectives of magnitude 1 and 1e6; "
                "plus float-valued populations (discrete part, association and oracle only); "
                "niching replayed with the recorded shuffles; association checked in binary64 "
                "within tolerance and exactly over Q on a robust subset. Reference points: every (M,p) in 2..6 x 1..8, scalings. "
                "Hardening: sequences on the same objects (same population selected from repeatedly / reordered; selNSGA3WithMemory and the "
                "hand-threaded best_point/worst_point/extreme_points/return_memory route; two interleaved clients sharing one reference array; "
                "overwritten reference-point results), inputs snapshotted and compared after every call, value domains (int / numpy scalar "
                "fitnesses, 1-ulp near-ties, +-0.0, 1e9 offsets with 1e-3 spread, 1e-9 scale, objectives offset by 10..1e9, float32 reference "
                "points), exact duplicates of non-dominated points and first-objective ties, k at 1 / n / |nd|+-1 / cumulative front sizes +-1, "
                "keyword / default-argument / numpy-integer routes, p = 9..12. "
                "A case is distinct by its full input; non-trivial = more than one individual or a non-default parameter.")
    run.trusted += ["Coq 8.16.1 kernel and vm_compute",
                    "hand-written models coq/Model/C07_{Spea2,Nsga3,RefPoints}.v tied by correspondence (harness/c07.py)",
                    "recording proxies for random / numpy.random / helper functions placed in the namespace of deap.tools.emo",
                    "find_extreme_points / find_intercepts (ASF, numpy.linalg.solve) are inputs recorded from the implementation, not modelled",
                    "sortNondominated / sortLogNondominated are inputs (property C04); the fronts they return are checked by an independent peeling oracle",
                    "exact replay of selSPEA2 uses integer grids (|coordinate| <= 64, n <= 64): float keys raw + 1/(d+2) then order exactly like the rationals; "
                    "the binary64 replay (Coq primitive floats) has no such restriction",
                    "K = math.sqrt(N) is modelled by isqrt(N) (valid for N < 2^50)"]
    run.assumptions += ["fitness values are finite (no NaN/inf)", "1 <= k <= n", "individuals are distinct objects",
                        "reference points non-zero, scaling in (0, 1]"]
    run.build_props()
    rng = run.rng
    pf = PopFactory(base)
    groups = {}

    def add(group, term, case, nontrivial=True):
        g = groups.setdefault(group, ([], []))
        g[0].append(term)
        g[1].append(case)

    def note(case, nontrivial=True):
        run.note_case(case, nontrivial, sample=case if len(run.samples) < 6 and run.evaluations % 211 == 1 else None)

    # ------------------------------------------------------------------
    # SPEA2
    # ------------------------------------------------------------------
    def input_modified(what, case):
        """the models read their inputs only: an implementation that changes them disagrees with the model"""
        run.disagreements.append({"group": "inputs-unmodified", "index": None, "term": what, "case": case})

    def spea2_case(w, vals, k, floats=False, record_selects=True, vtype="float", pop=None):
        pop = pop if pop is not None else pf.make(w, vals, vtype)
        n = len(pop)
        idx = {id(p): i for i, p in enumerate(pop)}
        seed = rng.getrandbits(32)
        before = snapshot(pop)
        with Recorder(emo, seed) as rec:
            res = guarded(tools.selSPEA2, pop, k)
        case = {"kind": "spea2", "weights": list(w), "values": [list(v) for v in vals], "k": k, "seed": seed, "vtype": vtype}
        note(case, n > 1)
        if snapshot(pop) != before:
            input_modified("selSPEA2 changed its input list / individuals / fitnesses", case)
        if res[0] != "ok":
            run.oracle_violation("selSPEA2 raised %s" % res[1], case)
            return
        out = res[1]
        ids = [id(x) for x in out]
        case["observed"] = [idx.get(i, -1) for i in ids]
        if any(i not in idx for i in ids):
            run.oracle_violation("selSPEA2 returned an object that is not an input individual", case)
            return
        sel = [idx[i] for i in ids]
        if len(sel) != k:
            run.oracle_violation("selSPEA2 returned %d individuals instead of k=%d" % (len(sel), k), case)
        if len(set(sel)) != len(sel):
            run.oracle_violation("selSPEA2 returned an individual twice", case)
        wv = [p.fitness.wvalues for p in pop]
        nd = [i for i in range(n) if not any(dom(wv[j], wv[i]) for j in range(n))]
        if len(nd) <= k and not set(nd) <= set(sel):
            run.oracle_violation("selSPEA2 left out a non-dominated individual although there are at most k of them", case)
        if len(nd) >= k and not set(sel) <= set(nd):
            run.oracle_violation("selSPEA2 returned a dominated individual although there are at least k non-dominated ones", case)
        # K is only compared with integers: floor must be the integer square root
        if math.floor(math.sqrt(n)) != math.isqrt(n):
            run.oracle_violation("floor(sqrt(N)) != isqrt(N)", case)
        draws = list(rec.rnd.log)
        if floats:
            add("spea2f", "CSpea2F %s %s %s %s %s" % (cfll(vals), cfl(w), cnat(k), czl(draws), cnatl(sel)), case)
        else:
            add("spea2q", "CSpea2Q %s %s %s %s %s" % (czll(vals), czl(w), cnat(k), czl(draws), cnatl(sel)), case)
        if record_selects:
            for s in rec.selects[:3]:
                if s["begin"] != 0 or s["end"] != len(s["array"]) - 1:
                    continue
                rank = math.floor(s["i"])
                srt = sorted(s["array"])
                c2 = {"kind": "select", "array": s["array"], "K": s["i"], "draws": s["draws"], "observed": s["result"]}
                note(c2, len(srt) > 1)
                if s["result"] != srt[rank]:
                    run.oracle_violation("_randomizedSelect did not return the element of rank floor(K)", c2)
                if floats:
                    add("select", "CSelectF %s %s %s %s" % (cfl(s["array"]), cz(rank), czl(s["draws"]), cfloat(s["result"])), c2)
                else:
                    add("select", "CSelectQ %s %s %s %s" % (cql(s["array"]), cz(rank), czl(s["draws"]), cq(s["result"])), c2)

    # exhaustive small scope
    pts = list(itertools.product([0, 1, 2], repeat=2))
    for n in range(1, run.scale(3, 4) + 1):
        for vals in itertools.product(pts, repeat=n):
            for k in range(1, n + 1):
                spea2_case([-1, -1], [list(v) for v in vals], k, record_selects=False)
    def boundary_k(n, marks):
        """k at / next to the thresholds of the code: 1, n, and the given sizes +-1"""
        cands = {1, n}
        for m in marks:
            cands |= {m - 1, m, m + 1}
        return rng.choice(sorted(c for c in cands if 1 <= c <= n))

    def nd_count(w, vals):
        wv = [[x * y for x, y in zip(v, w)] for v in vals]
        return sum(1 for i in range(len(wv)) if not any(dom(wv[j], wv[i]) for j in range(len(wv))))

    # random grids
    for _ in range(run.scale(620, 7000)):
        M = rng.randint(2, 5)
        n = rng.choice([1, 2, 3, 4, 5, 6, 8, 10, 12, 16, 20]) if rng.random() < 0.8 else rng.randint(1, 30)
        style, vals = gen_values(rng, n, M)
        w = gen_weights(rng, M)
        if style in ("ndups", "firsttie") and rng.random() < 0.7:
            w = [rng.choice([-1, -1, -2])] * M if rng.random() < 0.7 else [1] * M
        k = boundary_k(n, [nd_count(w, vals)]) if rng.random() < 0.4 else rng.randint(1, n)
        vtype = rng.choice(["float"] * 6 + ["int", "npfloat", "npint", "mixed"])
        spea2_case(w, vals, k, vtype=vtype)
    # the same population objects selected from repeatedly (no state may survive between calls) and in a
    # second list holding the same objects in another order
    for _ in range(run.scale(40, 400)):
        M = rng.randint(2, 4)
        n = rng.randint(2, 12)
        style, vals = gen_values(rng, n, M)
        w = gen_weights(rng, M)
        pop = pf.make(w, vals)
        for rep in range(3):
            spea2_case(w, vals, rng.randint(1, n), pop=pop, record_selects=False)
        perm = list(range(n))
        rng.shuffle(perm)
        spea2_case(w, [vals[i] for i in perm], rng.randint(1, n), pop=[pop[i] for i in perm], record_selects=False)
    # floats (bit-exact replay)
    for _ in range(run.scale(200, 3000)):
        M = rng.randint(2, 5)
        n = rng.randint(1, 14)
        kind = rng.random()
        if kind < 0.5:
            vals = [[rng.random() for _ in range(M)] for _ in range(n)]
        elif kind < 0.8:
            vals = [[rng.choice([0.1, 0.2, 0.3, 0.7, 1e8, 1e-7, -0.1]) for _ in range(M)] for _ in range(n)]
        elif kind < 0.9:
            vals = [[rng.uniform(-1e3, 1e3) for _ in range(M)] for _ in range(n)]
        else:
            # near-ties (1 ulp / 2^-40 relative), +-0.0, large offset with tiny spread, tiny scale
            sub = rng.choice(["ulp", "zero", "offset", "tiny"])
            if sub == "ulp":
                b = [rng.choice([0.1, 1.0, 3.0]) for _ in range(M)]
                vals = [[rng.choice([x, math.nextafter(x, 9.0), x * (1 + 2.0 ** -40), x]) for x in b] for _ in range(n)]
            elif sub == "zero":
                vals = [[rng.choice([0.0, -0.0, 1.0, -1.0]) for _ in range(M)] for _ in range(n)]
            elif sub == "offset":
                vals = [[1e9 + rng.choice([0.0, 1e-3, -1e-3, 2e-3]) for _ in range(M)] for _ in range(n)]
            else:
                vals = [[rng.randint(0, 3) * 1e-9 for _ in range(M)] for _ in range(n)]
        w = [rng.choice([1.0, -1.0, -0.3, 2.5]) for _ in range(M)]
        k = boundary_k(n, [nd_count(w, vals)]) if rng.random() < 0.3 else rng.randint(1, n)
        spea2_case(w, vals, k, floats=True)

    # ------------------------------------------------------------------
    # reference points
    # ------------------------------------------------------------------
    def ref_case(M, p, scaling, route="pos"):
        if route == "kw":
            res = guarded(tools.uniform_reference_points, nobj=M, p=p, scaling=scaling)
        elif route == "np":
            res = guarded(tools.uniform_reference_points, numpy.int64(M), numpy.int64(p),
                          None if scaling is None else numpy.float64(scaling))
        elif route == "default":          # p omitted: the documented default p = 4
            assert p == 4 and scaling is None
            res = guarded(tools.uniform_reference_points, M)
        else:
            res = guarded(tools.uniform_reference_points, M, p, scaling)
        case = {"kind": "refpoints", "nobj": M, "p": p, "scaling": scaling, "route": route}
        note(case, True)
        if res[0] != "ok":
            run.oracle_violation("uniform_reference_points raised %s" % res[1], case)
            return None
        pts_ = res[1]
        rows = [tuple(float(x) for x in r) for r in pts_]
        if len(rows) != math.comb(M + p - 1, p):
            run.oracle_violation("uniform_reference_points returned %d points, expected C(M+p-1,p)=%d" % (len(rows), math.comb(M + p - 1, p)), case)
        if len(set(rows)) != len(rows):
            run.oracle_violation("uniform_reference_points returned a point twice", case)
        if any(x < 0 for r in rows for x in r):
            run.oracle_violation("uniform_reference_points returned a negative coordinate", case)
        if any(len(r) != M or abs(sum(Fraction(x) for x in r) - 1) > Fraction(1, 10 ** 12) for r in rows):
            run.oracle_violation("uniform_reference_points: coordinates do not sum to 1", case)
        big = len(rows) * M > 3000
        if scaling is None:
            nums = [[int(round(x * p)) for x in r] for r in rows]
            if any(float(a) / float(p) != x for r, nr in zip(rows, nums) for x, a in zip(r, nr)):
                run.oracle_violation("uniform_reference_points: a coordinate is not i/p", case)
            add("ref", "CRefN %s %s %s" % (cnat(M), cnat(p), cnatll(nums)), case)
        elif not big:
            add("ref", "CRefQ %s %s %s %s" % (cnat(M), cnat(p), cq(scaling), cqll(rows)), case)
        if not big or scaling is not None:
            add("ref", "CRefF %s %s %s %s" % (cnat(M), cnat(p), copt(scaling, cfloat), cfll(rows)), case)
        return pts_

    for M in range(2, 7):
        for p in range(1, 9):
            ref_case(M, p, None)
    for M, p in [(1, 3), (1, 1)]:
        ref_case(M, p, None)
    # beyond the quantifier range (the recursion must not depend on float remainders): p = 9..12
    for M in range(3, run.scale(4, 6)):
        for p in range(9, 13):
            if math.comb(M + p - 1, p) <= 500:
                ref_case(M, p, None)
    scal = [0.5, 1.0, 0.25, 0.3, 0.75, 0.9, 1e-9, 1]
    for M in range(2, 7):
        for p in range(1, 9):
            if math.comb(M + p - 1, p) <= run.scale(330, 1300):
                ref_case(M, p, rng.choice(scal))
    # rarely used routes: keyword arguments, default p, numpy integer / float arguments; two results are independent arrays
    for M in range(2, 7):
        ref_case(M, 4, None, "default")
        ref_case(M, rng.randint(1, 5), rng.choice([None, 0.5]), "kw")
        ref_case(M, rng.randint(1, 5), rng.choice([None, 0.3]), "np")
    # a caller that overwrites a returned array must not influence later calls (no cached result)
    for M, p, sc in [(3, 4, None), (2, 5, 0.5), (4, 3, None)]:
        a1 = tools.uniform_reference_points(M, p, sc)
        a1 *= 0.0
        a1[0, :] = 7.0
        ref_case(M, p, sc)

    # ------------------------------------------------------------------
    # NSGA-III
    # ------------------------------------------------------------------
    budget = {"exact": run.scale(40, 400)}

    def make_refs(M):
        while True:
            p = rng.randint(1, 8)
            if math.comb(M + p - 1, p) <= 130:
                break
        r = rng.random()
        if r < 0.6:
            return tools.uniform_reference_points(M, p), {"p": p}
        if r < 0.8:
            s = rng.choice(scal)
            return tools.uniform_reference_points(M, p, s), {"p": p, "scaling": s}
        p2 = rng.randint(1, 2)
        return numpy.concatenate((tools.uniform_reference_points(M, p, 1.0),
                                  tools.uniform_reference_points(M, p2, 0.5)), axis=0), {"p": p, "inner_p": p2}

    def check_nsga3_call(pop, k, out, rec_fronts, rec_assoc, rec_nich, case, R, single=False):
        # single=True: float32 reference points (the implementation then computes their norms in single precision)
        """Oracle for one selNSGA3 call + correspondence terms."""
        n = len(pop)
        idx = {id(p): i for i, p in enumerate(pop)}
        ids = [id(x) for x in out]
        if any(i not in idx for i in ids):
            run.oracle_violation("selNSGA3 returned an object that is not an input individual", case)
            return
        sel = [idx[i] for i in ids]
        case["observed"] = sel
        if len(sel) != k:
            run.oracle_violation("selNSGA3 returned %d individuals instead of k=%d" % (len(sel), k), case)
        if len(set(sel)) != len(sel):
            run.oracle_violation("selNSGA3 returned an individual twice", case)
        wv = [p.fitness.wvalues for p in pop]
        dep = depths(wv)
        selset = set(sel)
        if selset:
            worst_sel = max(dep[i] for i in selset)
            if any(dep[j] < worst_sel for j in range(n) if j not in selset):
                run.oracle_violation("selNSGA3 left out an individual of a strictly better front than one it selected", case)
        fronts = [[idx[id(x)] for x in fr] for fr in rec_fronts]
        case["fronts"] = fronts
        flat = [i for fr in fronts for i in fr]
        # the hypothesis of the front-priority theorem, checked on what the sorter returned inside this call
        for r, fr in enumerate(fronts):
            if sorted(fr) != [i for i in range(n) if dep[i] == r]:
                run.oracle_violation("selNSGA3: the fronts it sorted are not the Pareto fronts of the population (front %d)" % r, case)
                break
        if not fronts or len(flat) < k or len(flat) - len(fronts[-1]) >= k:
            run.oracle_violation("selNSGA3: the sorted fronts do not satisfy |fronts[:-1]| < k <= |fronts|", case)
        # association: argmin of the perpendicular distance in the normalised space, recomputed exactly
        a = rec_assoc
        finite = bool(numpy.all(numpy.isfinite(a["fits"])) and numpy.all(numpy.isfinite(a["best"])) and
                      numpy.all(numpy.isfinite(a["icpt"])) and numpy.all(numpy.isfinite(a["dist"])))
        robust = finite
        if finite:
            refsF = [[Fraction(x) for x in r] for r in a["refs"]]
            bestF = [Fraction(x) for x in a["best"]]
            icptF = [Fraction(x) for x in a["icpt"]]
            den = [c - b + EPS for c, b in zip(icptF, bestF)]
            if any(d == 0 for d in den):
                finite = robust = False
        if finite:
            for row, niche in zip(a["fits"], a["niches"]):
                fn = [(Fraction(x) - b) / d for x, b, d in zip(row, bestF, den)]
                d2 = [perp_d2(fn, r) for r in refsF]
                m = min(d2)
                # rounding errors of the distance computation are relative to |fn|^2 (it is homogeneous in fn)
                tol = Fraction(1, 10 ** 5 if single else 10 ** 9) * sum(x * x for x in fn) + Fraction(1, 10 ** 290)
                if not (0 <= niche < len(refsF)) or d2[niche] > m + tol:
                    run.oracle_violation("selNSGA3 associated a candidate with a reference direction that is not the closest "
                                         "(perpendicular distance in the normalised space)", case,
                                         observed={"fitness_row": [float(x) for x in row], "niche": niche,
                                                   "closest": d2.index(m)})
                    robust = False
                    break
                srt = sorted(d2)
                if len(srt) > 1 and not all(x == 0 for x in fn):
                    if srt[1] < srt[0] + Fraction(1, 10 ** 6) * sum(x * x for x in fn):
                        robust = False
        # niche balance from the recorded association
        nlast = len(fronts[-1]) if fronts else 0
        niches_all = a["niches"]
        if len(niches_all) == len(flat) and nlast:
            niche_of = dict(zip(flat, niches_all))
            counts = {}
            for i in sel:
                if i in niche_of:
                    counts[niche_of[i]] = counts.get(niche_of[i], 0) + 1
            last = fronts[-1]
            received = set(niche_of[i] for i in last if i in selset)
            left = set(niche_of[i] for i in last if i not in selset)
            for na in received:
                for nb in left:
                    if counts.get(na, 0) > counts.get(nb, 0) + 1:
                        run.oracle_violation("niching: niche %d received a last-front member and ends at %d, more than one above niche %d (%d) "
                                             "which still had a candidate left" % (na, counts.get(na, 0), nb, counts.get(nb, 0)), case)
        # correspondence terms
        nr = rec_nich
        lastidx = {id(x): i for i, x in enumerate(nr["inds"])}
        nsel = [lastidx.get(id(x), 4999) for x in nr["selected"]]
        add("niching", "CNiching %s %s %s %s %s %s %s" % (cnat(nr["k"]), cnatl(nr["niches"]), cql(nr["dist"]), cnatl(nr["counts0"]),
                                                            cnatll(nr["codes"]), cnatl(nsel), cnatl(nr["counts1"])), case)
        if finite:
            add("nsga3", "CNsga3 %s %s %s %s %s %s %s %s" % (cnatll(fronts), cnat(k), cnat(R), cnatl(a["niches"]), cql(a["dist"]),
                                                              cnatll(nr["codes"]), cnatl(sel), cnatl(nr["counts1"])), case)
            if not single:
                add("assocf", "CAssocF %s %s %s %s %s %s" % (cfll(a["fits"]), cfll(a["refs"]), cfl(a["best"]), cfl(a["icpt"]),
                                                             cnatl(a["niches"]), cfl(a["dist"])), case)
            size = len(a["fits"]) * len(a["refs"]) * len(a["best"])
            if robust and not single and size <= 400 and budget["exact"] > 0:
                budget["exact"] -= 1
                add("exact", "CNsga3Q %s %s %s %s %s %s %s %s %s %s" % (
                    cqll(a["fits"]), cnatll(fronts), cnat(k), cqll(a["refs"]), cql(a["best"]), cql(a["icpt"]), cql(a["dist"]),
                    cnatll(nr["codes"]), cnatl(a["niches"]), cnatl(sel)), case)

    class Client(object):
        """One holder of NSGA-III memory: the class selNSGA3WithMemory, or selNSGA3 called with the
        best_point / worst_point / extreme_points / return_memory arguments threaded by hand."""
        def __init__(self, refs, nd, mode):
            self.refs, self.nd, self.mode = refs, nd, mode
            self.sel = tools.selNSGA3WithMemory(refs, nd) if mode == "class" else None
            self.best = self.worst = self.ext = None
            self.calls, self.obs = [], []
            self.prev = (None, None)

        def __call__(self, pop, k):
            if self.mode == "class":
                out = self.sel(pop, k)
                self.best, self.worst, self.ext = self.sel.best_point, self.sel.worst_point, self.sel.extreme_points
                return out
            if self.best is None:
                out, mem = tools.selNSGA3(pop, k, self.refs, self.nd, return_memory=True)
            else:
                out, mem = tools.selNSGA3(pop, k, ref_points=self.refs, nd=self.nd, best_point=self.best.reshape((1, -1)),
                                          worst_point=self.worst.reshape((1, -1)), extreme_points=self.ext, return_memory=True)
            self.best, self.worst, self.ext = mem.best_point, mem.worst_point, mem.extreme_points
            return out

    def nsga3_case(memory_calls=0, floats=False, mode="class", nclients=1):
        M = rng.randint(2, 5)
        w = gen_weights(rng, M) if not floats else [rng.choice([1.0, -1.0, -0.3, 2.5]) for _ in range(M)]
        refs, rinfo = make_refs(M)
        single = (not memory_calls) and rng.random() < 0.05
        if single:
            refs = refs.astype(numpy.float32)
            rinfo = dict(rinfo, dtype="float32")
        refs_before = refs.copy()
        nd = rng.choice(["standard", "log"])
        seed = rng.getrandbits(32)
        ncalls = memory_calls or 1
        clients = [Client(refs, nd, mode) for _ in range(nclients)] if memory_calls else []
        # per-objective integer offsets kept for all calls of the case (objectives far from the origin)
        offs = [0] * M
        if not floats and rng.random() < 0.3:
            offs = [rng.choice([0, 10, -10, 1000, 10 ** 9, -10 ** 6]) for _ in range(M)]
        for call in range(ncalls):
            cl = clients[call % nclients] if clients else None
            n = rng.choice([1, 2, 3, 4, 5, 6, 8, 10, 12, 16]) if rng.random() < 0.8 else rng.randint(1, 24)
            style, vals = gen_values(rng, n, M)
            if floats:
                kind = rng.random()
                style = "floats"
                if kind < 0.5:
                    vals = [[rng.random() for _ in range(M)] for _ in range(n)]
                elif kind < 0.7:
                    vals = [[rng.choice([0.1, 0.2, 0.3, 0.7, 1e3, 1e-4, -0.1]) for _ in range(M)] for _ in range(n)]
                elif kind < 0.85:
                    vals = [[rng.uniform(-1e3, 1e3) for _ in range(M)] for _ in range(n)]
                else:
                    sub = rng.choice(["offset", "tiny", "zero"])
                    if sub == "offset":
                        vals = [[1e9 + rng.choice([0.0, 1e-3, -1e-3, 2e-3]) for _ in range(M)] for _ in range(n)]
                    elif sub == "tiny":
                        vals = [[rng.randint(0, 3) * 1e-9 for _ in range(M)] for _ in range(n)]
                    else:
                        vals = [[rng.choice([0.0, -0.0, 1.0, -1.0]) for _ in range(M)] for _ in range(n)]
            else:
                if rng.random() < 0.15:
                    # objectives of very different magnitude (still exact integers): the ASF weights matter
                    big = [rng.random() < 0.5 for _ in range(M)]
                    vals = [[x * 10 ** 6 if bflag else x for x, bflag in zip(v, big)] for v in vals]
                    style += "+mixed-magnitude"
                if any(offs):
                    vals = [[x + o for x, o in zip(v, offs)] for v in vals]
                    style += "+offset"
            # k: random, or at / next to the cumulative front sizes (last front taken completely / by one)
            if rng.random() < 0.4:
                dep0 = depths([[x * y for x, y in zip(v, w)] for v in vals])
                cums, tot = [], 0
                for r in range(max(dep0) + 1):
                    tot += dep0.count(r)
                    cums.append(tot)
                k = boundary_k(n, cums)
            else:
                k = rng.randint(1, n)
            vtype = "float" if floats else rng.choice(["float"] * 6 + ["int", "npfloat", "npint", "mixed"])
            pop = pf.make(w, vals, vtype)
            route = "plain"
            if cl is None and not single:
                route = rng.choice(["plain"] * 5 + ["kw", "bestonly", "extonly"])
                if route == "extonly" and floats:
                    route = "kw"
            case = {"kind": "nsga3", "weights": w, "values": vals, "k": k, "nd": nd, "refs": rinfo, "seed": seed,
                    "memory_call": call if memory_calls else None, "style": style, "vtype": vtype, "route": route,
                    "mode": mode if memory_calls else None, "client": (call % nclients) if clients else None}
            note(case, n > 1)
            before = snapshot(pop)
            with Recorder(emo, seed + call) as rec:
                if cl is not None:
                    res = guarded(cl, pop, k)
                elif route == "kw":
                    res = guarded(tools.selNSGA3, individuals=pop, k=k, ref_points=refs, nd=nd, return_memory=False)
                elif route == "bestonly":     # worst_point missing: the code must ignore best_point as well
                    res = guarded(tools.selNSGA3, pop, k, refs, nd, best_point=numpy.array([[float(rng.randint(-5, 5)) for _ in range(M)]]))
                elif route == "extonly":      # previous extreme points without best / worst memory
                    res = guarded(tools.selNSGA3, pop, k, refs, nd,
                                  extreme_points=numpy.array([[float(rng.randint(0, 6) + o) for o in offs] for _ in range(M)]))
                else:
                    res = guarded(tools.selNSGA3, pop, k, refs, nd)
            if res[0] != "ok":
                run.oracle_violation("selNSGA3 raised %s" % res[1], case)
                return
            if snapshot(pop) != before:
                input_modified("selNSGA3 changed its input list / individuals / fitnesses", case)
            if refs.dtype != refs_before.dtype or not numpy.array_equal(refs, refs_before):
                input_modified("selNSGA3 changed the reference points it was given", case)
                refs[...] = refs_before
            if len(rec.fronts) != 1 or len(rec.assoc) != 1 or len(rec.nich) != 1:
                run.notes.append("nsga3: unexpected number of recorded helper calls %r" % ((len(rec.fronts), len(rec.assoc), len(rec.nich)),))
                run.broken.append({"kind": "harness_recording", "where": ["harness/c07.py"], "log": "helper calls not recorded once"})
                return
            check_nsga3_call(pop, k, res[1], rec.fronts[0], rec.assoc[0], rec.nich[0], case, len(refs), single=single)
            if floats and len(rec.icpt) == 1:
                # float populations: only the oracle (coordinatewise extremes, exact float min/max)
                ic = rec.icpt[0]
                frows = [[float(x) for x in r] for r in rec.assoc[0]["fits"]]
                pb, pw = (cl.prev if cl is not None else (None, None))
                seen = frows + ([pb] if pb is not None else [])
                seenw = frows + ([pw] if pw is not None else [])
                if ([float(x) for x in ic["best"]] != [min(c) for c in zip(*seen)] or
                        [float(x) for x in ic["worst"]] != [max(c) for c in zip(*seenw)] or
                        [float(x) for x in ic["front_worst"]] != [max(c) for c in zip(*frows)]):
                    run.oracle_violation("selNSGA3: best/worst/front-worst point is not the coordinatewise extreme", case)
                if cl is not None:
                    cl.prev = ([float(x) for x in cl.best.reshape(-1)], [float(x) for x in cl.worst.reshape(-1)])
                continue
            if len(rec.extreme) == 1 and len(rec.icpt) == 1:
                ex, ic = rec.extreme[0], rec.icpt[0]
                ints = lambda a: [int(x) for x in a]
                rows = lambda m: [ints(r) for r in m]
                fitrows = rows(rec.assoc[0]["fits"])
                pb, pw = (cl.prev if cl is not None else (None, None))
                # oracle: best / worst / front-worst are the coordinatewise extremes
                seen = fitrows + ([pb] if pb is not None else [])
                seenw = fitrows + ([pw] if pw is not None else [])
                if (ints(ic["best"]) != [min(c) for c in zip(*seen)] or ints(ic["worst"]) != [max(c) for c in zip(*seenw)]
                        or ints(ic["front_worst"]) != [max(c) for c in zip(*fitrows)]):
                    run.oracle_violation("selNSGA3: best/worst/front-worst point is not the coordinatewise extreme", case)
                add("points", "CPoints %s %s %s %s %s %s" % (copt(pb, czl), copt(pw, czl), czll(fitrows), czl(ints(ic["best"])),
                                                            czl(ints(ic["worst"])), czl(ints(ic["front_worst"]))), case)
                add("points", "CExtreme %s %s %s %s" % (czll(rows(ex["fits"])), czl(ints(ex["best"])),
                                                        copt(None if ex["prev"] is None else rows(ex["prev"]), czll), czll(rows(ex["result"]))), case)
            if cl is not None:
                cl.prev = ([int(x) for x in cl.best.reshape(-1)], [int(x) for x in cl.worst.reshape(-1)])
                fits = rec.assoc[0]["fits"]
                cl.calls.append([[int(x) for x in row] for row in fits])
                cl.obs.append(([float(x) for x in cl.best.reshape(-1)],
                               [float(x) for x in cl.worst.reshape(-1)],
                               [] if cl.ext is None else [[int(x) for x in row] for row in cl.ext]))
        for ci, cl in enumerate(clients):
            if floats or not cl.calls:
                continue
            case = {"kind": "nsga3-memory", "calls": cl.calls, "observed": cl.obs, "mode": mode, "client": ci, "clients": nclients}
            note(case, True)
            # oracle: the remembered best/worst points are the extremes over everything THIS client has seen
            seen = []
            for fits, (b, wst, _ext) in zip(cl.calls, cl.obs):
                seen += fits
                if b != [float(min(c)) for c in zip(*seen)] or wst != [float(max(c)) for c in zip(*seen)]:
                    run.oracle_violation("selNSGA3 memory: remembered best/worst point is not the extreme of the fitnesses seen", case)
            add("memory", "CMem %s %s" % (clist([czll(c) for c in cl.calls]),
                                          clist(["(%s, %s, %s)" % (czl([int(x) for x in b]), czl([int(x) for x in wst]), czll(ext))
                                                 for b, wst, ext in cl.obs])), case)

    for _ in range(run.scale(380, 4000)):
        nsga3_case()
    for _ in range(run.scale(40, 500)):
        nsga3_case(memory_calls=rng.randint(2, 4))
    for _ in range(run.scale(25, 300)):
        nsga3_case(memory_calls=rng.randint(2, 4), mode="func")
    for _ in range(run.scale(20, 250)):      # two clients sharing one reference-point array, interleaved
        nsga3_case(memory_calls=rng.randint(3, 6), mode=rng.choice(["class", "func"]), nclients=2)
    for _ in range(run.scale(80, 900)):
        nsga3_case(floats=True)
    for _ in range(run.scale(15, 150)):
        nsga3_case(memory_calls=rng.randint(2, 4), floats=True, mode=rng.choice(["class", "func"]), nclients=rng.choice([1, 2]))

    import time
    run.extra_cov["timing"] = {"generate_s": round(time.time() - run.t0, 1)}
    run.extra_cov["case_kinds"] = {g: len(groups[g][0]) for g in sorted(groups)}
    # one sharded evaluation for everything; the expensive exact cases are spread evenly over the shards
    terms, cases = [], []
    for g in sorted(groups):
        if g != "exact":
            terms += groups[g][0]
            cases += [dict(c, group=g) for c in groups[g][1]]
    ex_terms, ex_cases = groups.get("exact", ([], []))
    if ex_terms:
        step = max(1, len(terms) // len(ex_terms))
        for n, (t, c) in enumerate(zip(ex_terms, ex_cases)):
            pos = min(len(terms), n * (step + 1))
            terms.insert(pos, t)
            cases.insert(pos, dict(c, group="exact"))
    t1 = time.time()
    run.correspond("all", "C07", terms, cases, shard=run.scale(60, 120))
    run.extra_cov["timing"]["coq_s"] = round(time.time() - t1, 1)
