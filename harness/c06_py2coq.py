"""Fail-closed translator: deap/tools/selection.py (+ selTournamentDCD of deap/tools/emo.py) -> Gallina.

Tie (T) of property C06 (DESIGN.md 2.3).  The working-tree source is parsed with Python's `ast`; the
body of every function of the table FUNCS is compiled, statement by statement, into the draw-stream
monad `M` of coq/Model/C06_Select.v with the statement vocabulary of coq/Model/C06_GenRt.v
(for_each / for_break / while_fuel, index, qdivM, uniformM, py_maxM, unpack2, pop0 ...) and written to
coq/Gen/C06_gen.v (never committed).  coq/Proofs/C06_gen_equiv.v then proves, for all arguments and
all draw lists, `gen_f args ds = <hand model> args ds`, and coq/Props/C06_gen.v restates the C06
theorems on the regenerated definitions.  A semantic change of the source therefore breaks a proof
obligation; a syntactic change outside the grammar below makes the translator REFUSE that function
(class Refuse): its regenerated definition is then the hand model itself (a placeholder that is
reported as such) and the function is tied by the correspondence only.

Grammar (everything else is refused)
  statements   x = e | a, b = e (list of two) | a, b = c, d (pure, parallel) | x op= e | x.append(e) | x.extend(e)
               | x.pop(0) | random.shuffle(x) | if/elif/else | for <name or tuple> in range(..)/list/zip(a, b)/enumerate(l)
               (with break / continue) | while <pure condition> | return e | assert c[, msg] | raise ValueError(..)
               | nested def (closure over names the enclosing function never rebinds) | docstrings
  expressions  int / float / bool constants, names, + - * / % // on naturals and floats (- only on floats,
               % // only by a literal), comparisons (chains with pure middle operands), and/or/not on pure
               operands, conditional expressions with pure branches, len, float, abs, sum, max, min,
               sorted(l, key=attrgetter(fit_attr)[, reverse=True]), max(l, key=attrgetter(fit_attr)),
               list(range(n)), list(l), l[i], l[:k], [] , [e for x in it if c] (one for clause), generator
               arguments of sum/max/min, numpy.median, random.choice/random/uniform/sample,
               getattr(x, fit_attr) / x.fitness -> .values .wvalues .weights .crowding_dist .dominates(..),
               partial(f, select=g), calls of translated functions, inner functions and `select` arguments.
Types: ind, nat, Q (every float), bool, lists of these, function types from the signature table below.
Python ints that can become negative are outside the grammar (no subtraction on naturals).
"""
import ast
import os
import re
from fractions import Fraction


class Refuse(Exception):
    def __init__(self, node, why):
        self.node = type(node).__name__ if not isinstance(node, str) else node
        self.line = getattr(node, "lineno", None)
        self.why = why
        Exception.__init__(self, "%s at line %s: %s" % (self.node, self.line, why))


class Retype(Exception):
    """internal: a local needs another type than the one its first assignment suggested; translate again"""
    def __init__(self, name, ty):
        self.name, self.ty = name, ty


def refuse(node, why):
    raise Refuse(node, why)


# ---- types ---------------------------------------------------------------------------------------
class FnT(object):
    """type of a function value: parameter names (Python keyword calls use them), types, result type"""
    def __init__(self, params, ret, needs_w=False):
        self.params, self.ret, self.needs_w = list(params), ret, needs_w

    def same(self, other):
        return isinstance(other, FnT) and self.params == other.params and self.ret == other.ret

    def coq(self):
        return " -> ".join([coqtype(t) for _, t in self.params] + ["M (%s)" % coqtype(self.ret)])


SELFN = FnT([("individuals", "list ind"), ("k", "nat")], "list ind")


def is_list(t):
    return isinstance(t, str) and t.startswith("list ")


def elem(t):
    return t[5:]


def coqtype(t):
    if isinstance(t, FnT):
        return "(%s)" % t.coq()
    if t in ("ind", "nat", "Q", "bool"):
        return t
    if t == "reducer":
        return "(list Q -> M Q)"
    if is_list(t) and elem(t) in ("ind", "nat", "Q"):
        return "(list %s)" % elem(t)
    raise Refuse("type", "no Coq type for %s" % (t,))


# ---- signature table (trusted) -----------------------------------------------------------------------
# parameter name -> type (for the listed functions and for nested functions)
PARAM_TYPES = {
    "individuals": "list ind", "k": "nat", "tournsize": "nat", "fitness_size": "nat", "parsimony_size": "Q",
    "fitness_first": "bool", "fit_attr": "attr", "epsilon": "Q", "select": SELFN, "ind1": "ind", "ind2": "ind",
}
# function -> file, parameters (exact, in order), whether the Coq definition takes the weights `w`
# (w = the class attribute `weights` of the individuals' fitness: it is read through .values / .weights),
# and the hand model the placeholder of a refused function refers to
FUNCS = [
    ("selRandom", "selection", ["individuals", "k"], False, "selRandom individuals k"),
    ("selBest", "selection", ["individuals", "k", "fit_attr"], False, "ret (selBest individuals k)"),
    ("selWorst", "selection", ["individuals", "k", "fit_attr"], False, "ret (selWorst individuals k)"),
    ("selTournament", "selection", ["individuals", "k", "tournsize", "fit_attr"], False,
     "selTournament individuals k tournsize"),
    ("selRoulette", "selection", ["individuals", "k", "fit_attr"], True, "selRoulette w individuals k"),
    ("selStochasticUniversalSampling", "selection", ["individuals", "k", "fit_attr"], True, "selSUS w individuals k"),
    ("selDoubleTournament", "selection",
     ["individuals", "k", "fitness_size", "parsimony_size", "fitness_first", "fit_attr"], False,
     "selDoubleTournament individuals k fitness_size parsimony_size fitness_first"),
    ("selLexicase", "selection", ["individuals", "k"], True, "selLexicase w individuals k"),
    ("selEpsilonLexicase", "selection", ["individuals", "k", "epsilon"], True,
     "selEpsilonLexicase w individuals k epsilon"),
    ("selAutomaticEpsilonLexicase", "selection", ["individuals", "k"], True,
     "selAutomaticEpsilonLexicase w individuals k"),
    ("selTournamentDCD", "emo", ["individuals", "k"], False, "selTournamentDCD individuals k"),
]
FILES = {"selection": ("deap", "tools", "selection.py"), "emo": ("deap", "tools", "emo.py")}
# names with a fixed meaning: how they must be bound at module level (None = builtin, must not be bound at all)
EXPECTED = {
    "random": ("import", None, "random"), "attrgetter": ("from", "operator", "attrgetter"),
    "partial": ("from", "functools", "partial"), "np": ("import", None, "numpy"), "numpy": ("import", None, "numpy"),
}
BUILTINS = ("sorted", "max", "min", "sum", "len", "range", "list", "float", "abs", "getattr", "zip", "enumerate",
            "ValueError", "int", "bool", "tuple", "reversed", "map", "filter", "any", "all", "iter", "next", "setattr")
# identifiers the generated text uses: a Python local of that name would capture them
RESERVED = set("""filterM fun forall exists match with end if then else let in as return fix cofix struct Type Prop Set where at
ret raise bind w M ind draw res Ok Raise Mismatch exn IndexError ZeroDivisionError ValueError AssertionError OtherError
choice random01 shuffle sample uniformM uniform mapM repeatM for_each for_break while_fuel Next Break ctl range_step index
qdivM py_maxM qmaxM qminM unpack2 pop0 Qnat values wv size cd uid dominates cd_lt f_lt f_gt f_le py_sorted py_sorted_rev
py_max firstn seq map filter combine length app nil cons fst snd negb andb orb true false tt unit nat Q bool list option
Some None Qplus Qminus Qmult Qdiv Qabs Qltb Qle_bool Qeq_bool qsum qmax qmin median Nat S O nth nth_error""".split())


def cn(name):
    """Coq identifier of a Python local: names the generated text gives a fixed meaning to get a prime
    (no Python identifier contains one, so the renaming is injective)"""
    if name in RESERVED or name in BUILTINS or name in EXPECTED or re.fullmatch(r"t\d+", name) \
            or name.startswith("gen_") or name == "_":
        return name + "'"
    return name


def qlit(v):
    fr = Fraction(v)
    n, d = fr.numerator, fr.denominator
    return "(%s # %d)" % ("%d" % n if n >= 0 else "(%d)" % n, d)


def fresh_lists(body, params):
    """names of the function body that always hold a list created by the function itself and never shared:
    every assignment to them is a list display, a comprehension, sorted(..), list(..), a slice, a + b, random.sample(..)
    or the result of a call, and they are never the source of `y = x`.  Only such lists may be changed in place
    (append / extend / pop / shuffle): the generated definitions treat lists as values, so an in-place change of a
    list that is also reachable under another name (or belongs to the caller) would be mistranslated."""
    def fresh(e):
        if isinstance(e, (ast.List, ast.ListComp)):
            return True
        if isinstance(e, ast.BinOp) and isinstance(e.op, ast.Add):
            return True
        if isinstance(e, ast.Subscript) and isinstance(e.slice, ast.Slice):
            return True
        if isinstance(e, ast.Call):
            return True         # builtins and translated functions return new lists (random.choice returns an element)
        return False
    def sources(e):
        if isinstance(e, ast.Name):
            return {e.id}
        if isinstance(e, ast.IfExp):
            return sources(e.body) | sources(e.orelse)
        if isinstance(e, ast.BoolOp):
            return set().union(*[sources(v) for v in e.values])
        if isinstance(e, (ast.Tuple, ast.List)):
            return set().union(*[sources(v) for v in e.elts]) if e.elts else set()
        return set()
    good, bad = set(), set(params)
    for n in FnTr.own_nodes(body):
        if isinstance(n, ast.Assign):
            for t in n.targets:
                if isinstance(t, ast.Name):
                    (good if fresh(n.value) else bad).add(t.id)
                else:
                    bad.update(x.id for x in ast.walk(t) if isinstance(x, ast.Name))
            # a name that may BE the value (y = x, y = a if c else b, y = a or b, tuples of these) is shared from now on
            bad.update(sources(n.value))
        elif isinstance(n, ast.AugAssign):
            bad.update(x.id for x in ast.walk(n.target) if isinstance(x, ast.Name))
        elif isinstance(n, ast.For):
            bad.update(x.id for x in ast.walk(n.target) if isinstance(x, ast.Name))
        elif isinstance(n, ast.comprehension):
            bad.update(x.id for x in ast.walk(n.target) if isinstance(x, ast.Name))
    return good - bad


class Scope(object):
    """what `return` / falling off the end / `break` / `continue` mean where a block is compiled"""
    def __init__(self, ret=None, fall=None, brk=None, cont=None):
        self.ret, self.fall, self.brk, self.cont = ret, fall, brk, cont


class FnTr(object):
    """Translator of one function body (nested functions get a sub-translator sharing the counters)."""

    def __init__(self, glob, name, has_attr, needs_w, hints, counter=None):
        self.glob = glob              # name -> FnT of the already translated module-level functions
        self.fname = name
        self.has_attr = has_attr      # the function takes fit_attr: the criterion is getattr(x, fit_attr)
        self.needs_w = needs_w
        self.hints = hints            # local name -> type forced by a later use (see Retype)
        self.env = {}                 # python name -> type
        self.lit_origin = set()       # locals whose nat type comes from an int literal only
        self.counter = counter if counter is not None else [0]
        self.rettype = None
        self.uses_w = False
        self.mutable = set()          # locals that may be changed in place (see fresh_lists)

    # ---- helpers ---------------------------------------------------------------------------------
    def temp(self):
        self.counter[0] += 1
        return "t%d" % self.counter[0]

    def sub(self):
        s = FnTr(self.glob, self.fname, self.has_attr, self.needs_w, self.hints, self.counter)
        s.env = dict(self.env)
        s.lit_origin = set(self.lit_origin)
        s.rettype = self.rettype
        s.owner = getattr(self, "owner", self)
        s.mutable = self.mutable
        return s

    def note_w(self, node):
        if not self.needs_w:
            refuse(node, "%s reads .values/.weights but is declared without the weights parameter" % self.fname)
        getattr(self, "owner", self).uses_w = True
        return "w"

    def set_ret(self, node, t):
        o = getattr(self, "owner", self)
        cur = o.rettype
        if cur is None or (cur == "list ?" and is_list(t)):
            o.rettype = t
        elif not (cur == t or (is_list(cur) and t == "list ?")):
            refuse(node, "return of %s, expected %s" % (t, cur))

    def local(self, node, name):
        if name in BUILTINS or name in EXPECTED or not re.fullmatch(r"[A-Za-z_][A-Za-z0-9_]*", name) or name in self.glob:
            refuse(node, "local name %r rebinds a name of fixed meaning" % name)
        return cn(name)

    def coerce(self, node, v, t, want):
        if t == want:
            return v
        if t == "int" and want == "nat":
            if int(v) < 0:
                refuse(node, "negative integer where a natural number is needed")
            return "%s%%nat" % v
        if t == "int" and want == "Q":
            return qlit(int(v))
        if t == "nat" and want == "Q":
            return "(Qnat %s)" % v
        if t == "list ?" and is_list(want):
            return "(@nil %s)" % coqtype(elem(want))
        refuse(node, "a %s where a %s is needed" % (t, want))

    def settle(self, node, v, t):
        """a value about to be stored / passed on: literal ints become naturals"""
        if t == "int":
            return self.coerce(node, v, t, "nat"), "nat"
        return v, t

    # ---- expressions: (text, type); effects are appended to binds in evaluation order ---------------------
    def expr(self, e, binds):
        if isinstance(e, ast.Constant):
            if isinstance(e.value, bool):
                return ("true" if e.value else "false"), "bool"
            if isinstance(e.value, int):
                return "%d" % e.value, "int"
            if isinstance(e.value, float):
                if e.value != e.value or e.value in (float("inf"), float("-inf")):
                    refuse(e, "non-finite constant")
                return qlit(e.value), "Q"
            refuse(e, "constant %r" % (e.value,))
        if isinstance(e, ast.Name):
            if not isinstance(e.ctx, ast.Load):
                refuse(e, "name in store context")
            if e.id in self.env:
                return cn(e.id), self.env[e.id]
            if e.id in self.glob:
                return "gen_%s" % e.id, self.glob[e.id]
            if e.id in ("max", "min"):
                return ("qmaxM" if e.id == "max" else "qminM"), "reducer"      # the builtin as a value: f = max if .. else min
            refuse(e, "unknown name %s" % e.id)
        if isinstance(e, ast.List):
            if e.elts:
                refuse(e, "non-empty list display")
            return "nil", "list ?"
        if isinstance(e, ast.Attribute):
            return self.attribute(e, binds)
        if isinstance(e, ast.UnaryOp):
            if isinstance(e.op, ast.Not):
                v, t = self.expr(e.operand, binds)
                if t != "bool":
                    refuse(e, "not of %s" % (t,))
                return "(negb %s)" % v, "bool"
            if isinstance(e.op, ast.USub):
                if isinstance(e.operand, ast.Constant) and isinstance(e.operand.value, float):
                    return qlit(-Fraction(e.operand.value)), "Q"
                v, t = self.expr(e.operand, binds)
                if t != "Q":
                    refuse(e, "unary minus of %s" % (t,))
                return "(Qminus (0 # 1) %s)" % v, "Q"
            refuse(e, "unary operator %s" % type(e.op).__name__)
        if isinstance(e, ast.BinOp):
            return self.binop(e, binds)
        if isinstance(e, ast.Compare):
            return self.compare(e, binds)
        if isinstance(e, ast.BoolOp):
            vs = []
            for x in e.values:
                n = len(binds)
                v, t = self.expr(x, binds)
                if len(binds) != n:
                    refuse(x, "operand of and/or that can raise or draw")
                if t != "bool":
                    refuse(x, "and/or of %s" % (t,))
                vs.append(v)
            op = "andb" if isinstance(e.op, ast.And) else "orb"
            out = vs[-1]
            for v in reversed(vs[:-1]):
                out = "(%s %s %s)" % (op, v, out)
            return out, "bool"
        if isinstance(e, ast.IfExp):
            c, tc = self.expr(e.test, binds)
            if tc != "bool":
                refuse(e, "condition of type %s" % (tc,))
            n = len(binds)
            a, ta = self.expr(e.body, binds)
            b, tb = self.expr(e.orelse, binds)
            if len(binds) != n:
                refuse(e, "branch of a conditional expression that can raise or draw")
            t = self.join(e, ta, tb)
            return "(if %s then %s else %s)" % (c, self.coerce(e, a, ta, t), self.coerce(e, b, tb, t)), t
        if isinstance(e, ast.Subscript):
            return self.subscript(e, binds)
        if isinstance(e, ast.ListComp):
            return self.comprehension(e, binds)
        if isinstance(e, ast.Call):
            return self.call(e, binds)
        refuse(e, "expression outside the grammar")

    def join(self, node, ta, tb):
        if ta == tb:
            return "nat" if ta == "int" else ta
        s = {ta, tb}
        if s == {"int", "nat"}:
            return "nat"
        if s in ({"int", "Q"}, {"nat", "Q"}):
            return "Q"
        if "list ?" in s and all(is_list(x) for x in s):
            return (s - {"list ?"}).pop()
        if isinstance(ta, FnT) and ta.same(tb):
            return ta
        refuse(node, "values of types %s and %s" % (ta, tb))

    def pure(self, e, what):
        b = []
        v, t = self.expr(e, b)
        if b:
            refuse(e, "%s that can raise or draw" % what)
        return v, t

    def binop(self, e, binds):
        a, ta = self.expr(e.left, binds)
        b, tb = self.expr(e.right, binds)
        op = type(e.op)
        if is_list(ta) and is_list(tb) and op is ast.Add:
            t = self.join(e, ta, tb)
            return "(app %s %s)" % (self.coerce(e, a, ta, t), self.coerce(e, b, tb, t)), t
        nums = ("int", "nat", "Q")
        if ta not in nums or tb not in nums:
            refuse(e, "arithmetic on %s, %s" % (ta, tb))
        lit_b = isinstance(e.right, ast.Constant) and isinstance(e.right.value, (int, float)) \
            and not isinstance(e.right.value, bool) and e.right.value != 0
        if "Q" in (ta, tb) or op is ast.Div:
            qa, qb = self.coerce(e, a, ta, "Q"), self.coerce(e, b, tb, "Q")
            if op is ast.Div:
                if lit_b:
                    return "(Qdiv %s %s)" % (qa, qb), "Q"
                x = self.temp()
                binds.append((x, "qdivM %s %s" % (qa, qb)))
                return x, "Q"
            names = {ast.Add: "Qplus", ast.Sub: "Qminus", ast.Mult: "Qmult"}
            if op not in names:
                refuse(e, "operator %s on floats" % op.__name__)
            return "(%s %s %s)" % (names[op], qa, qb), "Q"
        if ta == "int" and tb == "int":
            x, y = int(a), int(b)
            val = {ast.Add: lambda: x + y, ast.Sub: lambda: x - y, ast.Mult: lambda: x * y}.get(op)
            if val is None:
                refuse(e, "operator %s on integer constants" % op.__name__)
            return "%d" % val(), "int"
        na, nb = self.coerce(e, a, ta, "nat"), self.coerce(e, b, tb, "nat")
        if op is ast.Add:
            return "(Nat.add %s %s)" % (na, nb), "nat"
        if op is ast.Mult:
            return "(Nat.mul %s %s)" % (na, nb), "nat"
        if op in (ast.Mod, ast.FloorDiv):
            if not (lit_b and tb == "int" and int(b) > 0):
                refuse(e, "%% or // by something other than a positive literal")
            return "(Nat.%s %s %s)" % ("modulo" if op is ast.Mod else "div", na, nb), "nat"
        refuse(e, "operator %s on integers (could leave the naturals)" % op.__name__)

    def cmp1(self, node, op, a, ta, b, tb):
        nums = ("int", "nat", "Q")
        if ta in nums and tb in nums:
            if "Q" in (ta, tb):
                x, y = self.coerce(node, a, ta, "Q"), self.coerce(node, b, tb, "Q")
                table = {ast.Lt: "(Qltb %s %s)" % (x, y), ast.Gt: "(Qltb %s %s)" % (y, x),
                         ast.LtE: "(Qle_bool %s %s)" % (x, y), ast.GtE: "(Qle_bool %s %s)" % (y, x),
                         ast.Eq: "(Qeq_bool %s %s)" % (x, y), ast.NotEq: "(negb (Qeq_bool %s %s))" % (x, y)}
            else:
                x, y = self.coerce(node, a, ta, "nat"), self.coerce(node, b, tb, "nat")
                table = {ast.Lt: "(Nat.ltb %s %s)" % (x, y), ast.Gt: "(Nat.ltb %s %s)" % (y, x),
                         ast.LtE: "(Nat.leb %s %s)" % (x, y), ast.GtE: "(Nat.leb %s %s)" % (y, x),
                         ast.Eq: "(Nat.eqb %s %s)" % (x, y), ast.NotEq: "(negb (Nat.eqb %s %s))" % (x, y)}
            if type(op) not in table:
                refuse(node, "comparison %s on numbers" % type(op).__name__)
            return table[type(op)]
        if ta == "cd" and tb == "cd":
            if isinstance(op, ast.Lt):
                return "(cd_lt %s %s)" % (a, b)
            if isinstance(op, ast.Gt):
                return "(cd_lt %s %s)" % (b, a)
            refuse(node, "comparison %s on crowding distances" % type(op).__name__)
        refuse(node, "comparison of %s with %s" % (ta, tb))

    def compare(self, e, binds):
        operands = [e.left] + list(e.comparators)
        vals = []
        for i, x in enumerate(operands):
            if 0 < i < len(operands) - 1 or (len(operands) > 2 and i > 0):
                vals.append(self.pure(x, "operand of a chained comparison"))   # evaluated at most once, conditionally
            else:
                vals.append(self.expr(x, binds))
        parts = [self.cmp1(e, op, vals[i][0], vals[i][1], vals[i + 1][0], vals[i + 1][1]) for i, op in enumerate(e.ops)]
        out = parts[-1]
        for p in reversed(parts[:-1]):
            out = "(andb %s %s)" % (p, out)
        return out, "bool"

    def fitness_of(self, e, binds):
        """e denotes the fitness object the function selects by -> text of the individual"""
        if isinstance(e, ast.Attribute) and e.attr == "fitness":
            v, t = self.expr(e.value, binds)
            if t != "ind":
                refuse(e, ".fitness of %s" % (t,))
            if self.has_attr:
                refuse(e, ".fitness in a function whose criterion is getattr(x, fit_attr)")
            return v
        if isinstance(e, ast.Call) and isinstance(e.func, ast.Name) and e.func.id == "getattr" and "getattr" not in self.env:
            if e.keywords or len(e.args) != 2:
                refuse(e, "getattr form")
            v, t = self.expr(e.args[0], binds)
            a, ta = self.expr(e.args[1], binds)
            if t != "ind" or ta != "attr":
                refuse(e, "getattr(%s, %s)" % (t, ta))
            return v
        return None

    def attribute(self, e, binds):
        x = self.fitness_of(e.value, binds)
        if x is not None:
            if e.attr == "values":
                return "(values %s %s)" % (self.note_w(e), x), "list Q"
            if e.attr == "wvalues":
                return "(wv %s)" % x, "list Q"
            if e.attr == "weights":
                return self.note_w(e), "list Q"
            if e.attr == "crowding_dist":
                return "(cd %s)" % x, "cd"
            refuse(e, "fitness attribute .%s" % e.attr)
        if e.attr == "fitness" or (isinstance(e.value, ast.Name) and e.value.id in EXPECTED):
            refuse(e, "attribute .%s used as a value" % e.attr)
        refuse(e, "attribute .%s" % e.attr)

    def subscript(self, e, binds):
        v, t = self.expr(e.value, binds)
        if not is_list(t) or t == "list ?":
            refuse(e, "subscript of %s" % (t,))
        s = e.slice
        if isinstance(s, ast.Slice):
            if s.lower is not None or s.step is not None or s.upper is None:
                refuse(e, "slice other than [:k]")
            k, tk = self.expr(s.upper, binds)
            return "(firstn %s %s)" % (self.coerce(e, k, tk, "nat"), v), t
        i, ti = self.expr(s, binds)
        if ti not in ("int", "nat"):
            refuse(e, "index of type %s" % (ti,))
        x = self.temp()
        binds.append((x, "index %s %s" % (v, self.coerce(e, i, ti, "nat"))))
        return x, elem(t)

    # ---- iteration ----------------------------------------------------------------------------------
    def iterable(self, it, target, binds):
        """-> (list text, Coq binder pattern, {name: type}) for `for target in it`"""
        def names(n, types):
            if n == 1:
                if not isinstance(target, ast.Name):
                    refuse(target, "loop target")
                ns = [target.id]
            else:
                if not (isinstance(target, ast.Tuple) and len(target.elts) == n
                        and all(isinstance(x, ast.Name) for x in target.elts)):
                    refuse(target, "loop target does not unpack %d names" % n)
                ns = [x.id for x in target.elts]
            if len(set(ns)) != n:
                refuse(target, "repeated name in loop target")
            for x in ns:
                self.local(target, x)
                if x in self.env:
                    refuse(target, "loop target %s rebinds an existing local" % x)
            pat = cn(ns[0]) if n == 1 else "'(%s)" % ", ".join(cn(x) for x in ns)
            return pat, dict(zip(ns, types))

        if isinstance(it, ast.Call) and isinstance(it.func, ast.Name) and it.func.id not in self.env and not it.keywords:
            f = it.func.id
            if f == "range":
                args = [self.expr(a, binds) for a in it.args]
                for a, (v, t) in zip(it.args, args):
                    if t not in ("int", "nat"):
                        refuse(a, "range argument of type %s" % (t,))
                vs = [self.coerce(it, v, t, "nat") for v, t in args]
                pat, tys = names(1, ["nat"])
                if len(vs) == 1:
                    return "(seq 0%%nat %s)" % vs[0], pat, tys
                if len(vs) == 2:
                    if vs[0] != "0%nat":
                        refuse(it, "range with a start other than 0")
                    return "(seq 0%%nat %s)" % vs[1], pat, tys
                if len(vs) == 3:
                    if not (args[2][1] == "int" and int(args[2][0]) >= 1):
                        refuse(it, "range step is not a positive literal")
                    return "(range_step %s %s %s)" % tuple(vs), pat, tys
                refuse(it, "range form")
            if f == "zip":
                if len(it.args) != 2:
                    refuse(it, "zip of %d sequences" % len(it.args))
                (a, ta), (b, tb) = [self.expr(x, binds) for x in it.args]
                if not (is_list(ta) and is_list(tb)) or "list ?" in (ta, tb):
                    refuse(it, "zip of %s, %s" % (ta, tb))
                pat, tys = names(2, [elem(ta), elem(tb)])
                return "(combine %s %s)" % (a, b), pat, tys
            if f == "enumerate":
                if len(it.args) != 1:
                    refuse(it, "enumerate form")
                a, ta = self.expr(it.args[0], binds)
                if not is_list(ta) or ta == "list ?":
                    refuse(it, "enumerate of %s" % (ta,))
                pat, tys = names(2, ["nat", elem(ta)])
                return "(combine (seq 0%%nat (length %s)) %s)" % (a, a), pat, tys
        v, t = self.expr(it, binds)
        if not is_list(t) or t == "list ?":
            refuse(it, "iteration over %s" % (t,))
        pat, tys = names(1, [elem(t)])
        return v, pat, tys

    def comprehension(self, g, binds, as_list=True):
        """[elt for target in iter if cond] (also the generator argument of sum/max/min) -> list text, type"""
        if len(g.generators) != 1:
            refuse(g, "comprehension with %d for-clauses" % len(g.generators))
        c = g.generators[0]
        if c.is_async or len(c.ifs) > 1:
            refuse(g, "comprehension form")
        lst, pat, tys = self.iterable(c.iter, c.target, binds)
        sub = self.sub()
        sub.env.update(tys)
        if c.ifs:
            fb = []
            cond, tc = sub.expr(c.ifs[0], fb)
            if tc != "bool":
                refuse(c.ifs[0], "filter of type %s" % (tc,))
            if fb:
                # the filter can raise: evaluated element by element, in order (filterM); the element must be the target itself
                if not (isinstance(g.elt, ast.Name) and isinstance(c.target, ast.Name) and g.elt.id == c.target.id):
                    refuse(g, "comprehension whose filter can raise and whose element is not the loop variable")
                x = self.temp()
                binds.append((x, "filterM (fun %s => %s) %s" % (pat, self.chain(fb, cond), lst)))
                return x, "list " + tys[c.target.id]
            lst = "(filter (fun %s => %s) %s)" % (pat, cond, lst)
        inner = []
        v, t = sub.expr(g.elt, inner)
        v, t = self.settle(g.elt, v, t)
        if t not in ("ind", "nat", "Q"):
            refuse(g.elt, "comprehension element of type %s" % (t,))
        if not inner:
            if v == pat:
                return lst, "list " + t
            return "(map (fun %s => %s) %s)" % (pat, v, lst), "list " + t
        x = self.temp()
        binds.append((x, "mapM (fun %s => %s) %s" % (pat, self.chain(inner, v), lst)))
        return x, "list " + t

    @staticmethod
    def chain(binds, value=None):
        """monadic text: the binds in order, ending in `ret value` (or in the last bind when it is the value)"""
        bs = list(binds)
        if value is None or (bs and bs[-1][0] == value and "'" not in value):
            last = bs.pop()[1]
        else:
            last = "ret %s" % value
        return "".join(FnTr.bind1(p, m) for p, m in bs) + last

    @staticmethod
    def bind1(pat, m):
        return "%s <- %s ;; " % (pat, m)

    # ---- calls -------------------------------------------------------------------------------------------
    def key_is_criterion(self, call):
        """keyword key=attrgetter(fit_attr)  (attrgetter("fitness") in a function without fit_attr)"""
        ks = [k for k in call.keywords if k.arg == "key"]
        if len(ks) != 1:
            return False
        k = ks[0].value
        if not (isinstance(k, ast.Call) and isinstance(k.func, ast.Name) and k.func.id == "attrgetter"
                and "attrgetter" not in self.env and len(k.args) == 1 and not k.keywords):
            refuse(call, "key= is not attrgetter(...)")
        a = k.args[0]
        if self.has_attr:
            if not (isinstance(a, ast.Name) and self.env.get(a.id) == "attr"):
                refuse(call, "key= is not attrgetter(fit_attr)")
        elif not (isinstance(a, ast.Constant) and a.value == "fitness"):
            refuse(call, "key= is not attrgetter('fitness')")
        return True

    def seq_arg(self, call, binds, want_q=True):
        """the single sequence argument of sum/max/min/median: a generator expression, comprehension or list"""
        if len(call.args) != 1:
            refuse(call, "argument count")
        a = call.args[0]
        if isinstance(a, ast.GeneratorExp):
            v, t = self.comprehension(a, binds)
        else:
            v, t = self.expr(a, binds)
        if want_q and t != "list Q":
            refuse(call, "%s of %s" % (getattr(call.func, "id", "call"), t))
        return v, t

    def call(self, e, binds):
        f = e.func
        # random.<draw site>
        if isinstance(f, ast.Attribute) and isinstance(f.value, ast.Name) and f.value.id == "random" and "random" not in self.env:
            if e.keywords:
                refuse(e, "keyword argument of a random function")
            args = [self.expr(a, binds) for a in e.args]
            x = self.temp()
            if f.attr == "random" and not args:
                binds.append((x, "random01"))
                return x, "Q"
            if f.attr == "choice" and len(args) == 1 and is_list(args[0][1]) and args[0][1] != "list ?":
                binds.append((x, "choice %s" % args[0][0]))
                return x, elem(args[0][1])
            if f.attr == "uniform" and len(args) == 2:
                binds.append((x, "uniformM %s %s" % tuple(self.coerce(e, v, t, "Q") for v, t in args)))
                return x, "Q"
            if f.attr == "sample" and len(args) == 2 and is_list(args[0][1]) and args[0][1] != "list ?" \
                    and args[1][1] in ("int", "nat"):
                binds.append((x, "sample %s %s" % (args[0][0], self.coerce(e, args[1][0], args[1][1], "nat"))))
                return x, args[0][1]
            refuse(e, "random.%s with %d arguments: not a modelled draw site" % (f.attr, len(args)))
        # numpy.median
        if isinstance(f, ast.Attribute) and isinstance(f.value, ast.Name) and f.value.id in ("np", "numpy") \
                and f.value.id not in self.env and f.attr == "median" and not e.keywords:
            v, _ = self.seq_arg(e, binds)
            return "(median %s)" % v, "Q"
        # <fitness>.dominates(<fitness>)
        if isinstance(f, ast.Attribute) and f.attr == "dominates":
            a = self.fitness_of(f.value, binds)
            if a is None or e.keywords or len(e.args) != 1:
                refuse(e, "dominates form")
            b = self.fitness_of(e.args[0], binds)
            if b is None:
                refuse(e, "dominates argument is not a fitness")
            return "(dominates %s %s)" % (a, b), "bool"
        if isinstance(f, ast.Attribute):
            refuse(e, "method call .%s in an expression" % f.attr)
        if not isinstance(f, ast.Name):
            refuse(e, "call of a computed function")
        name = f.id
        if name not in self.env and name not in self.glob:
            return self.builtin(e, name, binds)
        # functions: translated module-level ones, nested defs, function-typed parameters
        fv, ft = self.expr(f, binds)
        if ft == "reducer":
            if e.keywords:
                refuse(e, "keyword argument of max/min")
            v, _ = self.seq_arg(e, binds)
            x = self.temp()
            binds.append((x, "%s %s" % (fv, v)))
            return x, "Q"
        if not isinstance(ft, FnT):
            refuse(e, "call of a value of type %s" % (ft,))
        return self.apply(e, fv, ft, name in self.glob and name not in self.env, binds)

    def apply(self, e, fv, ft, is_global, binds):
        params = list(ft.params)
        slots = {}
        if any(isinstance(a, ast.Starred) for a in e.args) or len(e.args) > len(params):
            refuse(e, "argument list")
        for (pn, _), a in zip(params, e.args):
            slots[pn] = a
        for k in e.keywords:
            if k.arg is None or k.arg in slots or k.arg not in [p for p, _ in params]:
                refuse(e, "keyword argument %s" % k.arg)
            slots[k.arg] = k.value
        vals = []
        for pn, pt in params:
            if pn not in slots:
                if pt == "attr" and not self.has_attr:
                    continue        # default fit_attr="fitness" in a function whose criterion is .fitness
                refuse(e, "argument %s not passed (a default value would be used)" % pn)
            v, t = self.expr(slots[pn], binds)
            if pt == "attr":
                if t != "attr":
                    refuse(e, "fit_attr argument of type %s" % (t,))
                continue
            if isinstance(pt, FnT):
                if not pt.same(t):
                    refuse(e, "function argument %s of another signature" % pn)
                vals.append(v)
            else:
                vals.append(self.coerce(e, v, t, pt))
        if ft.needs_w:
            vals.insert(0, self.note_w(e))
        x = self.temp()
        binds.append((x, " ".join([fv] + vals)))
        return x, ft.ret

    def builtin(self, e, name, binds):
        if name == "len" and not e.keywords and len(e.args) == 1:
            v, t = self.expr(e.args[0], binds)
            if is_list(t):
                return ("0" if t == "list ?" else "(length %s)" % v), ("int" if t == "list ?" else "nat")
            if t == "ind":
                return "(size %s)" % v, "nat"
            refuse(e, "len of %s" % (t,))
        if name == "float" and not e.keywords and len(e.args) == 1:
            v, t = self.expr(e.args[0], binds)
            if t not in ("int", "nat", "Q"):
                refuse(e, "float of %s" % (t,))
            return self.coerce(e, v, t, "Q"), "Q"
        if name == "abs" and not e.keywords and len(e.args) == 1:
            v, t = self.expr(e.args[0], binds)
            if t != "Q":
                refuse(e, "abs of %s" % (t,))
            return "(Qabs %s)" % v, "Q"
        if name == "sum" and not e.keywords:
            v, _ = self.seq_arg(e, binds)
            return "(qsum %s)" % v, "Q"
        if name in ("max", "min"):
            if e.keywords:
                if name == "max" and self.key_is_criterion(e) and len(e.keywords) == 1 and len(e.args) == 1:
                    v, t = self.expr(e.args[0], binds)
                    if t != "list ind":
                        refuse(e, "max(key=) of %s" % (t,))
                    x = self.temp()
                    binds.append((x, "py_maxM %s" % v))
                    return x, "ind"
                refuse(e, "%s with keyword arguments" % name)
            v, _ = self.seq_arg(e, binds)
            x = self.temp()
            binds.append((x, "%s %s" % ("qmaxM" if name == "max" else "qminM", v)))
            return x, "Q"
        if name == "sorted":
            if len(e.args) != 1 or not self.key_is_criterion(e):
                refuse(e, "sorted without key=attrgetter(fit_attr)")
            rev = False
            for k in e.keywords:
                if k.arg == "key":
                    continue
                if k.arg == "reverse" and isinstance(k.value, ast.Constant) and isinstance(k.value.value, bool):
                    rev = k.value.value
                else:
                    refuse(e, "sorted keyword %s" % k.arg)
            v, t = self.expr(e.args[0], binds)
            if t != "list ind":
                refuse(e, "sorted of %s" % (t,))
            return "(%s f_lt %s)" % ("py_sorted_rev" if rev else "py_sorted", v), t
        if name == "list" and not e.keywords and len(e.args) == 1:
            a = e.args[0]
            if isinstance(a, ast.Call) and isinstance(a.func, ast.Name) and a.func.id == "range" and "range" not in self.env:
                if a.keywords or len(a.args) != 1:
                    refuse(e, "list(range(..)) form")
                v, t = self.expr(a.args[0], binds)
                if t not in ("int", "nat"):
                    refuse(e, "range of %s" % (t,))
                return "(seq 0%%nat %s)" % self.coerce(e, v, t, "nat"), "list nat"
            v, t = self.expr(a, binds)
            if not is_list(t):
                refuse(e, "list of %s" % (t,))
            return v, t
        if name == "partial":
            return self.partial(e, binds)
        refuse(e, "call of unknown function %s" % name)

    def partial(self, e, binds):
        if len(e.args) != 1 or any(k.arg is None for k in e.keywords):
            refuse(e, "partial form")
        fv, ft = self.pure(e.args[0], "function argument of partial")
        if not isinstance(ft, FnT):
            refuse(e, "partial of %s" % (ft,))
        fixed = {}
        for k in e.keywords:
            if k.arg not in [p for p, _ in ft.params] or k.arg in fixed:
                refuse(e, "partial keyword %s" % k.arg)
            v, t = self.pure(k.value, "argument of partial")
            pt = dict(ft.params)[k.arg]
            if isinstance(pt, FnT):
                if not pt.same(t):
                    refuse(e, "partial: function argument %s of another signature" % k.arg)
            elif pt == "attr":
                refuse(e, "partial on fit_attr")
            else:
                v = self.coerce(e, v, t, pt)
            fixed[k.arg] = v
        rest = [(p, t) for p, t in ft.params if p not in fixed]
        if any(t == "attr" for _, t in rest) and self.has_attr:
            refuse(e, "partial leaves fit_attr to its default")
        rest = [(p, t) for p, t in rest if t != "attr"]
        args = [fixed.get(p, cn(p)) for p, t in ft.params if t != "attr"]
        head = [fv] + (["w"] if ft.needs_w and self.note_w(e) else [])
        return "(fun %s => %s)" % (" ".join("(%s : %s)" % (cn(p), coqtype(t)) for p, t in rest), " ".join(head + args)), \
            FnT(rest, ft.ret)

    # ---- statements ----------------------------------------------------------------------------------------
    @staticmethod
    def terminates(stmts):
        if not stmts:
            return False
        s = stmts[-1]
        if isinstance(s, (ast.Return, ast.Raise, ast.Break, ast.Continue)):
            return True
        if isinstance(s, ast.If):
            return FnTr.terminates(s.body) and FnTr.terminates(s.orelse)
        return False

    def assigned(self, stmts):
        """names (re)bound by the statements, in order of first occurrence; nested defs are not entered"""
        out = []

        def add(n):
            if n not in out:
                out.append(n)

        def target(t):
            if isinstance(t, ast.Name):
                add(t.id)
            elif isinstance(t, ast.Tuple):
                for x in t.elts:
                    target(x)
            else:
                refuse(t, "assignment target")
        for s in stmts:
            if isinstance(s, ast.Assign):
                for t in s.targets:
                    target(t)
            elif isinstance(s, ast.AugAssign):
                target(s.target)
            elif isinstance(s, ast.Expr):
                m = self.method_stmt(s)
                if m:
                    add(m[0])
            elif isinstance(s, (ast.If, ast.While)):
                for n in self.assigned(s.body) + self.assigned(s.orelse):
                    add(n)
            elif isinstance(s, ast.For):
                target(s.target)
                for n in self.assigned(s.body) + self.assigned(s.orelse):
                    add(n)
            elif isinstance(s, ast.FunctionDef):
                add(s.name)
        return out

    def method_stmt(self, s):
        """x.append(e) / x.extend(e) / x.pop(0) / random.shuffle(x) as statements -> (x, kind, arg) or None"""
        c = s.value
        if not (isinstance(c, ast.Call) and isinstance(c.func, ast.Attribute) and isinstance(c.func.value, ast.Name)):
            return None
        obj, meth = c.func.value.id, c.func.attr
        if obj == "random" and "random" not in self.env:
            if meth == "shuffle" and len(c.args) == 1 and not c.keywords and isinstance(c.args[0], ast.Name):
                return c.args[0].id, "shuffle", None
            refuse(s, "random.%s as a statement" % meth)
        if c.keywords or len(c.args) != 1:
            refuse(s, "method call form")
        if meth in ("append", "extend"):
            return obj, meth, c.args[0]
        if meth == "pop":
            if not (isinstance(c.args[0], ast.Constant) and c.args[0].value == 0 and not isinstance(c.args[0].value, bool)):
                refuse(s, "pop of an index other than 0")
            return obj, "pop", None
        refuse(s, "method .%s" % meth)

    def bind_local(self, node, name, t, from_literal=False):
        """a local receives a value of type t (already settled): returns nothing, updates env, may ask to retype"""
        self.local(node, name)
        if isinstance(self.env.get(name), FnT) or self.env.get(name) == "attr":
            refuse(node, "assignment to the function-valued / fit_attr name %s" % name)
        old = self.env.get(name)
        if old is not None and old != t:
            if old == "list ?" and is_list(t):
                raise Retype(name, t)
            if old == "nat" and t == "Q" and name in self.lit_origin:
                raise Retype(name, "Q")
            if not (is_list(old) and t == "list ?"):
                refuse(node, "local %s changes type from %s to %s" % (name, old, t))
            t = old
        self.env[name] = t
        if from_literal:
            self.lit_origin.add(name)
        elif t != "nat":
            self.lit_origin.discard(name)

    def state_of(self, node, body_stmts, extra_banned=()):
        vs = [v for v in self.assigned(body_stmts) if v in self.env]
        for v in vs:
            if isinstance(self.env[v], FnT) or self.env[v] == "attr" or v in extra_banned:
                refuse(node, "loop rebinds %s" % v)
        return vs

    @staticmethod
    def pat(vs):
        return cn(vs[0]) if len(vs) == 1 else "'(%s)" % ", ".join(cn(v) for v in vs)

    @staticmethod
    def tup(vs):
        return cn(vs[0]) if len(vs) == 1 else "(%s)" % ", ".join(cn(v) for v in vs)

    def seq_then(self, pat, m, rest_text, pad):
        """`pat <- m ;; rest` (tuple patterns need bind spelled out)"""
        if pat.startswith("'"):
            return pad + "bind (%s) (fun %s =>\n%s)" % (m, pat, rest_text)
        return pad + "%s <- (%s) ;;\n%s" % (pat, m, rest_text)

    def emit_binds(self, binds, pad):
        return "".join(pad + "%s <- %s ;;\n" % b for b in binds)

    def block(self, stmts, sc, ind):
        pad = "  " * ind
        if not stmts:
            if sc.fall is None:
                refuse("FunctionDef", "control reaches the end of %s without return" % self.fname)
            return pad + sc.fall(self)
        s, rest = stmts[0], list(stmts[1:])
        if isinstance(s, ast.Expr) and isinstance(s.value, ast.Constant) and isinstance(s.value.value, str):
            return self.block(rest, sc, ind)
        if isinstance(s, (ast.Return, ast.Raise, ast.Break, ast.Continue)) and rest:
            refuse(rest[0], "unreachable statement")
        if isinstance(s, ast.Return):
            if sc.ret is None or s.value is None:
                refuse(s, "return here")
            binds = []
            v, t = self.expr(s.value, binds)
            v, t = self.settle(s, v, t)
            self.set_ret(s, t)
            if t == "list ?":
                v = "(@nil ind)"
            return self.emit_binds(binds[:-1] if binds and binds[-1][0] == v else binds, pad) + pad + \
                (binds[-1][1] if binds and binds[-1][0] == v else "ret %s" % v)
        if isinstance(s, ast.Break):
            if sc.brk is None:
                refuse(s, "break here")
            return pad + sc.brk(self)
        if isinstance(s, ast.Continue):
            if sc.cont is None:
                refuse(s, "continue here")
            return pad + sc.cont(self)
        if isinstance(s, ast.Raise):
            x = s.exc
            if s.cause is not None or x is None:
                refuse(s, "raise form")
            if isinstance(x, ast.Call):
                if x.keywords or not all(isinstance(a, ast.Constant) and isinstance(a.value, str) for a in x.args):
                    refuse(s, "exception arguments")
                x = x.func
            if not (isinstance(x, ast.Name) and x.id == "ValueError" and x.id not in self.env):
                refuse(s, "exception type")
            return pad + "raise ValueError"
        if isinstance(s, ast.Assert):
            if s.msg is not None and not (isinstance(s.msg, ast.Constant) and isinstance(s.msg.value, str)):
                refuse(s, "assert message")
            binds = []
            c, tc = self.expr(s.test, binds)
            if tc != "bool":
                refuse(s, "assert of %s" % (tc,))
            return self.emit_binds(binds, pad) + pad + "if negb %s then raise AssertionError else (\n%s)" % (
                c, self.block(rest, sc, ind))
        if isinstance(s, ast.FunctionDef):
            return self.nested_def(s, rest, sc, ind)
        if isinstance(s, ast.Expr):
            m = self.method_stmt(s)
            if m is None:
                refuse(s, "expression statement")
            name, kind, arg = m
            t = self.env.get(name)
            if not is_list(t or ""):
                refuse(s, ".%s on %s of type %s" % (kind, name, t))
            if name not in self.mutable:
                refuse(s, "in-place change (.%s) of the list %s, which may be shared (a parameter, or bound by `x = y`)"
                       % (kind, name))
            if kind == "shuffle":
                if t == "list ?":
                    refuse(s, "shuffle of an empty list display")
                return pad + "%s <- shuffle %s ;;\n" % (cn(name), cn(name)) + self.block(rest, sc, ind)
            if kind == "pop":
                if t == "list ?":
                    refuse(s, "pop from an empty list display")
                return pad + "%s <- pop0 %s ;;\n" % (cn(name), cn(name)) + self.block(rest, sc, ind)
            binds = []
            v, tv = self.expr(arg, binds)
            v, tv = self.settle(s, v, tv)
            if kind == "append":
                if tv not in ("ind", "nat", "Q"):
                    refuse(s, "append of %s" % (tv,))
                new, val = "list " + tv, "(app %s (cons %s nil))" % (cn(name), v)
            else:
                if not is_list(tv):
                    refuse(s, "extend by %s" % (tv,))
                new = tv if tv != "list ?" else t
                val = "(app %s %s)" % (cn(name), self.coerce(s, v, tv, new) if new != "list ?" else v)
            self.bind_local(s, name, new)
            return self.emit_binds(binds, pad) + pad + "let %s := %s in\n" % (cn(name), val) + self.block(rest, sc, ind)
        if isinstance(s, (ast.Assign, ast.AugAssign)):
            return self.assign(s, rest, sc, ind)
        if isinstance(s, ast.If):
            return self.if_stmt(s, rest, sc, ind)
        if isinstance(s, ast.For):
            return self.for_stmt(s, rest, sc, ind)
        if isinstance(s, ast.While):
            return self.while_stmt(s, rest, sc, ind)
        refuse(s, "statement outside the grammar")

    def assign(self, s, rest, sc, ind):
        pad = "  " * ind
        if isinstance(s, ast.AugAssign):
            if not isinstance(s.target, ast.Name):
                refuse(s, "augmented assignment target")
            value = ast.BinOp(left=ast.Name(id=s.target.id, ctx=ast.Load()), op=s.op, right=s.value)
            ast.copy_location(value, s)
            ast.copy_location(value.left, s)
            target = s.target
        else:
            if len(s.targets) != 1:
                refuse(s, "multiple assignment")
            target, value = s.targets[0], s.value
        binds = []
        if isinstance(target, ast.Tuple):
            if not all(isinstance(x, ast.Name) for x in target.elts) or len({x.id for x in target.elts}) != len(target.elts):
                refuse(s, "tuple target")
            names = [x.id for x in target.elts]
            if isinstance(value, ast.Tuple):
                if len(value.elts) != len(names):
                    refuse(s, "tuple sizes differ")
                vals = [self.settle(s, *self.pure(x, "element of a parallel assignment")) for x in value.elts]
                if any(is_list(t) for _, t in vals):
                    refuse(s, "parallel assignment of lists")
                for n, (_, t) in zip(names, vals):
                    self.bind_local(s, n, t)
                return pad + "let '(%s) := (%s) in\n" % (", ".join(cn(n) for n in names), ", ".join(v for v, _ in vals)) + \
                    self.block(rest, sc, ind)
            v, t = self.expr(value, binds)
            if len(names) != 2 or not is_list(t) or t == "list ?":
                refuse(s, "unpacking of %s into %d names" % (t, len(names)))
            for n in names:
                self.bind_local(s, n, elem(t))
            return self.emit_binds(binds, pad) + \
                self.seq_then("'(%s)" % ", ".join(cn(n) for n in names), "unpack2 %s" % v, self.block(rest, sc, ind), pad)
        if not isinstance(target, ast.Name):
            refuse(s, "assignment target")
        name = target.id
        v, t = self.expr(value, binds)
        if isinstance(s, ast.AugAssign) and is_list(t):
            refuse(s, "augmented assignment to a list (an in-place change)")
        lit = (t == "int")
        if lit and self.hints.get(name) == "Q":
            v, t, lit = self.coerce(s, v, t, "Q"), "Q", False
        v, t = self.settle(s, v, t)
        if t == "list ?" and is_list(self.hints.get(name) or ""):
            v, t = self.coerce(s, v, t, self.hints[name]), self.hints[name]
        if t == "nat" and self.hints.get(name) == "Q":
            v, t = self.coerce(s, v, t, "Q"), "Q"
        if isinstance(t, FnT):
            self.local(s, name)
            if name in self.env:
                refuse(s, "rebinding of %s to a function" % name)
            self.env[name] = t
        elif t in ("ind", "nat", "Q", "bool", "reducer") or is_list(t):
            self.bind_local(s, name, t, from_literal=lit)
        else:
            refuse(s, "local of type %s" % (t,))
        if binds and binds[-1][0] == v:
            return self.emit_binds(binds[:-1], pad) + pad + "%s <- %s ;;\n" % (cn(name), binds[-1][1]) + self.block(rest, sc, ind)
        return self.emit_binds(binds, pad) + pad + "let %s := %s in\n" % (cn(name), v) + self.block(rest, sc, ind)

    def if_stmt(self, s, rest, sc, ind):
        pad = "  " * ind
        binds = []
        c, tc = self.expr(s.test, binds)
        if tc != "bool":
            refuse(s, "condition of type %s" % (tc,))
        pre = self.emit_binds(binds, pad)
        tb, te = self.terminates(s.body), self.terminates(s.orelse)
        if tb or te:
            if tb and te and rest:
                refuse(rest[0], "unreachable statement")
            a, b = self.sub(), self.sub()
            ta = a.block(list(s.body) + ([] if tb else rest), sc, ind + 1)
            tb_ = b.block(list(s.orelse) + ([] if te else rest), sc, ind + 1)
            return pre + pad + "if %s then (\n%s\n%s) else (\n%s\n%s)" % (c, ta, pad, tb_, pad)
        # locals bound in only one branch and unknown before the if are branch-local (a later use is an unknown name)
        ab, ae = self.assigned(list(s.body)), self.assigned(list(s.orelse))
        vs = [v for v in self.assigned(list(s.body) + list(s.orelse)) if v in self.env or (v in ab and v in ae)]
        if not vs:
            refuse(s, "if statement without effect on locals")
        a, b = self.sub(), self.sub()

        def out(tr):
            for v in vs:
                if v not in tr.env:
                    refuse(s, "%s may be unassigned after the if" % v)
            return "ret %s" % self.tup(vs)
        inner = Scope(ret=None, fall=out, brk=None, cont=None)
        if any(isinstance(n, (ast.Return, ast.Break, ast.Continue, ast.Raise))
               for st in list(s.body) + list(s.orelse) for n in ast.walk(st)):
            refuse(s, "return/break/continue/raise inside an if that also falls through")
        ta = a.block(list(s.body), inner, ind + 1)
        tb_ = b.block(list(s.orelse), inner, ind + 1)
        for v in vs:
            t1, t2 = a.env[v], b.env[v]
            if t1 != t2:
                if {t1, t2} == {"nat", "Q"}:
                    raise Retype(v, "Q")
                if "list ?" in (t1, t2) and is_list(t1) and is_list(t2):
                    raise Retype(v, t1 if t2 == "list ?" else t2)
                refuse(s, "%s has different types in the two branches" % v)
            if isinstance(t1, FnT):
                refuse(s, "function defined inside an if")
            self.env[v] = t1
            if v in a.lit_origin and v in b.lit_origin:
                self.lit_origin.add(v)
            else:
                self.lit_origin.discard(v)
        m = "if %s then (\n%s\n%s) else (\n%s\n%s)" % (c, ta, pad, tb_, pad)
        return pre + self.seq_then(self.pat(vs), m, self.block(rest, sc, ind), pad)

    def for_stmt(self, s, rest, sc, ind):
        pad = "  " * ind
        if s.orelse:
            refuse(s, "for ... else")
        binds = []
        lst, pat, tys = self.iterable(s.iter, s.target, binds)
        iter_names = {n.id for n in ast.walk(s.iter) if isinstance(n, ast.Name)}
        vs = self.state_of(s, s.body, extra_banned=tuple(tys))
        for v in vs:
            if v in iter_names:
                refuse(s, "loop rebinds %s, which its iterable reads" % v)
        if not vs:
            refuse(s, "loop without effect on locals")
        has_break = any(isinstance(n, ast.Break) for n in self.own_nodes(s.body, loops=False))
        # nested loops may not share carried state with a `while` inside (see design_notes/C06.md)
        for n in self.own_nodes(s.body):
            if isinstance(n, ast.While):
                inner = [v for v in self.assigned(n.body) if v in vs]
                init = self.assigned([x for x in s.body if x is not n and not self.contains(x, n)])
                for v in inner:
                    if v not in init:
                        refuse(n, "while loop continues from the state (%s) left by the previous iteration of the "
                                  "enclosing for loop" % v)
        b = self.sub()
        b.env.update(tys)
        state = self.tup(vs)
        if has_break:
            bsc = Scope(ret=None, fall=lambda tr: "ret (Next %s)" % state, brk=lambda tr: "ret (Break %s)" % state,
                        cont=lambda tr: "ret (Next %s)" % state)
            comb = "for_break"
        else:
            bsc = Scope(ret=None, fall=lambda tr: "ret %s" % state, brk=None, cont=lambda tr: "ret %s" % state)
            comb = "for_each"
        body = b.block(list(s.body), bsc, ind + 2)
        self.check_state_types(s, vs, b)
        m = "%s %s (fun %s %s =>\n%s) %s" % (comb, lst, pat, self.pat(vs), body, state)
        return self.emit_binds(binds, pad) + self.seq_then(self.pat(vs), m, self.block(rest, sc, ind), pad)

    def check_state_types(self, node, vs, b):
        for v in vs:
            if self.env[v] == "list ?":
                refuse(node, "cannot settle the element type of %s" % v)
            if b.env.get(v) != self.env[v]:
                if self.env[v] == "nat" and b.env.get(v) == "Q" and v in self.lit_origin:
                    raise Retype(v, "Q")
                refuse(node, "loop changes the type of %s from %s to %s" % (v, self.env[v], b.env.get(v)))
            self.lit_origin.discard(v)

    @staticmethod
    def own_nodes(stmts, loops=True):
        """nodes of the statements, not entering nested function definitions (loops=False: nor nested loops)"""
        todo = list(stmts)
        while todo:
            n = todo.pop()
            yield n
            if isinstance(n, (ast.FunctionDef, ast.Lambda)) or (not loops and isinstance(n, (ast.For, ast.While))):
                continue
            todo.extend(ast.iter_child_nodes(n))

    @staticmethod
    def contains(stmt, node):
        return any(n is node for n in ast.walk(stmt))

    def while_stmt(self, s, rest, sc, ind):
        pad = "  " * ind
        if s.orelse:
            refuse(s, "while ... else")
        if any(isinstance(n, (ast.Break, ast.Continue, ast.Return)) for n in self.own_nodes(s.body)):
            refuse(s, "break/continue/return inside while")
        vs = self.state_of(s, s.body)
        if not vs:
            refuse(s, "loop without effect on locals")
        b = self.sub()
        cond, tc = b.pure(s.test, "while condition")
        if tc != "bool":
            refuse(s, "condition of type %s" % (tc,))
        state = self.tup(vs)
        body = b.block(list(s.body), Scope(fall=lambda tr: "ret %s" % state), ind + 2)
        self.check_state_types(s, vs, b)
        read = []
        for n in self.own_nodes([s.test] + list(s.body)):
            if isinstance(n, ast.Name) and isinstance(n.ctx, ast.Load) and is_list(self.env.get(n.id) or "") \
                    and self.env[n.id] != "list ?" and n.id not in read:
                read.append(n.id)
        if not read:
            refuse(s, "while loop that reads no list: no fuel measure")
        fuel = "(S (%s))" % self.natsum(["(length %s)" % cn(r) for r in sorted(read)])
        m = "while_fuel %s (fun %s => %s) (fun %s =>\n%s) %s" % (fuel, self.pat(vs), cond, self.pat(vs), body, state)
        return self.seq_then(self.pat(vs), m, self.block(rest, sc, ind), pad)

    @staticmethod
    def natsum(xs):
        out = xs[0]
        for x in xs[1:]:
            out = "(Nat.add %s %s)" % (out, x)
        return out

    def nested_def(self, d, rest, sc, ind):
        pad = "  " * ind
        a = d.args
        if d.decorator_list or a.posonlyargs or a.kwonlyargs or a.kw_defaults or a.vararg or a.kwarg or a.defaults or d.returns:
            refuse(d, "nested function header")
        name = self.local(d, d.name)
        if d.name in self.env:
            refuse(d, "nested function %s rebinds a local" % name)
        params = []
        for p in a.args:
            if p.arg not in PARAM_TYPES or PARAM_TYPES[p.arg] == "attr":
                refuse(d, "parameter %s of the nested function is not in the signature table" % p.arg)
            params.append((p.arg, PARAM_TYPES[p.arg]))
        f = self.sub()
        f.owner = f
        f.rettype = None
        f.fname = "%s.%s" % (self.fname, name)
        for p, t in params:
            f.env[p] = t
        f.lit_origin = set()
        f.mutable = fresh_lists(d.body, [p for p, _ in params])
        body = f.block(list(d.body), Scope(ret=True), ind + 2)
        if f.uses_w:
            getattr(self, "owner", self).uses_w = True
        if f.rettype is None or f.rettype == "list ?":
            refuse(d, "result type of the nested function")
        free = {n.id for n in self.own_nodes(d.body) if isinstance(n, ast.Name) and isinstance(n.ctx, ast.Load)}
        free -= {p for p, _ in params}
        self.closures = getattr(self, "closures", [])
        getattr(self, "owner", self).__dict__.setdefault("captured", set()).update(free)
        self.env[d.name] = FnT(params, f.rettype)
        return pad + "let %s := (fun %s =>\n%s) in\n" % (
            name, " ".join("(%s : %s)" % (cn(p), coqtype(t)) for p, t in params), body) + self.block(rest, sc, ind)


# ---- module level ----------------------------------------------------------------------------------------
def check_module(tree, wanted):
    """names of fixed meaning must be bound at module level exactly as expected, and nowhere inside the
    functions that are translated; each wanted function is defined exactly once at module level"""
    top = {}
    for n in tree.body:
        if isinstance(n, ast.Import):
            for a in n.names:
                top.setdefault((a.asname or a.name).split(".")[0], []).append(("import", None, a.name, n))
        elif isinstance(n, ast.ImportFrom):
            for a in n.names:
                top.setdefault(a.asname or a.name, []).append(("from", n.module, a.name, n))
        elif isinstance(n, (ast.FunctionDef, ast.AsyncFunctionDef, ast.ClassDef)):
            top.setdefault(n.name, []).append(("def", None, None, n))
        elif isinstance(n, (ast.Assign, ast.AugAssign, ast.AnnAssign)):
            for t in ast.walk(n):
                if isinstance(t, ast.Name) and isinstance(t.ctx, ast.Store):
                    top.setdefault(t.id, []).append(("assign", None, None, n))
        elif isinstance(n, ast.Expr) and isinstance(n.value, ast.Constant):
            pass
        else:
            for t in ast.walk(n):      # module-level if/try/for/with: anything they bind is suspect
                if isinstance(t, ast.Name) and isinstance(t.ctx, ast.Store):
                    top.setdefault(t.id, []).append(("assign", None, None, n))
                elif isinstance(t, (ast.Import, ast.ImportFrom, ast.FunctionDef, ast.ClassDef)):
                    refuse(t, "conditional module-level binding")
    for b in BUILTINS:
        if b in top:
            refuse(top[b][0][3], "builtin %s is rebound at module level" % b)
    for nm, (kind, mod, orig) in EXPECTED.items():
        for k, m, o, node in top.get(nm, []):
            if (k, m, o) != (kind, mod, orig):
                refuse(node, "%s is not bound by the expected import" % nm)
    defs = {}
    for name in wanted:
        ds = [x for x in top.get(name, [])]
        if len(ds) != 1 or ds[0][0] != "def" or not isinstance(ds[0][3], ast.FunctionDef):
            defs[name] = Refuse("Module", "%s is bound %d times at module level / not by a plain def" % (name, len(ds)))
        else:
            defs[name] = ds[0][3]
    return top, defs


def check_function(fn, top, params):
    a = fn.args
    if fn.decorator_list or a.posonlyargs or a.kwonlyargs or a.kw_defaults or a.vararg or a.kwarg or fn.returns:
        refuse(fn, "function header")
    if [x.arg for x in a.args] != params:
        refuse(fn, "parameters %r, expected %r" % ([x.arg for x in a.args], params))
    want_defaults = 1 if "fit_attr" in params else 0
    if len(a.defaults) != want_defaults or (want_defaults and not (
            params[-1] == "fit_attr" and isinstance(a.defaults[0], ast.Constant) and a.defaults[0].value == "fitness")):
        refuse(fn, "default values")
    for n in ast.walk(fn):
        if isinstance(n, (ast.Global, ast.Nonlocal, ast.Lambda, ast.Try, ast.With, ast.Yield, ast.YieldFrom, ast.Await,
                          ast.ClassDef, ast.Import, ast.ImportFrom, ast.Delete, ast.NamedExpr, ast.Starred)):
            refuse(n, "%s inside a translated function" % type(n).__name__)
        if isinstance(n, ast.Name) and isinstance(n.ctx, (ast.Store, ast.Del)) and (
                n.id in BUILTINS or n.id in EXPECTED or n.id in top and n.id not in params):
            refuse(n, "%s is rebound inside the function" % n.id)
        if isinstance(n, ast.arg) and n.arg not in params and (n.arg in BUILTINS or n.arg in EXPECTED):
            refuse(n, "parameter %s shadows a name of fixed meaning" % n.arg)


def translate_function(fn, top, glob, name, params, needs_w):
    check_function(fn, top, params)
    hints = {}
    for _ in range(12):
        tr = FnTr(glob, name, "fit_attr" in params, needs_w, hints)
        tr.owner = tr
        for p in params:
            tr.env[p] = PARAM_TYPES[p]
        tr.mutable = fresh_lists(fn.body, params)
        try:
            body = tr.block(list(fn.body), Scope(ret=True), 1)
        except Retype as r:
            if r.ty is None or hints.get(r.name) == r.ty:
                refuse(fn, "cannot settle the type of local %s" % r.name)
            hints[r.name] = r.ty
            continue
        break
    else:
        refuse(fn, "type inference does not settle")
    if tr.rettype not in ("list ind", "list ?"):
        refuse(fn, "result type %s" % (tr.rettype,))
    # closures: a nested function may only read names the enclosing function binds once (parameters, other defs)
    captured = getattr(tr, "captured", set())
    stores = {}
    for n in FnTr.own_nodes(fn.body):
        if isinstance(n, ast.Name) and isinstance(n.ctx, ast.Store):
            stores[n.id] = stores.get(n.id, 0) + 1
    for c in captured:
        if stores.get(c):
            refuse(fn, "nested function reads %s, which the enclosing function assigns" % c)
    cparams = [(p, PARAM_TYPES[p]) for p in params if PARAM_TYPES[p] != "attr"]
    sig = " ".join((["(w : list Q)"] if needs_w else []) + ["(%s : %s)" % (cn(p), coqtype(t)) for p, t in cparams])
    text = "Definition gen_%s %s : M (list ind) :=\n%s.\n" % (name, sig, body)
    return text, FnT([(p, PARAM_TYPES[p]) for p in params], "list ind", needs_w)


HEADER = """(* GENERATED by harness/c06_py2coq.py from %s -- do not edit, never committed *)
From Coq Require Import List Bool Arith QArith Qabs.
From DV Require Import Base.PyList Base.C06_Py Model.C06_Select Model.C06_GenRt.
Import ListNotations.
Local Open Scope nat_scope.

"""


def translate_sources(sources, origin="deap/tools/selection.py, deap/tools/emo.py"):
    """sources: {"selection": text, "emo": text} -> (Gallina text, {function: None | Refuse}).
    A refused function gets the hand model as a placeholder definition (reported by the caller)."""
    trees, tops, defs, status = {}, {}, {}, {}
    for key in FILES:
        wanted = [f[0] for f in FUNCS if f[1] == key]
        try:
            trees[key] = ast.parse(sources[key])
            tops[key], d = check_module(trees[key], wanted)
            defs.update(d)
        except (SyntaxError, ValueError, RecursionError, MemoryError) as e:
            for w in wanted:
                defs[w] = Refuse("Module", "source does not parse: %s" % e)
        except Refuse as r:
            for w in wanted:
                defs[w] = r
    out = HEADER % origin
    glob = {}
    for name, key, params, needs_w, model in FUNCS:
        cparams = [(p, PARAM_TYPES[p]) for p in params if PARAM_TYPES[p] != "attr"]
        sig = " ".join((["(w : list Q)"] if needs_w else []) + ["(%s : %s)" % (cn(p), coqtype(t)) for p, t in cparams])
        try:
            if isinstance(defs[name], Refuse):
                raise defs[name]
            if key == "emo":
                g = {}              # functions of selection.py are other names in emo.py
            else:
                g = glob
            text, ft = translate_function(defs[name], tops[key], g, name, params, needs_w)
            status[name] = None
        except Refuse as r:
            status[name] = r
            text = "(* REFUSED %s: %s -- placeholder: the hand model, tied by the correspondence only *)\n" \
                   "Definition gen_%s %s : M (list ind) :=\n  %s.\n" % (name, str(r).replace("*)", "* )"), name, sig, model)
            ft = FnT([(p, PARAM_TYPES[p]) for p in params], "list ind", needs_w)
        except Exception as e:  # noqa  (a translator crash on an unforeseen construct is a refusal: fail closed)
            status[name] = Refuse("FunctionDef", "translator error %s: %s" % (type(e).__name__, e))
            text = "(* REFUSED %s: translator error -- placeholder: the hand model *)\n" \
                   "Definition gen_%s %s : M (list ind) :=\n  %s.\n" % (name, name, sig, model)
            ft = FnT([(p, PARAM_TYPES[p]) for p in params], "list ind", needs_w)
        if key != "emo":
            glob[name] = ft
        out += text + "\n"
    return out + TRAILER, status


TRAILER = """(* correspondence entry point: the same cases as Corr.C06.check, run through the regenerated definitions *)
From DV Require Import Corr.C06.
Definition check_gen : case -> bool :=
  check_with gen_selRandom gen_selBest gen_selWorst gen_selTournament gen_selRoulette
             gen_selStochasticUniversalSampling gen_selDoubleTournament
             gen_selLexicase gen_selEpsilonLexicase gen_selAutomaticEpsilonLexicase gen_selTournamentDCD.
Definition check_both (c : case) : bool := check c && check_gen c.
"""


def translate_repo(repo):
    srcs = {}
    for key, parts in FILES.items():
        try:
            srcs[key] = open(os.path.join(repo, *parts)).read()
        except (OSError, UnicodeDecodeError) as e:
            srcs[key] = "\x00 unreadable: %s" % e        # -> syntax error -> refusal
    return translate_sources(srcs, ", ".join(os.path.join(repo, *p) for p in FILES.values()))


if __name__ == "__main__":
    import sys
    txt, st = translate_repo(sys.argv[1] if len(sys.argv) > 1 else "/repo")
    print(txt)
    for k, v in st.items():
        sys.stderr.write("%s: %s\n" % (k, "translated" if v is None else "REFUSED %s" % v))
