"""C17 helper: one evolution run of one algorithm family in THIS interpreter (meant to be a fresh subprocess).

    python c17_families.py SPEC.json

SPEC keys: family, seed, ngen, mode (full|save|resume|pool), k, protocols (save), protocol (resume),
ckpt (directory), out (result file), workers, pool_kind, delay_seed, perturb, stream (modelga only), params.

The loops are written generation by generation exactly as doc/tutorials/advanced/checkpoint.rst does; the
checkpoint is the dict {population, generation, halloffame, logbook, strategy, rndstate, nprndstate} and nothing
else.  After every generation boundary a canonical text of population / archive / logbook / strategy / both
generator states is recorded; the driver (harness/c17.py) compares the sha256 of those texts between runs.

This file never draws from the global `random` / `numpy.random` generators for its own purposes.
"""
import array
import hashlib
import json
import math
import operator
import os
import pickle
import random
import sys
import time
import traceback
from functools import partial

import numpy

from deap import algorithms, base, benchmarks, cma, creator, gp, tools

# --------------------------------------------------------------------------------------------
# canonical text
# --------------------------------------------------------------------------------------------


def canon(o, depth=0):
    """Deterministic text for the objects that make up the evolution state.  Floats are written with
    float.hex, numpy arrays as dtype/shape/bytes, objects as class name + canonical __dict__ (+ list content)."""
    if depth > 12:
        return "<deep>"
    d = depth + 1
    if o is None or isinstance(o, (bool, int, str)):
        return repr(o)
    if isinstance(o, float):
        return o.hex()
    if isinstance(o, numpy.generic):
        return "np.%s(%s)" % (o.dtype, canon(o.item(), d))
    if isinstance(o, base.Fitness):
        extra = {k: v for k, v in vars(o).items() if k != "wvalues"}
        return "Fit[%s](w=%s;%s)" % (type(o).__name__, canon(tuple(o.wvalues), d), canon(extra, d) if extra else "")
    if isinstance(o, gp.PrimitiveTree):
        nodes = []
        for n in o:
            if isinstance(n, gp.Primitive):
                nodes.append("P:%s/%d" % (n.name, n.arity))
            else:
                nodes.append("T:%s:%s:%s:%s" % (type(n).__name__, n.name, canon(n.value, d), getattr(n.ret, "__name__", repr(n.ret))))
        return "Tree[%s](%s;%s)" % (type(o).__name__, ",".join(nodes), canon(vars(o), d))
    if isinstance(o, tools.Logbook):
        attrs = {k: v for k, v in vars(o).items() if k != "chapters"}
        return "Logbook(recs=%s;attrs=%s;chapters=%s)" % (canon(list(o), d), canon(attrs, d),
                                                         canon(dict(o.chapters), d))
    if isinstance(o, tools.HallOfFame):
        return "%s(items=%s;keys=%s;maxsize=%s;similar=%s)" % (type(o).__name__, canon(list(o.items), d), canon(list(o.keys), d),
                                                              canon(o.maxsize, d), canon(o.similar, d))
    if isinstance(o, numpy.ndarray):
        body = "nd(%s,%s,%s)" % (o.dtype, o.shape, numpy.ascontiguousarray(o).tobytes().hex())
        if type(o) is numpy.ndarray:
            return body
        return "%s[%s;%s]" % (type(o).__name__, body, canon(getattr(o, "__dict__", {}), d))
    if isinstance(o, array.array):
        return "%s[arr(%s,%s);%s]" % (type(o).__name__, o.typecode, canon(list(o), d), canon(getattr(o, "__dict__", {}), d))
    if isinstance(o, dict):
        # `_ps` is the private parent/offspring tag StrategyMultiObjective.generate puts on individuals; it is dead at
        # generation boundaries (parents are re-tagged at the start of generate, offspring are replaced) and leaks into
        # archive copies, so it is not part of the compared content
        items = [(canon(k, d), canon(v, d)) for k, v in o.items() if k != "_ps"]
        # dict order is insertion order and therefore part of what is reproducible
        return "{" + ",".join("%s:%s" % kv for kv in items) + "}"
    if isinstance(o, (list, tuple)):
        body = ",".join(canon(x, d) for x in o)
        if type(o) is list:
            return "[" + body + "]"
        if type(o) is tuple:
            return "(" + body + ")"
        return "%s[%s;%s]" % (type(o).__name__, body, canon(getattr(o, "__dict__", {}), d))
    if isinstance(o, (set, frozenset)):
        return "set(" + ",".join(sorted(canon(x, d) for x in o)) + ")"
    if isinstance(o, partial):
        return "partial(%s,%s,%s)" % (canon(o.func, d), canon(o.args, d), canon(o.keywords, d))
    if callable(o) and hasattr(o, "__qualname__"):
        return "fn:%s.%s" % (getattr(o, "__module__", "?"), o.__qualname__)
    if hasattr(o, "__dict__"):
        return "%s{%s}" % (type(o).__name__, canon(vars(o), d))
    return "<%s>" % type(o).__name__


def sha(s):
    return hashlib.sha256(s.encode()).hexdigest()


# --------------------------------------------------------------------------------------------
# evaluation functions (module level: they must be importable/picklable for the process pools)
# --------------------------------------------------------------------------------------------
def ev_onemax(ind):
    return (sum(ind),)


def ev_onemax_np(ind):
    return (int(ind.sum()),)


def ev_zdt1(ind):
    return benchmarks.zdt1(ind)


MO_MIN = numpy.zeros(4)
MO_MAX = numpy.ones(4)


def mo_distance(feasible_ind, original_ind):
    return sum((f - o) ** 2 for f, o in zip(feasible_ind, original_ind))


def mo_closest_feasible(individual):
    feasible_ind = numpy.array(individual)
    feasible_ind = numpy.maximum(MO_MIN, feasible_ind)
    feasible_ind = numpy.minimum(MO_MAX, feasible_ind)
    return feasible_ind


def mo_valid(individual):
    if any(individual < MO_MIN) or any(individual > MO_MAX):
        return False
    return True


# examples/es/cma_mo.py: zdt1 behind the closest-valid penalty decorator
_zdt1_pen = tools.ClosestValidPenalty(mo_valid, mo_closest_feasible, 1.0e+6, mo_distance)(benchmarks.zdt1)


def ev_zdt1_pen(ind):
    return _zdt1_pen(ind)


def ev_kursawe(ind):
    return benchmarks.kursawe(ind)


def ev_dtlz2(ind):
    return benchmarks.dtlz2(ind, 3)


def ev_sphere(ind):
    return benchmarks.sphere(ind)


def ev_rastrigin(ind):
    return benchmarks.rastrigin(ind)


def protectedDiv(left, right):
    try:
        return left / right
    except ZeroDivisionError:
        return 1


GP_STATE = {}


def ev_symbreg(ind):
    func = gp.compile(ind, GP_STATE["pset"])
    pts = [x / 10. for x in range(-10, 10, 2)]
    try:
        sq = [(func(x) - x ** 4 - x ** 3 - x ** 2 - x) ** 2 for x in pts]
        v = math.fsum(sq) / len(pts)
    except (OverflowError, ValueError):
        v = 1e300
    if v != v:
        v = 1e300
    return (v,)


def if_then_else(c, a, b):
    return a if c else b


_PADS = []


def make_heap_types(perturb=0):
    """user-defined (heap-allocated) GP types for the typed variant; created when the family is set up so that
    their addresses depend on what the process allocated before (pickled by reference: module attributes).
    `perturb` inserts retained allocations of different sizes between the classes: another process, another heap."""
    g = globals()
    for j, (name, base_) in enumerate((("Angle", float), ("Ratio", float), ("Flag", int))):
        if perturb:
            _PADS.append(bytearray(16 * ((perturb * (j + 3)) % 8) + 24 + 1024 * (perturb % 3)))
        cls = type(name, (base_,), {"__module__": __name__})
        g[name] = cls


make_heap_types()


def angle_add(a, b):
    return Angle(a + b)


def ratio_mul(a, b):
    return Ratio(a * b)


def angle_of(r):
    return Angle(r)


def ratio_of(a):
    return Ratio(a)


def flag_lt(a, b):
    return Flag(a < b)


def flag_and(a, b):
    return Flag(a and b)


def angle_if(c, a, b):
    return a if c else b


def ratio_if(c, a, b):
    return a if c else b


def flag_gt_r(a, b):
    return Flag(a > b)


def eph_angle():
    return Angle(random.randint(-2, 2))


def eph_ratio():
    return Ratio(random.randint(0, 3) / 2.0)


def eph_flag():
    return Flag(random.randint(0, 1))


def ev_typed(ind):
    func = gp.compile(ind, GP_STATE["pset"])
    tot = 0.0
    for x in (-1.0, 0.0, 0.5, 2.0):
        for y in (0.0, 1.0, 3.0):
            try:
                r = float(func(Angle(x), Ratio(y)))
            except (OverflowError, ValueError, ZeroDivisionError):
                r = 1e6
            if r != r or abs(r) > 1e12:
                r = 1e6
            tot += (r - (x * y + x)) ** 2
    return (tot, float(len(ind)))


def ev_sub(ind):
    func = gp.compile(ind, GP_STATE["pset"])
    tot = 0
    for r in GP_STATE["rows"]:
        v = int(func(*r[:3]))
        tot += min(abs(v - r[3]), 1000)
    return (float(tot),)


def ev_spam(ind):
    func = gp.compile(ind, GP_STATE["pset"])
    rows = GP_STATE["rows"]
    return (float(sum(bool(func(*r[:3])) == bool(r[3]) for r in rows)),)


# --------------------------------------------------------------------------------------------
# maps
# --------------------------------------------------------------------------------------------
def _pool_task(args):
    f, x, delay = args
    if delay:
        time.sleep(delay)
    r = f(x)
    return r, time.monotonic(), os.getpid()


def _spawn_init(spec):
    """initializer of a worker started with the `spawn` method (a fresh interpreter, nothing inherited): do what
    a user script does at import time (types, primitive set, toolbox)"""
    spec = dict(spec, mode="worker")
    fam = FAMILIES[spec["family"]](spec)
    fam.setup()
    _spawn_init.family = fam


class DelayedPoolMap(object):
    """toolbox.map replacement: an order-preserving parallel map over a process pool; task i of each call sleeps
    a delay taken from a private generator so that completion orders differ from submission order."""

    def __init__(self, kind, workers, delay_seed, unit=0.004, spec=None):
        import multiprocessing
        self.kind = kind
        self.workers = workers
        self.rng = random.Random(delay_seed)      # private instance, never the global generator
        self.unit = unit
        self.orders = []
        self.calls = []
        self.record = False
        self.pids = set()
        ctx = multiprocessing.get_context("fork")
        if kind == "mp":
            self.pool = ctx.Pool(workers)
        elif kind == "mp_imap":
            self.pool = ctx.Pool(workers)
        elif kind == "mp_spawn":
            wspec = {k: v for k, v in (spec or {}).items() if k in ("family", "params", "stream", "perturb")}
            self.pool = multiprocessing.get_context("spawn").Pool(workers, initializer=_spawn_init, initargs=(wspec,))
        elif kind == "cf":
            import concurrent.futures
            self.pool = concurrent.futures.ProcessPoolExecutor(workers, mp_context=ctx)
        elif kind == "cf_thread":
            import concurrent.futures
            self.pool = concurrent.futures.ThreadPoolExecutor(workers)
        else:
            raise ValueError(kind)

    def __call__(self, f, xs):
        xs = list(xs)
        n = len(xs)
        ranks = list(range(n))
        self.rng.shuffle(ranks)
        mode = self.rng.randrange(3)
        if mode == 0:          # a permutation of distinct delays
            delays = [r * self.unit for r in ranks]
        elif mode == 1:        # first tasks slowest: reversed completion order
            delays = [(n - 1 - i) * self.unit for i in range(n)]
        else:                  # a few stragglers
            delays = [self.unit * 6 if r < max(1, n // 4) else 0.0 for r in ranks]
        tasks = [(f, x, d) for x, d in zip(xs, delays)]
        if self.kind in ("mp", "mp_spawn"):
            out = self.pool.map(_pool_task, tasks, 1)
        elif self.kind == "mp_imap":
            out = list(self.pool.imap(_pool_task, tasks, 1))
        else:
            out = list(self.pool.map(_pool_task, tasks))
        order = sorted(range(n), key=lambda i: out[i][1])
        self.orders.append(order)
        self.calls.append({"order": order, "inputs": [[int(b) for b in x] for x in xs] if self.record else None,
                           "results": [list(o[0]) for o in out] if self.record else None})
        self.pids.update(o[2] for o in out)
        if os.environ.get("C17_SELFTEST_BADMAP") == "1":     # self-test of the oracle only: NOT order preserving
            return [out[i][0] for i in order]
        return [o[0] for o in out]

    def close(self):
        if self.kind in ("mp", "mp_imap", "mp_spawn"):
            self.pool.close()
            self.pool.join()
        else:
            self.pool.shutdown()


# --------------------------------------------------------------------------------------------
# families
# --------------------------------------------------------------------------------------------
def reset_creator():
    for n in ("FitnessC17", "IndividualC17"):
        if n in vars(creator):
            delattr(creator, n)


class Family(object):
    """setup(): everything a script does at import time (types, toolbox); never pickled.
    init(): seed-dependent initial state = boundary 0.  step(): one generation.  attach(): re-bind the toolbox to a
    restored strategy object."""
    uses_strategy = False

    def __init__(self, spec):
        self.spec = spec
        self.params = spec.get("params", {})
        self.toolbox = base.Toolbox()
        self.stats = None
        self.stream_text = None

    def attach(self, st):
        pass

    def user_args(self):
        """objects a user script creates ONCE and hands to the library (initial covariance matrix, centroid, parent,
        initial population, reference points).  Built without the global generators; the same objects are reused by
        every run of this process (mode `twice`)."""
        return {}

    def evaluate_invalid(self, pop):
        invalid = [ind for ind in pop if not ind.fitness.valid]
        fits = self.toolbox.map(self.toolbox.evaluate, invalid)
        for ind, fit in zip(invalid, fits):
            ind.fitness.values = fit
        return len(invalid)

    reuse_hof = None
    reuse_hof_maxsize = None

    def hof(self, factory):
        """second run of mode `twice`: the script keeps its archive object, empties it with clear() and uses it again"""
        if self.reuse_hof is not None:
            self.reuse_hof.clear()
            if self.reuse_hof_maxsize is not None:
                # the script's own reconfiguration (params reconf raises maxsize) is undone by the script as well:
                # clear() documents that it empties the archive, not that it restores its configuration
                self.reuse_hof.maxsize = self.reuse_hof_maxsize
            return self.reuse_hof
        h = factory()
        self.reuse_hof_maxsize = getattr(h, "maxsize", None)
        return h

    def log(self, st, pop, **kw):
        rec = self.stats.compile(pop) if self.stats is not None else {}
        st["logbook"].record(**kw, **rec)
        if self.params.get("reconf"):
            self.reconfigure(st, kw.get("gen", 0))
        self.stream_text = st["logbook"].stream     # what a verbose loop prints (moves buffindex)

    def reconfigure(self, st, gen):
        """params reconf: between generations the script uses the public mutation routes of logbook and archive
        (header assignment, log_header, pop, del, remove, maxsize); the objects are checkpointed afterwards"""
        lb, hof = st["logbook"], st["halloffame"]
        if gen == 1:
            lb.header = None                 # columns from the first record + chapters
        elif gen == 2:
            lb.log_header = False
            if len(hof) > 1:
                hof.remove(-1)
        elif gen == 3:
            lb.pop(0)
            if isinstance(hof.maxsize, int):
                hof.maxsize += 1
        elif gen == 4:
            del lb[0]
            lb.header = ["gen", "nevals"] + list(reversed(self.stats.fields if self.stats else []))

    def std_stats(self, axis=None):
        s = tools.Statistics(lambda ind: ind.fitness.values)
        kw = {} if axis is None else {"axis": axis}
        s.register("avg", numpy.mean, **kw)
        s.register("std", numpy.std, **kw)
        s.register("min", numpy.min, **kw)
        s.register("max", numpy.max, **kw)
        return s

    def new_logbook(self):
        lb = tools.Logbook()
        lb.header = ["gen", "nevals"] + (self.stats.fields if self.stats else [])
        return lb


class GAList(Family):
    """GA on lists, eaSimple-like loop (examples/ga/onemax.py)."""
    def setup(self):
        creator.create("FitnessC17", base.Fitness, weights=(1.0,))
        creator.create("IndividualC17", list, fitness=creator.FitnessC17)
        tb = self.toolbox
        tb.register("attr_bool", random.randint, 0, 1)
        tb.register("individual", tools.initRepeat, creator.IndividualC17, tb.attr_bool, 24)
        tb.register("population", tools.initRepeat, list, tb.individual)
        tb.register("evaluate", ev_onemax)
        tb.register("mate", tools.cxTwoPoint)
        tb.register("mutate", tools.mutFlipBit, indpb=self.params.get("indpb", 0.05))
        tb.register("select", tools.selTournament, tournsize=3)
        if "len" in self.params:
            tb.register("individual", tools.initRepeat, creator.IndividualC17, tb.attr_bool, self.params["len"])
            tb.register("population", tools.initRepeat, list, tb.individual)
        self.stats = self.std_stats()

    def init(self):
        pop = self.toolbox.population(n=self.params.get("n", 12))
        st = {"population": pop, "generation": 0, "halloffame": self.hof(lambda: tools.HallOfFame(self.params.get("hof", 3))),
              "logbook": self.new_logbook(), "strategy": None}
        n = self.evaluate_invalid(pop)
        st["halloffame"].update(pop)
        self.log(st, pop, gen=0, nevals=n)
        return st

    def step(self, st, gen):
        tb = self.toolbox
        pop = st["population"]
        off = tb.select(pop, len(pop))
        off = algorithms.varAnd(off, tb, self.params.get("cxpb", 0.6), self.params.get("mutpb", 0.3))
        n = self.evaluate_invalid(off)
        st["halloffame"].update(off)
        pop[:] = off
        self.log(st, pop, gen=gen, nevals=n)


class GAArray(GAList):
    """array.array individuals, (mu+lambda) loop with varOr, MultiStatistics (logbook chapters)."""
    def setup(self):
        creator.create("FitnessC17", base.Fitness, weights=(1.0,))
        creator.create("IndividualC17", array.array, typecode="b", fitness=creator.FitnessC17)
        tb = self.toolbox
        tb.register("attr_bool", random.randint, 0, 1)
        tb.register("individual", tools.initRepeat, creator.IndividualC17, tb.attr_bool, 20)
        tb.register("population", tools.initRepeat, list, tb.individual)
        tb.register("evaluate", ev_onemax)
        tb.register("mate", tools.cxUniform, indpb=0.3)
        tb.register("mutate", tools.mutShuffleIndexes, indpb=0.1)
        tb.register("select", tools.selRoulette)
        sf = tools.Statistics(lambda ind: ind.fitness.values)
        ss = tools.Statistics(key=operator.itemgetter(0))
        self.stats = tools.MultiStatistics(fitness=sf, first=ss)
        self.stats.register("avg", numpy.mean)
        self.stats.register("max", numpy.max)

    def step(self, st, gen):
        tb = self.toolbox
        pop = st["population"]
        off = algorithms.varOr(pop, tb, 16, 0.5, 0.3)
        n = self.evaluate_invalid(off)
        st["halloffame"].update(off)
        pop[:] = tb.select(pop + off, 12)
        self.log(st, pop, gen=gen, nevals=n)


class GANumpy(GAList):
    """numpy.ndarray individuals, (mu,lambda) loop, hall of fame with array_equal (examples/ga/onemax_numpy.py)."""
    def setup(self):
        creator.create("FitnessC17", base.Fitness, weights=(1.0,))
        creator.create("IndividualC17", numpy.ndarray, fitness=creator.FitnessC17)
        tb = self.toolbox
        tb.register("attr_bool", random.randint, 0, 1)
        tb.register("individual", tools.initRepeat, creator.IndividualC17, tb.attr_bool, 16)
        tb.register("population", tools.initRepeat, list, tb.individual)
        tb.register("evaluate", ev_onemax_np)
        tb.register("mate", cx_two_point_copy)
        tb.register("mutate", tools.mutFlipBit, indpb=0.1)
        tb.register("select", tools.selBest)
        self.stats = self.std_stats()

    def init(self):
        pop = self.toolbox.population(n=8)
        st = {"population": pop, "generation": 0, "halloffame": self.hof(lambda: tools.HallOfFame(2, similar=numpy.array_equal)),
              "logbook": self.new_logbook(), "strategy": None}
        n = self.evaluate_invalid(pop)
        st["halloffame"].update(pop)
        self.log(st, pop, gen=0, nevals=n)
        return st

    def step(self, st, gen):
        tb = self.toolbox
        pop = st["population"]
        off = algorithms.varOr(pop, tb, 14, 0.5, 0.4)
        n = self.evaluate_invalid(off)
        st["halloffame"].update(off)
        pop[:] = tb.select(off, 8)
        self.log(st, pop, gen=gen, nevals=n)


def cx_two_point_copy(ind1, ind2):
    """examples/ga/onemax_numpy.py: two-point crossover with explicit copies for numpy views"""
    size = len(ind1)
    cxpoint1 = random.randint(1, size)
    cxpoint2 = random.randint(1, size - 1)
    if cxpoint2 >= cxpoint1:
        cxpoint2 += 1
    else:
        cxpoint1, cxpoint2 = cxpoint2, cxpoint1
    ind1[cxpoint1:cxpoint2], ind2[cxpoint1:cxpoint2] = ind2[cxpoint1:cxpoint2].copy(), ind1[cxpoint1:cxpoint2].copy()
    return ind1, ind2


def uniform(low, up, size):
    return [random.uniform(low, up) for _ in range(size)]


class NSGA2(Family):
    """examples/ga/nsga2.py with a ParetoFront archive."""
    def setup(self):
        creator.create("FitnessC17", base.Fitness, weights=tuple(self.params.get("weights", (-1.0, -1.0))))
        creator.create("IndividualC17", list, fitness=creator.FitnessC17)
        tb = self.toolbox
        tb.register("attr_float", uniform, 0.0, 1.0, 6)
        tb.register("individual", tools.initIterate, creator.IndividualC17, tb.attr_float)
        tb.register("population", tools.initRepeat, list, tb.individual)
        tb.register("evaluate", ev_zdt1)
        tb.register("mate", tools.cxSimulatedBinaryBounded, low=0.0, up=1.0, eta=20.0)
        tb.register("mutate", tools.mutPolynomialBounded, low=0.0, up=1.0, eta=20.0, indpb=1.0 / 6)
        tb.register("select", tools.selNSGA2, nd=self.params.get("nd", "standard"))
        self.stats = self.std_stats(axis=0)

    def init(self):
        tb = self.toolbox
        pop = tb.population(n=12)
        st = {"population": pop, "generation": 0, "halloffame": self.hof(lambda: tools.ParetoFront()), "logbook": self.new_logbook(),
              "strategy": None}
        n = self.evaluate_invalid(pop)
        pop = tb.select(pop, len(pop))          # assigns crowding distance, no actual selection
        st["population"] = pop
        st["halloffame"].update(pop)
        self.log(st, pop, gen=0, nevals=n)
        return st

    def step(self, st, gen):
        tb = self.toolbox
        pop = st["population"]
        off = tools.selTournamentDCD(pop, len(pop))
        off = [tb.clone(ind) for ind in off]
        for ind1, ind2 in zip(off[::2], off[1::2]):
            if random.random() <= 0.9:
                tb.mate(ind1, ind2)
            tb.mutate(ind1)
            tb.mutate(ind2)
            del ind1.fitness.values, ind2.fitness.values
        n = self.evaluate_invalid(off)
        st["halloffame"].update(off)
        pop = tb.select(pop + off, 12)
        st["population"] = pop
        self.log(st, pop, gen=gen, nevals=n)


def np32_individual(icls, n):
    return icls(numpy.float32(random.uniform(0.0, 1.0)) for _ in range(n))


class NSGA2Np32(NSGA2):
    """NSGA-II (mu+mu) with numpy.ndarray individuals of dtype float32 (non-default dtype: in-place variation and
    evaluation run in single precision), ParetoFront archive with array_equal."""
    def setup(self):
        creator.create("FitnessC17", base.Fitness, weights=(-1.0, -1.0))
        creator.create("IndividualC17", numpy.ndarray, fitness=creator.FitnessC17)
        tb = self.toolbox
        tb.register("individual", np32_individual, creator.IndividualC17, 6)
        tb.register("population", tools.initRepeat, list, tb.individual)
        tb.register("evaluate", ev_zdt1)
        tb.register("mate", tools.cxSimulatedBinaryBounded, low=0.0, up=1.0, eta=20.0)
        tb.register("mutate", tools.mutPolynomialBounded, low=0.0, up=1.0, eta=20.0, indpb=1.0 / 6)
        tb.register("select", tools.selNSGA2)
        self.stats = self.std_stats(axis=0)
        self.mu = self.params.get("mu", 12)

    def init(self):
        tb = self.toolbox
        pop = tb.population(n=self.mu)
        st = {"population": pop, "generation": 0, "halloffame": self.hof(lambda: tools.ParetoFront(similar=numpy.array_equal)),
              "logbook": self.new_logbook(), "strategy": None}
        n = self.evaluate_invalid(pop)
        pop = tb.select(pop, len(pop))
        st["population"] = pop
        st["halloffame"].update(pop)
        self.log(st, pop, gen=0, nevals=n)
        return st

    def step(self, st, gen):
        tb = self.toolbox
        pop = st["population"]
        off = tools.selTournamentDCD(pop, len(pop))
        off = [tb.clone(ind) for ind in off]
        for ind1, ind2 in zip(off[::2], off[1::2]):
            if random.random() <= 0.9:
                tb.mate(ind1, ind2)
            tb.mutate(ind1)
            tb.mutate(ind2)
            del ind1.fitness.values, ind2.fitness.values
        n = self.evaluate_invalid(off)
        st["halloffame"].update(off)
        pop = tb.select(pop + off, self.mu)
        st["population"] = pop
        self.log(st, pop, gen=gen, nevals=n)


def np_int8_individual(icls, n):
    return icls(numpy.int8(random.randint(0, 1)) for _ in range(n))


class GANumpyInt8(GANumpy):
    """numpy.ndarray bit strings of dtype int8 (examples/ga/onemax_numpy.py with a small integer dtype)."""
    def setup(self):
        GANumpy.setup(self)
        self.toolbox.register("individual", np_int8_individual, creator.IndividualC17, 16)
        self.toolbox.register("population", tools.initRepeat, list, self.toolbox.individual)


class GAArrayF(GAList):
    """array.array('f') individuals (single precision storage), eaSimple-shaped loop, cxBlend / mutGaussian."""
    def setup(self):
        creator.create("FitnessC17", base.Fitness, weights=(-1.0,))
        creator.create("IndividualC17", array.array, typecode="f", fitness=creator.FitnessC17)
        tb = self.toolbox
        tb.register("attr", random.uniform, -2.0, 2.0)
        tb.register("individual", tools.initRepeat, creator.IndividualC17, tb.attr, 6)
        tb.register("population", tools.initRepeat, list, tb.individual)
        tb.register("evaluate", ev_sphere)
        tb.register("mate", tools.cxBlend, alpha=0.3)
        tb.register("mutate", tools.mutGaussian, mu=0.0, sigma=0.3, indpb=0.3)
        tb.register("select", tools.selTournament, tournsize=3)
        self.stats = self.std_stats()


class SPEA2(Family):
    """(mu+lambda) loop with selSPEA2 and a ParetoFront archive."""
    def setup(self):
        creator.create("FitnessC17", base.Fitness, weights=tuple(self.params.get("weights", (-1.0, -1.0))))
        creator.create("IndividualC17", list, fitness=creator.FitnessC17)
        tb = self.toolbox
        tb.register("attr_float", uniform, -5.0, 5.0, 3)
        tb.register("individual", tools.initIterate, creator.IndividualC17, tb.attr_float)
        tb.register("population", tools.initRepeat, list, tb.individual)
        tb.register("evaluate", ev_kursawe)
        tb.register("mate", tools.cxBlend, alpha=0.5)
        tb.register("mutate", tools.mutGaussian, mu=0, sigma=1.0, indpb=0.4)
        tb.register("select", tools.selSPEA2)
        self.stats = self.std_stats(axis=0)

    def init(self):
        tb = self.toolbox
        pop = tb.population(n=10)
        st = {"population": pop, "generation": 0, "halloffame": self.hof(lambda: tools.ParetoFront()), "logbook": self.new_logbook(),
              "strategy": None}
        n = self.evaluate_invalid(pop)
        st["halloffame"].update(pop)
        self.log(st, pop, gen=0, nevals=n)
        return st

    def step(self, st, gen):
        tb = self.toolbox
        pop = st["population"]
        off = algorithms.varOr(pop, tb, 14, 0.5, 0.4)
        n = self.evaluate_invalid(off)
        st["halloffame"].update(off)
        pop[:] = tb.select(pop + off, 10)
        self.log(st, pop, gen=gen, nevals=n)


class NSGA3(Family):
    """examples/ga/nsga3.py with the memory variant of the selector; the selector object is the family's
    'strategy object' (it carries best/worst/extreme points between generations)."""
    uses_strategy = True

    def setup(self):
        creator.create("FitnessC17", base.Fitness, weights=(-1.0, -1.0, -1.0))
        creator.create("IndividualC17", list, fitness=creator.FitnessC17)
        tb = self.toolbox
        tb.register("attr_float", uniform, 0.0, 1.0, 5)
        tb.register("individual", tools.initIterate, creator.IndividualC17, tb.attr_float)
        tb.register("population", tools.initRepeat, list, tb.individual)
        tb.register("evaluate", ev_dtlz2)
        tb.register("mate", tools.cxSimulatedBinaryBounded, low=0.0, up=1.0, eta=30.0)
        tb.register("mutate", tools.mutPolynomialBounded, low=0.0, up=1.0, eta=20.0, indpb=1.0 / 5)
        self.stats = self.std_stats(axis=0)

    def attach(self, st):
        self.toolbox.register("select", st["strategy"])

    def user_args(self):
        return {"ref_points": tools.uniform_reference_points(3, 3)}

    def init(self):
        tb = self.toolbox
        ref = self.args["ref_points"]
        st = {"generation": 0, "halloffame": self.hof(lambda: tools.ParetoFront()), "logbook": self.new_logbook(),
              "strategy": tools.selNSGA3WithMemory(ref, nd=self.params.get("nd", "log"))}
        self.attach(st)
        pop = tb.population(n=12)
        st["population"] = pop
        n = self.evaluate_invalid(pop)
        st["halloffame"].update(pop)
        self.log(st, pop, gen=0, nevals=n)
        return st

    def step(self, st, gen):
        tb = self.toolbox
        pop = st["population"]
        if self.params.get("comma"):
            # non-elitist use: the next population is selected among the offspring only, so the ideal / extreme
            # points of earlier generations survive nowhere but in the selector's memory
            off = algorithms.varAnd(pop + pop, tb, 1.0, 1.0)
            n = self.evaluate_invalid(off)
            st["halloffame"].update(off)
            pop = tb.select(off, 12)
        else:
            off = algorithms.varAnd(pop, tb, 1.0, 1.0)
            n = self.evaluate_invalid(off)
            st["halloffame"].update(off)
            pop = tb.select(pop + off, 12)
        st["population"] = pop
        self.log(st, pop, gen=gen, nevals=n)


class GPSym(Family):
    """examples/gp/symbreg.py: untyped GP with an ephemeral constant, height limits, hall of fame, MultiStatistics."""
    def setup(self):
        pset = gp.PrimitiveSet("MAIN", 1)
        pset.addPrimitive(operator.add, 2)
        pset.addPrimitive(operator.sub, 2)
        pset.addPrimitive(operator.mul, 2)
        pset.addPrimitive(protectedDiv, 2)
        pset.addPrimitive(operator.neg, 1)
        pset.addPrimitive(math.cos, 1)
        pset.addEphemeralConstant("rand101", partial(random.randint, -1, 1))
        pset.addEphemeralConstant("randu", partial(random.uniform, -1, 1))
        pset.renameArguments(ARG0="x")
        GP_STATE["pset"] = pset
        creator.create("FitnessC17", base.Fitness, weights=(-1.0,))
        creator.create("IndividualC17", gp.PrimitiveTree, fitness=creator.FitnessC17)
        tb = self.toolbox
        tb.register("expr", gp.genHalfAndHalf, pset=pset, min_=1, max_=2)
        tb.register("individual", tools.initIterate, creator.IndividualC17, tb.expr)
        tb.register("population", tools.initRepeat, list, tb.individual)
        tb.register("evaluate", ev_symbreg)
        tb.register("select", tools.selTournament, tournsize=3)
        tb.register("mate", gp.cxOnePoint)
        tb.register("expr_mut", gp.genFull, min_=0, max_=2)
        tb.register("mutate_u", gp.mutUniform, expr=tb.expr_mut, pset=pset)
        tb.register("mutate_e", gp.mutEphemeral, mode="one")
        tb.register("mutate", self.mutate)
        tb.decorate("mate", gp.staticLimit(key=operator.attrgetter("height"), max_value=6))
        tb.decorate("mutate", gp.staticLimit(key=operator.attrgetter("height"), max_value=6))
        sf = tools.Statistics(lambda ind: ind.fitness.values)
        ss = tools.Statistics(len)
        self.stats = tools.MultiStatistics(fitness=sf, size=ss)
        self.stats.register("avg", numpy.mean)
        self.stats.register("min", numpy.min)
        self.stats.register("max", numpy.max)

    def mutate(self, ind):
        if random.random() < 0.5:
            return self.toolbox.mutate_u(ind)
        return self.toolbox.mutate_e(ind)

    def init(self):
        pop = self.toolbox.population(n=16)
        st = {"population": pop, "generation": 0, "halloffame": self.hof(lambda: tools.HallOfFame(6)), "logbook": self.new_logbook(),
              "strategy": None}
        n = self.evaluate_invalid(pop)
        st["halloffame"].update(pop)
        self.log(st, pop, gen=0, nevals=n)
        return st

    def step(self, st, gen):
        tb = self.toolbox
        pop = st["population"]
        off = tb.select(pop, len(pop))
        off = algorithms.varAnd(off, tb, 0.6, 0.5)
        n = self.evaluate_invalid(off)
        st["halloffame"].update(off)
        pop[:] = off
        self.log(st, pop, gen=gen, nevals=n)


def ev_adf(ind):
    func = gp.compileADF(ind, GP_STATE["psets"])
    pts = [x / 10. for x in range(-10, 10, 4)]
    try:
        v = sum((func(x) - (x ** 4 + x ** 3 + x ** 2 + x)) ** 2 for x in pts)
    except (OverflowError, ValueError, ZeroDivisionError):
        v = 1e300
    if v != v or v > 1e300:
        v = 1e300
    return (float(v),)


class GPADF(Family):
    """examples/gp/adf_symbreg.py: individuals are lists of trees (main + two automatically defined functions), an
    ephemeral constant in the main set, per-tree crossover and mutation."""
    def setup(self):
        def mkset(name, n):
            ps = gp.PrimitiveSet(name, n)
            ps.addPrimitive(operator.add, 2)
            ps.addPrimitive(operator.sub, 2)
            ps.addPrimitive(operator.mul, 2)
            ps.addPrimitive(operator.neg, 1)
            return ps
        adf1 = mkset("ADF1", 2)
        adf0 = mkset("ADF0", 2)
        adf0.addADF(adf1)
        pset = mkset("MAIN", 1)
        pset.addEphemeralConstant("rand101adf", partial(random.randint, -1, 1))
        pset.addADF(adf0)
        pset.addADF(adf1)
        pset.renameArguments(ARG0="x")
        self.psets = (pset, adf0, adf1)
        GP_STATE["psets"] = self.psets
        creator.create("FitnessC17", base.Fitness, weights=(-1.0,))
        creator.create("TreeC17", gp.PrimitiveTree)
        creator.create("IndividualC17", list, fitness=creator.FitnessC17)
        tb = self.toolbox
        tb.register("adf_expr0", gp.genFull, pset=adf0, min_=1, max_=2)
        tb.register("adf_expr1", gp.genFull, pset=adf1, min_=1, max_=2)
        tb.register("main_expr", gp.genHalfAndHalf, pset=pset, min_=1, max_=2)
        tb.register("ADF0", tools.initIterate, creator.TreeC17, tb.adf_expr0)
        tb.register("ADF1", tools.initIterate, creator.TreeC17, tb.adf_expr1)
        tb.register("MAIN", tools.initIterate, creator.TreeC17, tb.main_expr)
        tb.register("individual", tools.initCycle, creator.IndividualC17, [tb.MAIN, tb.ADF0, tb.ADF1])
        tb.register("population", tools.initRepeat, list, tb.individual)
        tb.register("evaluate", ev_adf)
        tb.register("select", tools.selTournament, tournsize=3)
        tb.register("mate", gp.cxOnePoint)
        tb.register("expr", gp.genFull, min_=1, max_=2)
        tb.register("mutate", gp.mutUniform, expr=tb.expr)
        self.stats = self.std_stats()

    def init(self):
        pop = self.toolbox.population(n=12)
        st = {"population": pop, "generation": 0, "halloffame": self.hof(lambda: tools.HallOfFame(3)), "logbook": self.new_logbook(),
              "strategy": None}
        n = self.evaluate_invalid(pop)
        st["halloffame"].update(pop)
        self.log(st, pop, gen=0, nevals=n)
        return st

    def step(self, st, gen):
        tb = self.toolbox
        pop = st["population"]
        off = [tb.clone(ind) for ind in tb.select(pop, len(pop))]
        for ind1, ind2 in zip(off[::2], off[1::2]):
            for tree1, tree2 in zip(ind1, ind2):
                if random.random() < 0.5:
                    tb.mate(tree1, tree2)
                    del ind1.fitness.values
                    del ind2.fitness.values
        for ind in off:
            for tree, pset in zip(ind, self.psets):
                if random.random() < 0.3:
                    tb.mutate(individual=tree, pset=pset)
                    del ind.fitness.values
        n = self.evaluate_invalid(off)
        st["halloffame"].update(off)
        pop[:] = off
        self.log(st, pop, gen=gen, nevals=n)


class GAConstrained(GAList):
    """base.ConstrainedFitness: the evaluation also sets fitness.constraint_violation, which takes part in every
    comparison (tournaments, hall of fame) and must survive the checkpoint."""
    def setup(self):
        creator.create("FitnessC17", base.ConstrainedFitness, weights=(1.0,))
        creator.create("IndividualC17", list, fitness=creator.FitnessC17)
        tb = self.toolbox
        tb.register("attr_bool", random.randint, 0, 1)
        tb.register("individual", tools.initRepeat, creator.IndividualC17, tb.attr_bool, 16)
        tb.register("population", tools.initRepeat, list, tb.individual)
        tb.register("evaluate", ev_onemax)
        tb.register("mate", tools.cxTwoPoint)
        tb.register("mutate", tools.mutFlipBit, indpb=0.1)
        tb.register("select", tools.selTournament, tournsize=3)
        self.stats = self.std_stats()

    def evaluate_invalid(self, pop):
        invalid = [ind for ind in pop if not ind.fitness.valid]
        fits = self.toolbox.map(self.toolbox.evaluate, invalid)
        for ind, fit in zip(invalid, fits):
            ind.fitness.values = fit
            ind.fitness.constraint_violation = (sum(ind[:5]) > 3, ind[0] + ind[-1] == 2)
        return len(invalid)


class GPTyped(GPSym):
    """strongly typed GP.  variant 'builtin': types bool/float as in examples/gp/spambase.py;
    variant 'heap': user-defined classes as types (their hashes are addresses of heap objects)."""
    def setup(self):
        variant = self.params.get("variant", "heap")
        tb = self.toolbox
        if variant == "heap":
            make_heap_types(self.spec.get("perturb", 0))
            pset = gp.PrimitiveSetTyped("MAIN", [Angle, Ratio], Angle)
            pset.addPrimitive(angle_add, [Angle, Angle], Angle)
            pset.addPrimitive(ratio_mul, [Ratio, Ratio], Ratio)
            pset.addPrimitive(angle_of, [Ratio], Angle)
            pset.addPrimitive(ratio_of, [Angle], Ratio)
            pset.addPrimitive(flag_lt, [Angle, Angle], Flag)
            pset.addPrimitive(flag_gt_r, [Ratio, Ratio], Flag)
            pset.addPrimitive(flag_and, [Flag, Flag], Flag)
            pset.addPrimitive(angle_if, [Flag, Angle, Angle], Angle)
            pset.addPrimitive(ratio_if, [Flag, Ratio, Ratio], Ratio)
            pset.addEphemeralConstant("ephA", eph_angle, Angle)
            pset.addEphemeralConstant("ephR", eph_ratio, Ratio)
            pset.addEphemeralConstant("ephF", eph_flag, Flag)
            creator.create("FitnessC17", base.Fitness, weights=(-1.0, -1.0))
            tb.register("evaluate", ev_typed)
        elif variant == "sub":
            # subclass-related types (bool < int); the super type int is first mentioned AFTER several entries of the subtype
            # exist, so PrimitiveSetTyped._add builds pset.primitives[int] / pset.terminals[int] from the inherited entries
            pset = gp.PrimitiveSetTyped("MAIN", [bool, bool, bool], int)
            pset.addPrimitive(operator.and_, [bool, bool], bool)
            pset.addPrimitive(operator.or_, [bool, bool], bool)
            pset.addPrimitive(operator.not_, [bool], bool)
            pset.addPrimitive(operator.xor, [bool, bool], bool)
            pset.addTerminal(True, bool)
            pset.addTerminal(False, bool)
            pset.addPrimitive(operator.add, [int, int], int)
            pset.addPrimitive(operator.mul, [int, int], int)
            pset.addPrimitive(if_then_else, [bool, int, int], int)
            pset.addPrimitive(operator.lt, [int, int], bool)
            pset.addEphemeralConstant("randint17", partial(random.randint, -3, 3), int)
            pset.addTerminal(2, int)
            rows_rng = random.Random(11)
            GP_STATE["rows"] = [[bool(rows_rng.getrandbits(1)) for _ in range(3)] for _ in range(8)]
            for r in GP_STATE["rows"]:
                r.append(int(r[0]) + 2 * int(r[1]) - int(r[2]))
            creator.create("FitnessC17", base.Fitness, weights=(-1.0,))
            tb.register("evaluate", ev_sub)
        else:
            pset = gp.PrimitiveSetTyped("MAIN", [float, float, float], bool)
            pset.addPrimitive(operator.and_, [bool, bool], bool)
            pset.addPrimitive(operator.or_, [bool, bool], bool)
            pset.addPrimitive(operator.not_, [bool], bool)
            pset.addPrimitive(operator.add, [float, float], float)
            pset.addPrimitive(operator.mul, [float, float], float)
            pset.addPrimitive(protectedDiv, [float, float], float)
            pset.addPrimitive(operator.lt, [float, float], bool)
            pset.addPrimitive(if_then_else, [bool, float, float], float)
            pset.addEphemeralConstant("rand100", partial(random.uniform, 0, 100), float)
            pset.addTerminal(False, bool)
            pset.addTerminal(True, bool)
            rows_rng = random.Random(7)
            GP_STATE["rows"] = [[rows_rng.uniform(0, 100) for _ in range(3)] + [rows_rng.randint(0, 1)] for _ in range(12)]
            creator.create("FitnessC17", base.Fitness, weights=(1.0,))
            tb.register("evaluate", ev_spam)
        GP_STATE["pset"] = pset
        creator.create("IndividualC17", gp.PrimitiveTree, fitness=creator.FitnessC17)
        tb.register("expr", gp.genHalfAndHalf, pset=pset, min_=1, max_=3)
        tb.register("individual", tools.initIterate, creator.IndividualC17, tb.expr)
        tb.register("population", tools.initRepeat, list, tb.individual)
        tb.register("select", tools.selTournament, tournsize=2)
        tb.register("mate_a", gp.cxOnePoint)
        tb.register("mate_b", gp.cxOnePointLeafBiased, termpb=0.2)
        tb.register("mate", self.mate)
        tb.register("expr_mut", gp.genGrow, min_=0, max_=2)
        tb.register("mutate_u", gp.mutUniform, expr=tb.expr_mut, pset=pset)
        tb.register("mutate_e", gp.mutNodeReplacement, pset=pset)
        tb.register("mutate", self.mutate)
        tb.decorate("mate", gp.staticLimit(key=operator.attrgetter("height"), max_value=7))
        tb.decorate("mutate", gp.staticLimit(key=operator.attrgetter("height"), max_value=7))
        sf = tools.Statistics(lambda ind: ind.fitness.values)
        ss = tools.Statistics(len)
        self.stats = tools.MultiStatistics(fitness=sf, size=ss)
        self.stats.register("avg", numpy.mean, axis=0)
        self.stats.register("max", numpy.max, axis=0)

    def mate(self, a, b):
        if random.random() < 0.5:
            return self.toolbox.mate_a(a, b)
        return self.toolbox.mate_b(a, b)


class CMA(Family):
    """examples/es/cma_minfct.py: cma.Strategy with an eaGenerateUpdate-like loop."""
    uses_strategy = True

    def setup(self):
        creator.create("FitnessC17", base.Fitness, weights=(-1.0,))
        creator.create("IndividualC17", list, fitness=creator.FitnessC17)
        self.toolbox.register("evaluate", ev_rastrigin)
        self.stats = self.std_stats()

    def attach(self, st):
        self.toolbox.register("generate", st["strategy"].generate, creator.IndividualC17)
        self.toolbox.register("update", st["strategy"].update)

    def user_args(self):
        u = self.params.get("user")
        if not u:
            return {}
        cen = [3.0] * 5
        return {"centroid": numpy.array(cen) if u.get("centroid") == "ndarray" else cen,
                "cmatrix": numpy.diag([1.0, 4.0, 0.25, 2.0, 0.5])}

    def make_strategy(self):
        u = self.params.get("user")
        if u:
            return cma.Strategy(centroid=self.args["centroid"], sigma=u.get("sigma", 2.0), lambda_=u.get("lambda_", 12),
                                cmatrix=self.args["cmatrix"])
        kw = dict(self.params.get("strategy_kw", {}))
        kw.setdefault("lambda_", 10)
        return cma.Strategy(centroid=[5.0] * 5, sigma=5.0, **kw)

    def init(self):
        st = {"population": [], "generation": 0, "halloffame": self.hof(lambda: tools.HallOfFame(2)), "logbook": self.new_logbook(),
              "strategy": self.make_strategy()}
        self.attach(st)
        return st

    def relambda(self, st, gen):
        """params relambda = [generation, new lambda]: the script changes the population size of the strategy through
        its public route in the middle of the run (as restart strategies do)"""
        rl = self.params.get("relambda")
        if rl and gen == rl[0]:
            strategy = st["strategy"]
            if isinstance(strategy, cma.StrategyOnePlusLambda):
                strategy.computeParams({"lambda_": rl[1]})
            elif isinstance(strategy, cma.Strategy):
                strategy.lambda_ = rl[1]
                strategy.computeParams(strategy.params)
            else:
                strategy.lambda_ = rl[1]         # property setter of the active strategy

    def step(self, st, gen):
        tb = self.toolbox
        self.relambda(st, gen)
        pop = tb.generate()
        fits = tb.map(tb.evaluate, pop)
        for ind, fit in zip(pop, fits):
            ind.fitness.values = fit
        st["halloffame"].update(pop)
        tb.update(pop)
        st["population"] = pop
        self.log(st, pop, gen=gen, nevals=len(pop))


class CMA1PL(CMA):
    """examples/es/cma_1+l_minfct.py"""
    def setup(self):
        CMA.setup(self)
        self.toolbox.register("evaluate", ev_sphere)

    def user_args(self):
        if not self.params.get("user"):
            return {}
        parent = creator.IndividualC17([0.5, -0.25, 0.75, -1.0, 0.125])
        parent.fitness.values = ev_sphere(parent)
        return {"parent": parent}

    def make_strategy(self):
        if self.params.get("user"):
            return cma.StrategyOnePlusLambda(self.args["parent"], sigma=5.0, lambda_=8)
        parent = creator.IndividualC17(numpy.random.rand(5) * 2 - 1)
        parent.fitness.values = self.toolbox.evaluate(parent)
        return cma.StrategyOnePlusLambda(parent, sigma=5.0, **dict({"lambda_": 8}, **self.params.get("strategy_kw", {})))


def ev_sphere_constrained(ind):
    """None = infeasible (the active (1+lambda) strategy learns constraints from individuals left without fitness)"""
    if ind[0] + ind[1] < -1.0:
        return None
    return benchmarks.sphere(ind)


class CMAActive(CMA):
    """cma.StrategyActiveOnePlusLambda: mixed-integer steps, active covariance update, constraint learning from the
    individuals whose fitness stays invalid."""
    def setup(self):
        CMA.setup(self)
        self.toolbox.register("evaluate", ev_sphere_constrained)

    def user_args(self):
        parent = creator.IndividualC17([1.5, 2.0, 3.0, 1.0])
        parent.fitness.values = benchmarks.sphere(parent)
        return {"parent": parent, "steps": [0.0, 0.0, 1.0, 0.0]}

    def make_strategy(self):
        return cma.StrategyActiveOnePlusLambda(self.args["parent"], sigma=1.0, steps=self.args["steps"], lambda_=6)

    def step(self, st, gen):
        tb = self.toolbox
        self.relambda(st, gen)
        pop = tb.generate()
        fits = tb.map(tb.evaluate, pop)
        for ind, fit in zip(pop, fits):
            if fit is not None:
                ind.fitness.values = fit
        feasible = [ind for ind in pop if ind.fitness.valid]
        st["halloffame"].update(feasible)
        tb.update(pop)
        st["population"] = pop
        self.log(st, feasible or [st["strategy"].parent], gen=gen, nevals=len(pop))


class MOCMA(Family):
    """examples/es/cma_mo.py"""
    uses_strategy = True

    def setup(self):
        creator.create("FitnessC17", base.Fitness, weights=(-1.0, -1.0))
        creator.create("IndividualC17", list, fitness=creator.FitnessC17)
        self.toolbox.register("evaluate", ev_zdt1_pen)
        self.stats = self.std_stats(axis=0)

    def attach(self, st):
        self.toolbox.register("generate", st["strategy"].generate, creator.IndividualC17)
        self.toolbox.register("update", st["strategy"].update)

    def user_args(self):
        if not self.params.get("user"):
            return {}
        rs = numpy.random.RandomState(20170)          # private generator: the global ones are not touched
        pop = [creator.IndividualC17(x) for x in rs.uniform(0, 1, (6, 4))]
        for ind in pop:
            ind.fitness.values = ev_zdt1_pen(ind)
        return {"population": pop}

    def init(self):
        mu = 6
        lam = self.params.get("lambda_", 6)
        if self.params.get("user"):
            pop = self.args["population"]
        else:
            pop = [creator.IndividualC17(x) for x in numpy.random.uniform(0, 1, (mu, 4))]
            for ind in pop:
                ind.fitness.values = self.toolbox.evaluate(ind)
        strategy = cma.StrategyMultiObjective(pop, sigma=1.0, mu=mu, lambda_=lam)
        st = {"population": pop, "generation": 0, "halloffame": self.hof(lambda: tools.ParetoFront()), "logbook": self.new_logbook(),
              "strategy": strategy}
        st["halloffame"].update(pop)
        self.attach(st)
        return st

    def step(self, st, gen):
        tb = self.toolbox
        pop = tb.generate()
        fits = tb.map(tb.evaluate, pop)
        for ind, fit in zip(pop, fits):
            ind.fitness.values = fit
        st["halloffame"].update(pop)
        tb.update(pop)
        st["population"] = pop
        self.log(st, pop, gen=gen, nevals=len(pop))


def generate_es(icls, scls, size, imin, imax, smin, smax):
    ind = icls(random.uniform(imin, imax) for _ in range(size))
    ind.strategy = scls(random.uniform(smin, smax) for _ in range(size))
    return ind


def check_strategy(minstrategy):
    def decorator(func):
        def wrapper(*args, **kargs):
            children = func(*args, **kargs)
            for child in children:
                for i, s in enumerate(child.strategy):
                    if s < minstrategy:
                        child.strategy[i] = minstrategy
            return children
        return wrapper
    return decorator


class ES(Family):
    """examples/es/fctmin.py: array('d') individuals carrying a strategy array attribute, (mu,lambda) loop."""
    def setup(self):
        creator.create("FitnessC17", base.Fitness, weights=(-1.0,))
        creator.create("IndividualC17", array.array, typecode="d", fitness=creator.FitnessC17, strategy=None)
        creator.create("StrategyC17", array.array, typecode="d")
        tb = self.toolbox
        tb.register("individual", generate_es, creator.IndividualC17, creator.StrategyC17, 6, 4, 5, 0.5, 3)
        tb.register("population", tools.initRepeat, list, tb.individual)
        tb.register("mate", tools.cxESBlend, alpha=0.1)
        tb.register("mutate", tools.mutESLogNormal, c=1.0, indpb=0.3)
        tb.register("select", tools.selTournament, tournsize=3)
        tb.register("evaluate", ev_sphere)
        tb.decorate("mate", check_strategy(0.5))
        tb.decorate("mutate", check_strategy(0.5))
        self.stats = self.std_stats()

    def init(self):
        pop = self.toolbox.population(n=6)
        st = {"population": pop, "generation": 0, "halloffame": self.hof(lambda: tools.HallOfFame(2)), "logbook": self.new_logbook(),
              "strategy": None}
        n = self.evaluate_invalid(pop)
        st["halloffame"].update(pop)
        self.log(st, pop, gen=0, nevals=n)
        return st

    def step(self, st, gen):
        tb = self.toolbox
        pop = st["population"]
        off = algorithms.varOr(pop, tb, 14, 0.6, 0.3)
        n = self.evaluate_invalid(off)
        st["halloffame"].update(off)
        pop[:] = tb.select(off, 6)
        self.log(st, pop, gen=gen, nevals=n)


class Islands(Family):
    """examples/ga/onemax_multidemic.py: three demes, eaSimple-shaped generation in each, tools.migRing every other
    generation; the population of the checkpoint is the list of demes."""
    def setup(self):
        creator.create("FitnessC17", base.Fitness, weights=(1.0,))
        creator.create("IndividualC17", list, fitness=creator.FitnessC17)
        tb = self.toolbox
        tb.register("attr_bool", random.randint, 0, 1)
        tb.register("individual", tools.initRepeat, creator.IndividualC17, tb.attr_bool, 16)
        tb.register("population", tools.initRepeat, list, tb.individual)
        tb.register("evaluate", ev_onemax)
        tb.register("mate", tools.cxTwoPoint)
        tb.register("mutate", tools.mutFlipBit, indpb=0.05)
        tb.register("select", tools.selTournament, tournsize=3)
        tb.register("migrate", tools.migRing, k=2, selection=tools.selBest, replacement=random.sample)
        self.stats = self.std_stats()

    def init(self):
        demes = [self.toolbox.population(n=6) for _ in range(3)]
        st = {"population": demes, "generation": 0, "halloffame": self.hof(lambda: tools.HallOfFame(2)), "logbook": self.new_logbook(),
              "strategy": None}
        lb = st["logbook"]
        lb.header = ["gen", "deme", "nevals"] + self.stats.fields
        for i, d in enumerate(demes):
            n = self.evaluate_invalid(d)
            st["halloffame"].update(d)
            lb.record(gen=0, deme=i, nevals=n, **self.stats.compile(d))
        self.stream_text = lb.stream
        return st

    def step(self, st, gen):
        tb = self.toolbox
        lb = st["logbook"]
        for i, d in enumerate(st["population"]):
            off = tb.select(d, len(d))
            off = algorithms.varAnd(off, tb, 0.5, 0.2)
            n = self.evaluate_invalid(off)
            st["halloffame"].update(off)
            d[:] = off
            lb.record(gen=gen, deme=i, nevals=n, **self.stats.compile(d))
        if gen % 2 == 0:
            tb.migrate(st["population"])
        self.stream_text = lb.stream


def ev_bits2(ind):
    return (float(sum(ind)) + 1.0, float(sum(1 for a, b in zip(ind, ind[1:]) if a != b)) + 1.0)


def ev_perm2(ind):
    return (1.0 + sum(1 for i, x in enumerate(ind) if x == i), 1.0 + sum(abs(a - b) == 1 for a, b in zip(ind, ind[1:])))


def ev_real2(ind):
    return (100.0 / (1.0 + sum(x * x for x in ind)), 100.0 / (1.0 + sum((x - 1.0) ** 2 for x in ind)))


GA_OPS = {
    "sel": {
        "tournament": lambda: partial(tools.selTournament, tournsize=3),
        "roulette": lambda: tools.selRoulette,
        "best": lambda: tools.selBest,
        "worst": lambda: tools.selWorst,
        "random": lambda: tools.selRandom,
        "sus": lambda: tools.selStochasticUniversalSampling,
        "double": lambda: partial(tools.selDoubleTournament, fitness_size=3, parsimony_size=1.4, fitness_first=True),
        "lexicase": lambda: tools.selLexicase,
        "eps_lexicase": lambda: partial(tools.selEpsilonLexicase, epsilon=0.5),
        "auto_eps_lexicase": lambda: tools.selAutomaticEpsilonLexicase,
        "nsga2": lambda: tools.selNSGA2,
        "spea2": lambda: tools.selSPEA2,
    },
    "bits": {
        "cx": {"one": lambda: tools.cxOnePoint, "two": lambda: tools.cxTwoPoint, "uniform": lambda: partial(tools.cxUniform, indpb=0.3),
               "messy": lambda: tools.cxMessyOnePoint},
        "mut": {"flip": lambda: partial(tools.mutFlipBit, indpb=0.1), "shuffle": lambda: partial(tools.mutShuffleIndexes, indpb=0.2),
                "uniform_int": lambda: partial(tools.mutUniformInt, low=0, up=1, indpb=0.1), "inversion": lambda: tools.mutInversion},
    },
    "perm": {
        "cx": {"pmx": lambda: tools.cxPartialyMatched, "upmx": lambda: partial(tools.cxUniformPartialyMatched, indpb=0.3),
               "ordered": lambda: tools.cxOrdered},
        "mut": {"shuffle": lambda: partial(tools.mutShuffleIndexes, indpb=0.2), "inversion": lambda: tools.mutInversion},
    },
    "real": {
        "cx": {"blend": lambda: partial(tools.cxBlend, alpha=0.5), "sbx": lambda: partial(tools.cxSimulatedBinary, eta=10.0),
               "sbx_bounded": lambda: partial(tools.cxSimulatedBinaryBounded, eta=10.0, low=-3.0, up=3.0), "two": lambda: tools.cxTwoPoint},
        "mut": {"gaussian": lambda: partial(tools.mutGaussian, mu=0.0, sigma=0.5, indpb=0.3),
                "polynomial": lambda: partial(tools.mutPolynomialBounded, eta=10.0, low=-3.0, up=3.0, indpb=0.3)},
    },
}


def perm_individual(icls, n):
    return icls(random.sample(range(n), n))


class GAOps(Family):
    """eaSimple-shaped or (mu+lambda) loop over a chosen representation and chosen library operators
    (params: repr, sel, cx, mut, loop): enumerates the operators of deap.tools for hidden state."""
    def setup(self):
        p = self.params
        rep = p["repr"]
        creator.create("FitnessC17", base.Fitness, weights=tuple(p.get("weights", (1.0, 1.0))))
        creator.create("IndividualC17", list, fitness=creator.FitnessC17)
        tb = self.toolbox
        if rep == "bits":
            tb.register("attr", random.randint, 0, 1)
            tb.register("individual", tools.initRepeat, creator.IndividualC17, tb.attr, 14)
            tb.register("evaluate", ev_bits2)
        elif rep == "perm":
            tb.register("individual", perm_individual, creator.IndividualC17, 9)
            tb.register("evaluate", ev_perm2)
        else:
            tb.register("attr", random.uniform, -3.0, 3.0)
            tb.register("individual", tools.initRepeat, creator.IndividualC17, tb.attr, 5)
            tb.register("evaluate", ev_real2)
        tb.register("population", tools.initRepeat, list, tb.individual)
        tb.register("mate", GA_OPS[rep]["cx"][p["cx"]]())
        tb.register("mutate", GA_OPS[rep]["mut"][p["mut"]]())
        tb.register("select", GA_OPS["sel"][p["sel"]]())
        self.stats = self.std_stats(axis=0)

    def init(self):
        pop = self.toolbox.population(n=10)
        st = {"population": pop, "generation": 0, "halloffame": self.hof(lambda: tools.ParetoFront()), "logbook": self.new_logbook(),
              "strategy": None}
        n = self.evaluate_invalid(pop)
        st["halloffame"].update(pop)
        self.log(st, pop, gen=0, nevals=n)
        return st

    def step(self, st, gen):
        tb = self.toolbox
        pop = st["population"]
        if self.params.get("loop", "simple") == "simple":
            off = [tb.clone(i) for i in tb.select(pop, len(pop))]
            off = algorithms.varAnd(off, tb, 0.7, 0.4)
            n = self.evaluate_invalid(off)
            st["halloffame"].update(off)
            pop[:] = off
        else:
            off = algorithms.varOr(pop, tb, 12, 0.5, 0.4)
            n = self.evaluate_invalid(off)
            st["halloffame"].update(off)
            pop[:] = tb.select(pop + off, 10)
        self.log(st, pop, gen=gen, nevals=n)


def ev_special(ind):
    tot = 0.0
    for i, x in enumerate(ind):
        x = float(x)
        if x != x or x in (float("inf"), float("-inf")):
            continue
        tot += (i + 1) * math.copysign(min(abs(x), 1e6), x)
    return (tot, float(sum(1 for x in ind if isinstance(x, float) and x == 0.0 and math.copysign(1.0, x) < 0)))


class GASpecial(Family):
    """list individuals whose genes are awkward values that only move around (two-point crossover, index shuffling,
    inversion): -0.0, denormals, huge magnitudes, inf, integers beyond 2**53, numpy scalars of several dtypes, bools;
    weights of magnitude != 1 and mixed sign.  Every gene must come back from every pickle protocol type- and bit-exact."""
    POOL = [-0.0, 0.0, 5e-324, -2.5e-310, 1.7976931348623157e308, float("inf"), float("-inf"), 2 ** 53 + 1, -(2 ** 70), 10 ** 30,
            True, False, 1e9 + 1e-3, 1e9 - 1e-3, 1e-9, 1.0 + 2 ** -40, 1.0, 3]

    def setup(self):
        creator.create("FitnessC17", base.Fitness, weights=(0.3, -2.75))
        creator.create("IndividualC17", list, fitness=creator.FitnessC17)
        tb = self.toolbox
        tb.register("individual", self.make_individual)
        tb.register("population", tools.initRepeat, list, tb.individual)
        tb.register("evaluate", ev_special)
        tb.register("mate", tools.cxTwoPoint)
        tb.register("mutate", self.mutate)
        tb.register("select", tools.selTournament, tournsize=2)
        self.stats = self.std_stats(axis=0)

    def make_individual(self):
        pool = self.POOL + [numpy.float32(0.1), numpy.float64(-0.0), numpy.int8(-7), numpy.int64(2 ** 62), numpy.bool_(True),
                            numpy.float16(1.5)]
        return creator.IndividualC17(random.choice(pool) for _ in range(10))

    def mutate(self, ind):
        if random.random() < 0.5:
            return tools.mutShuffleIndexes(ind, indpb=0.3)
        return tools.mutInversion(ind)

    def init(self):
        pop = self.toolbox.population(n=10)
        st = {"population": pop, "generation": 0, "halloffame": self.hof(lambda: tools.ParetoFront()), "logbook": self.new_logbook(),
              "strategy": None}
        n = self.evaluate_invalid(pop)
        st["halloffame"].update(pop)
        self.log(st, pop, gen=0, nevals=n)
        return st

    def step(self, st, gen):
        tb = self.toolbox
        pop = st["population"]
        off = tb.select(pop, len(pop))
        off = algorithms.varAnd(off, tb, 0.7, 0.5)
        n = self.evaluate_invalid(off)
        st["halloffame"].update(off)
        pop[:] = off
        self.log(st, pop, gen=gen, nevals=n)


class GPHarm(Family):
    """gp.harm (HARM-GP bloat control), one call with ngen=1 per generation, its record merged into the persistent
    logbook (as the packaged loops of algorithms.py in EALoops)."""
    def setup(self):
        GPSym.setup(self)
        self.stats = self.std_stats()

    mutate = GPSym.mutate

    def init(self):
        pop = self.toolbox.population(n=16)
        st = {"population": pop, "generation": 0, "halloffame": self.hof(lambda: tools.HallOfFame(3)), "logbook": self.new_logbook(),
              "strategy": None}
        n = self.evaluate_invalid(pop)
        st["halloffame"].update(pop)
        self.log(st, pop, gen=0, nevals=n)
        return st

    def step(self, st, gen):
        pop, lb = gp.harm(st["population"], self.toolbox, 0.5, 0.2, 1, alpha=0.05, beta=10, gamma=0.25, rho=0.9,
                          stats=self.stats, halloffame=st["halloffame"], verbose=False)
        st["population"] = pop
        rec = dict(lb[-1])
        rec["gen"] = gen
        st["logbook"].record(**rec)
        self.stream_text = st["logbook"].stream


class EALoops(Family):
    """the packaged loops of deap/algorithms.py, one call with ngen=1 per generation (so that a checkpoint can be
    taken between calls); their logbook record is appended to the persistent logbook under the global generation."""

    def setup(self):
        self.loop = self.params.get("loop", "simple")
        self.stats = self.std_stats()
        tb = self.toolbox
        if self.loop == "genupd":
            self.uses_strategy = True
            creator.create("FitnessC17", base.Fitness, weights=(-1.0,))
            creator.create("IndividualC17", list, fitness=creator.FitnessC17)
            tb.register("evaluate", ev_sphere)
            return
        creator.create("FitnessC17", base.Fitness, weights=(1.0,))
        creator.create("IndividualC17", list, fitness=creator.FitnessC17)
        tb.register("attr_bool", random.randint, 0, 1)
        tb.register("individual", tools.initRepeat, creator.IndividualC17, tb.attr_bool, 20)
        tb.register("population", tools.initRepeat, list, tb.individual)
        tb.register("evaluate", ev_onemax)
        tb.register("mate", tools.cxTwoPoint)
        tb.register("mutate", tools.mutFlipBit, indpb=0.1)
        tb.register("select", tools.selTournament, tournsize=3)

    def attach(self, st):
        if self.loop == "genupd":
            self.toolbox.register("generate", st["strategy"].generate, creator.IndividualC17)
            self.toolbox.register("update", st["strategy"].update)

    def call(self, st, ngen):
        tb = self.toolbox
        hof = st["halloffame"]
        if self.loop == "simple":
            return algorithms.eaSimple(st["population"], tb, 0.6, 0.3, ngen, stats=self.stats, halloffame=hof, verbose=False)
        if self.loop == "plus":
            return algorithms.eaMuPlusLambda(st["population"], tb, 10, 14, 0.5, 0.3, ngen, stats=self.stats, halloffame=hof,
                                             verbose=False)
        if self.loop == "comma":
            return algorithms.eaMuCommaLambda(st["population"], tb, 10, 14, 0.5, 0.3, ngen, stats=self.stats, halloffame=hof,
                                              verbose=False)
        return algorithms.eaGenerateUpdate(tb, ngen, halloffame=hof, stats=self.stats, verbose=False)

    def merge(self, st, lb, gen):
        rec = dict(lb[-1])
        rec["gen"] = gen
        st["logbook"].record(**rec)
        self.stream_text = st["logbook"].stream

    def init(self):
        st = {"generation": 0, "halloffame": self.hof(lambda: tools.HallOfFame(3)), "logbook": self.new_logbook(), "strategy": None}
        if self.loop == "genupd":
            st["population"] = []
            st["strategy"] = cma.Strategy(centroid=[2.0] * 4, sigma=1.0, lambda_=8)
            self.attach(st)
            return st
        st["population"] = self.toolbox.population(n=10)
        pop, lb = self.call(st, 0)
        st["population"] = pop
        self.merge(st, lb, 0)
        return st

    def step(self, st, gen):
        pop, lb = self.call(st, 1)
        st["population"] = pop
        self.merge(st, lb, gen)


# --------------------------------------------------------------------------------------------
# the model GA: DEAP operators driven by an explicit draw list (tied to coq/Model/C17_Repro.v)
# --------------------------------------------------------------------------------------------
class ScriptedRandom(object):
    """Stands in for the `random` module inside deap.algorithms / deap.tools.*: every call consumes one raw draw
    (an integer in [0, 2^32)) from an explicit list; the generator state is the cursor."""
    def __init__(self, stream):
        self.stream = list(stream)
        self.cursor = 0
        self.calls = 0

    def _raw(self):
        if self.cursor >= len(self.stream):
            raise RuntimeError("draw stream exhausted")
        r = self.stream[self.cursor]
        self.cursor += 1
        self.calls += 1
        return r

    def random(self):
        return self._raw() / 4294967296.0

    def randint(self, a, b):
        return a + self._raw() % (b - a + 1)

    def choice(self, seq):
        return seq[self._raw() % len(seq)]

    def sample(self, seq, k):
        if k != 2:
            raise AttributeError("ScriptedRandom: sample only for k = 2")
        n = len(seq)
        i = self._raw() % n
        j = self._raw() % (n - 1)
        if j >= i:
            j += 1
        return [seq[i], seq[j]]

    def getstate(self):
        return self.cursor

    def setstate(self, c):
        self.cursor = c

    def __getattr__(self, name):
        raise AttributeError("ScriptedRandom: unexpected draw site random.%s" % name)


def ev_model(ind):
    kind = ev_model.kind
    ones = sum(ind)
    if kind == 0:
        return (ones,)
    lead = 0
    for b in ind:
        if b:
            break
        lead += 1
    return (ones, lead)


ev_model.kind = 0


class ModelGA(Family):
    """eaSimple generation: selTournament, varAnd(cxOnePoint, mutFlipBit), evaluate through toolbox.map, HallOfFame,
    MultiStatistics logbook read through .stream — all draws from the scripted generator."""
    def setup(self):
        p = self.params
        self.proxy = ScriptedRandom(self.spec["stream"])
        import deap.tools.selection as S
        import deap.tools.crossover as X
        import deap.tools.mutation as M
        for mod in (algorithms, S, X, M):
            mod.random = self.proxy
        ev_model.kind = p["evkind"]
        creator.create("FitnessC17", base.Fitness, weights=tuple(float(w) for w in p["weights"]))
        creator.create("IndividualC17", list, fitness=creator.FitnessC17)
        tb = self.toolbox
        tb.register("evaluate", ev_model)
        tb.register("mate", tools.cxOnePoint)
        tb.register("mutate", tools.mutFlipBit, indpb=p["indpb"][0] / float(p["indpb"][1]))
        tb.register("select", tools.selTournament, tournsize=p["tournsize"])
        sf = tools.Statistics(lambda ind: ind.fitness.wvalues[-1])
        ss = tools.Statistics(lambda ind: sum(ind))
        self.stats = tools.MultiStatistics(fit=sf, ones=ss)
        self.stats.register("max", max)
        self.stats.register("min", min)

    def getstate(self):
        return self.proxy.getstate()

    def init(self):
        p = self.params
        pop = [creator.IndividualC17(list(g)) for g in p["pop0"]]
        st = {"population": pop, "generation": 0, "halloffame": self.hof(lambda: tools.HallOfFame(p["hofsize"])),
              "logbook": tools.Logbook(), "strategy": None}
        n = self.evaluate_invalid(pop)
        st["halloffame"].update(pop)
        self.log(st, pop, gen=0, nevals=n)
        return st

    def step(self, st, gen):
        p = self.params
        tb = self.toolbox
        pop = st["population"]
        cxpb, mutpb = p["cxpb"][0] / float(p["cxpb"][1]), p["mutpb"][0] / float(p["mutpb"][1])
        loop = p.get("loop", 0)
        if loop == 0:           # algorithms.eaSimple generation
            off = tb.select(pop, len(pop))
            off = algorithms.varAnd(off, tb, cxpb, mutpb)
            n = self.evaluate_invalid(off)
            st["halloffame"].update(off)
            pop[:] = off
        else:                   # algorithms.eaMuPlusLambda / eaMuCommaLambda generation
            off = algorithms.varOr(pop, tb, p["lambda_"], cxpb, mutpb)
            n = self.evaluate_invalid(off)
            st["halloffame"].update(off)
            pop[:] = tb.select(pop + off if loop == 1 else off, p["mu"])
        self.log(st, pop, gen=gen, nevals=n)

    def observe(self, st):
        """the token list of the objects held by this process: the Python mirror of `save` in
        coq/Model/C17_Repro.v (length-prefixed lists, 0/1 option tags, integers only)"""
        return model_tokens(st, self.proxy.cursor)


def t_list(f, l):
    out = [len(l)]
    for x in l:
        out += f(x)
    return out


def t_zl(l):
    return t_list(lambda z: [exact_int(z)], l)


def exact_int(x):
    i = int(x)
    if i != x:
        raise ValueError("not an integer: %r" % (x,))
    return i


def t_ind(i):
    g = t_list(lambda b: [1 if b else 0], list(i))
    if i.fitness.valid:
        return g + [1] + t_zl(i.fitness.wvalues)
    return g + [0]


def t_sub(lb, keys):
    return t_list(lambda r: t_zl([r[k] for k in keys]), list(lb)) + [lb.buffindex]


def model_tokens(st, cursor):
    hof = st["halloffame"]
    lb = st["logbook"]
    names = {"fit": 0, "ones": 1}
    out = t_list(t_ind, st["population"])
    out += [st["generation"]]
    out += [hof.maxsize] + t_list(t_ind, hof.items) + t_list(lambda k: t_zl(k.wvalues), hof.keys)
    out += t_sub(lb, ["gen", "nevals"])
    out += t_list(lambda kv: [names[kv[0]]] + t_sub(kv[1], ["gen", "nevals", "max", "min"]), list(lb.chapters.items()))
    assert st["strategy"] is None
    out += [0]                      # strategy payload: none in this family
    out += [0]                      # selector memory: none in this family
    out += [cursor, 0]              # numpy.random is never drawn from by this family
    return out


FAMILIES = {"ga": GAList, "ga_array": GAArray, "ga_numpy": GANumpy, "nsga2": NSGA2, "nsga2_np32": NSGA2Np32, "ga_np_int8": GANumpyInt8, "ga_array_f": GAArrayF, "spea2": SPEA2, "nsga3": NSGA3,
            "gp": GPSym, "gp_adf": GPADF, "ga_constrained": GAConstrained, "gp_typed": GPTyped, "cma": CMA, "cma1pl": CMA1PL, "cma_active": CMAActive, "mocma": MOCMA, "ealoops": EALoops, "ga_special": GASpecial, "gp_harm": GPHarm, "es": ES, "islands": Islands, "ga_ops": GAOps, "modelga": ModelGA}

CKPT_KEYS = ["population", "generation", "halloffame", "logbook", "strategy", "rndstate", "nprndstate"]


def boundary(fam, st):
    t = {"population": canon(st["population"]), "archive": canon(st["halloffame"]), "logbook": canon(st["logbook"]),
         "strategy": canon(st["strategy"]), "stream": canon(fam.stream_text),
         "rnd": canon(random.getstate()) if not isinstance(fam, ModelGA) else canon(fam.getstate()),
         "nprnd": canon(numpy.random.get_state())}
    out = {"gen": st["generation"], "sha": {k: sha(v) for k, v in t.items()}}
    if fam.spec.get("keep_text"):
        out["text"] = t
    if isinstance(fam, ModelGA):
        out["obs"] = fam.observe(st)
    return out


def args_sha(args):
    """content fingerprint of the user's argument objects (the private `_ps` tag that StrategyMultiObjective.generate
    documents putting on its parents is not content)"""
    def strip(o):
        if isinstance(o, list) and type(o) is not list and hasattr(o, "__dict__"):
            d = {k: v for k, v in vars(o).items() if k != "_ps"}
            return ("ind", type(o).__name__, [strip(x) for x in o], canon(d))
        if isinstance(o, (list, tuple)):
            return [strip(x) for x in o]
        if isinstance(o, dict):
            return {k: strip(v) for k, v in o.items()}
        return canon(o)
    return sha(repr(strip(args)))


def perturb_allocations(n):
    """a fresh process need not have the allocation history of the first one"""
    keep = []
    for i in range(n):
        keep.append(type("Pad%d" % i, (object,), {"x": i}))
        keep.append(bytearray(1000 + 37 * i))
    return keep


def run(spec):
    out = {"spec": {k: v for k, v in spec.items() if k != "stream"}, "boundaries": [], "error": None, "orders": [],
           "hashseed": os.environ.get("PYTHONHASHSEED"), "pid": os.getpid()}
    keep = perturb_allocations(spec.get("perturb", 0))   # noqa: F841
    fam = FAMILIES[spec["family"]](spec)
    fam.setup()
    fam.args = fam.user_args()
    out["args_sha"] = [args_sha(fam.args)]
    if spec["family"] == "gp_typed" and spec.get("params", {}).get("variant") == "heap":
        # evidence only: the iteration order of a set of the three type objects in THIS process
        out["type_set_order"] = [t.__name__ for t in set([Angle, Ratio, Flag])]
    mode = spec["mode"]
    ngen = spec["ngen"]
    pm = None
    if mode == "pool":
        pm = DelayedPoolMap(spec.get("pool_kind", "mp"), spec["workers"], spec.get("delay_seed", 0), spec=spec)
        pm.record = isinstance(fam, ModelGA)
        fam.toolbox.register("map", pm)

    def seed_all(seed):
        if not isinstance(fam, ModelGA):
            random.seed(seed)
        else:
            fam.proxy.setstate(0)
        numpy.random.seed(seed % (2 ** 32))

    def checkpoint_dict(st):
        return dict(population=st["population"], generation=st["generation"], halloffame=st["halloffame"],
                    logbook=st["logbook"], strategy=st["strategy"],
                    rndstate=(fam.getstate() if isinstance(fam, ModelGA) else random.getstate()),
                    nprndstate=numpy.random.get_state())

    def advance(st, last, sink):
        for gen in range(st["generation"] + 1, last + 1):
            fam.step(st, gen)
            st["generation"] = gen
            sink.append(boundary(fam, st))
            if spec.get("pickle_every_gen"):
                # the script writes (and an observer reads back) a checkpoint after every generation and goes on:
                # neither pickling nor unpickling in this process may disturb the run
                for p in spec["pickle_every_gen"]:
                    pickle.loads(pickle.dumps(checkpoint_dict(st), p))

    try:
        if mode == "resume":
            with open(os.path.join(spec["ckpt"], spec.get("ckpt_file") or "k%d_p%d.pkl" % (spec["k"], spec["protocol"])), "rb") as f:
                cp = pickle.load(f)
            st = {k: cp[k] for k in CKPT_KEYS[:5]}
            if isinstance(fam, ModelGA):
                fam.proxy.setstate(cp["rndstate"])
            else:
                random.setstate(cp["rndstate"])
            numpy.random.set_state(cp["nprndstate"])
            fam.attach(st)
            # the text streamed so far is not state; the first boundary of a resumed run is compared without it
            out["boundaries"].append(boundary(fam, st))
        elif mode == "interleave":
            # two evolutions (two seeds) advance alternately in ONE process: same toolbox / primitive set / classes and the
            # same user argument objects; the script swaps both generator states around every generation
            clients = []
            for seed, key in ((spec["seed"], "boundaries"), (spec["seed2"], "boundaries_b")):
                seed_all(seed)
                fam.stream_text = None
                st = fam.init()
                out.setdefault(key, [])
                out[key].append(boundary(fam, st))
                clients.append({"st": st, "key": key, "rnd": random.getstate(), "np": numpy.random.get_state(),
                                "stream": fam.stream_text})
            for gen in range(1, ngen + 1):
                for c in clients:
                    random.setstate(c["rnd"])
                    numpy.random.set_state(c["np"])
                    fam.attach(c["st"])
                    fam.stream_text = c["stream"]
                    fam.step(c["st"], gen)
                    c["st"]["generation"] = gen
                    out[c["key"]].append(boundary(fam, c["st"]))
                    c["rnd"], c["np"], c["stream"] = random.getstate(), numpy.random.get_state(), fam.stream_text
            st = clients[0]["st"]
        else:
            seed_all(spec["seed"])
            st = fam.init()
            out["boundaries"].append(boundary(fam, st))
        if mode != "interleave":
            last = spec["k"] if mode == "save" else spec.get("stop_k", ngen)
            advance(st, last, out["boundaries"])
        out["args_sha"].append(args_sha(fam.args))
        if mode == "twice":
            # the same process, the same toolbox / primitive set / classes, the SAME user argument objects and the same
            # archive object (emptied with clear()), seeded identically once more
            fam.stream_text = None
            fam.reuse_hof = st["halloffame"]
            seed_all(spec["seed"])
            st = fam.init()
            out["boundaries_b"] = [boundary(fam, st)]
            advance(st, ngen, out["boundaries_b"])
            out["args_sha"].append(args_sha(fam.args))
        if mode == "save" or spec.get("save_as"):
            out["unsupported_protocols"] = {}
            if isinstance(fam, ModelGA):
                out["ckpt_tokens"] = fam.observe(st)
            for p in spec["protocols"]:
                cp = checkpoint_dict(st)
                path = os.path.join(spec["ckpt"], spec.get("save_as") or "k%d_p%d.pkl" % (spec["k"], p))
                try:
                    blob = pickle.dumps(cp, p)
                except Exception as e:   # noqa
                    out["unsupported_protocols"][str(p)] = "%s: %s" % (type(e).__name__, str(e)[:300])
                    continue
                with open(path, "wb") as f:
                    f.write(blob)
    except Exception as e:   # noqa
        out["error"] = {"type": type(e).__name__, "msg": str(e)[:500], "tb": traceback.format_exc()[-2500:],
                        "at_gen": len(out["boundaries"])}
    if pm is not None:
        out["orders"] = pm.orders
        if pm.record:
            out["calls"] = pm.calls
        out["worker_pids"] = len(pm.pids)
        try:
            pm.close()
        except Exception:   # noqa
            pass
    return out


def main():
    with open(sys.argv[1]) as f:
        spec = json.load(f)
    out = run(spec)
    tmp = spec["out"] + ".tmp"
    with open(tmp, "w") as f:
        json.dump(out, f)
        f.flush()
        os.fsync(f.fileno())
    os.rename(tmp, spec["out"])
    if spec["mode"] == "save" or spec.get("save_as"):
        os._exit(0)          # the process is killed right after the checkpoint: no atexit, no finalisers


if __name__ == "__main__":
    main()
