"""C11 — GP trees stay well-formed, well-typed and within limits under all operators (deap/gp.py).

Three parts per case:
  * DEAP is run with `deap.gp.random` replaced by a logging proxy (seeded or scripted source),
  * the property statement is evaluated directly on what DEAP returned (independent recursive
    parser / type checker / depth computation written here, no Coq model involved),
  * the inputs, the recorded draws and the observed outputs become a term of Corr.C11.case that
    coqc re-evaluates with the model.
"""
import copy
import functools
import json
import os
import itertools
import math
import warnings
from collections import defaultdict
import operator
from fractions import Fraction

import vlib
from vlib import cz, cnat, cbool, clist, copt, cpair

GEN = os.path.join(vlib.COQ, "Gen", "C11_gen.v")


def regen(repo=None):
    """Tie (T): regenerate coq/Gen/C11_gen.v from the working tree's deap/gp.py.
    Returns (ok, message, status) -- status: regenerated definition -> None (translated) | Refuse (placeholder = hand
    model); ok is False when nothing could be translated."""
    import c11_py2coq
    repo = repo or vlib.REPO
    try:
        txt, status = c11_py2coq.translate_repo(repo)
    except Exception as e:  # noqa  (a translator crash is a refusal of everything: fail closed)
        r = c11_py2coq.Refuse("Module", "translator error %s: %s" % (type(e).__name__, e))
        txt, status = c11_py2coq.translate_source("\x00")      # does not parse: all placeholders
        status = {k: r for k in status}
    with vlib.BuildLock():
        os.makedirs(os.path.dirname(GEN), exist_ok=True)
        old = open(GEN).read() if os.path.exists(GEN) else None
        if old != txt:
            with open(GEN, "w") as f:
                f.write(txt)
    done = [k for k, v in status.items() if v is None]
    refused = ["%s (%s)" % (k, v) for k, v in status.items() if v is not None]
    msg = "regenerated: %s" % (", ".join(done) or "nothing")
    if refused:
        msg += "; translator refused: " + "; ".join(refused)
    return bool(done), msg, status


# --------------------------------------------------------------------------- types used in typed sets
class TA(object):
    pass


class TB(TA):
    pass


class TC(object):
    pass


class TD(TB):
    pass


TYPE_POOL = [TA, TB, TC, TD, int, bool, float]      # bool is a subclass of int, TD < TB < TA


# --------------------------------------------------------------------------- random sources and proxy
class RandSrc(object):
    def __init__(self, rng):
        self.rng = rng

    def below(self, n, site):
        return self.rng.randrange(n)

    def eph_index(self):
        return self.rng.randrange(len(EPH_VALUES))

    def unit(self):
        # dyadic values, including the extremes 0.0 and 1 - 2^-53, and hits of common thresholds
        r = self.rng.random()
        if r < 0.05:
            return 0.0
        if r < 0.1:
            return 1.0 - 2.0 ** -53
        if r < 0.2:
            v = float(self.rng.choice(THRESHOLDS))   # random.random() is always in [0, 1)
            return v if 0.0 <= v < 1.0 else (1.0 - 2.0 ** -53 if v >= 1.0 else 0.0)
        return self.rng.randrange(1 << 20) / float(1 << 20)


THRESHOLDS = [0.5]
UNIT_OPTIONS = [0.0, 0.25, 0.5, 0.96875]


class ScriptSrc(object):
    """Scripted source for exhaustive enumeration of draw outcomes: the k-th draw takes script[k]
    (0 when the script is exhausted) and records how many options the site had."""

    def __init__(self, script, unit_options=None):
        self.script = list(script)
        self.counts = []
        self.unit_options = unit_options or UNIT_OPTIONS

    def _next(self, n):
        k = len(self.counts)
        self.counts.append(n)
        v = self.script[k] if k < len(self.script) else 0
        return v % n

    def below(self, n, site):
        return self._next(n)

    def eph_index(self):
        return [3, 7, 0][self._next(3)]       # 0, 2**60, -3

    def unit(self):
        return self.unit_options[self._next(len(self.unit_options))]


class Proxy(object):
    """Stands in for the `random` module inside deap.gp; logs every call."""

    def __init__(self, src):
        self.src = src
        self.log = []

    def random(self):
        u = self.src.unit()
        self.log.append(("random", u))
        return u

    def randint(self, a, b):
        if b < a:
            raise ValueError("empty range for randint")
        r = a + self.src.below(b - a + 1, "randint")
        self.log.append(("randint", a, b, r))
        return r

    def randrange(self, a, b=None):
        if b is None:
            a, b = 0, a
        if b <= a:
            raise ValueError("empty range for randrange")
        r = a + self.src.below(b - a, "randrange")
        self.log.append(("randrange", a, b, r))
        return r

    def choice(self, seq):
        n = len(seq)
        if n == 0:
            raise IndexError("Cannot choose from an empty sequence")
        i = self.src.below(n, "choice")
        x = seq[i]
        self.log.append(("choice", n, i, x))
        return x

    def eph(self, key):
        v = EPH_VALUES[self.src.eph_index()]
        self.log.append(("eph", key, v))
        return v


EPH_VALUES = [-3, -2, -1, 0, 1, 2, 3, 2 ** 60, -2 ** 63, 2 ** 53 + 1]     # incl. ints beyond 2**53
CUR = [None]       # proxy in force (ephemeral generators read it)


class LogDD(defaultdict):
    """pset.primitives / pset.terminals with the defaultdict side effect made visible: a read of a missing key
    is logged (it creates the key with an empty list)"""

    def __init__(self, log, tag, items):
        defaultdict.__init__(self, list)
        self.update(items)
        self.log, self.tag = log, tag

    def __missing__(self, k):
        self.log.append((self.tag, k))
        return defaultdict.__missing__(self, k)


class EphFn(object):
    """generator function of an ephemeral constant: value comes from the current proxy"""

    def __init__(self, key):
        self.key = key
        self.__name__ = "eph_" + key

    def __call__(self):
        return CUR[0].eph(self.key)


# --------------------------------------------------------------------------- primitive sets
class PS(object):
    """A deap pset plus the numbering used in the Coq terms."""
    counter = [0]

    def __init__(self, gp, typed, rng, gappy=False, small=False, builder=None):
        self.gp = gp
        PS.counter[0] += 1
        self.k = PS.counter[0]
        self.name = "ps%d" % self.k
        self.typed = typed
        self.universe = []          # node objects (Primitive / Terminal instances, ephemeral classes)
        self.ephkey = {}
        self.addlog = []            # (node, isinstance(node, Primitive)) in the order of the _add calls
        self.seqlog = []            # ('add', node, is_primitive) | ('tp', type) | ('tt', type): adds and defaultdict reads
        self.snapshots = []
        orig = gp.PrimitiveSetTyped._add

        def recording_add(pset_self, prim):
            self.addlog.append((prim, isinstance(prim, gp.Primitive)))
            self.seqlog.append(("add", prim, isinstance(prim, gp.Primitive)))
            return orig(pset_self, prim)
        gp.PrimitiveSetTyped._add = recording_add
        try:
            if builder is not None:
                builder(self, gp, rng)
            elif typed:
                self._build_typed(rng, gappy, small)
            else:
                self._build_untyped(rng, small)
        finally:
            gp.PrimitiveSetTyped._add = orig
        self.index()

    def _fn(self, *a):
        return 0

    def _build_untyped(self, rng, small):
        gp = self.gp
        nargs = rng.randint(0, 2)
        ps = gp.PrimitiveSet("MAIN", nargs)
        arities = [1, 2] if small else [rng.randint(1, 3) for _ in range(rng.randint(1, 4))]
        if not small and rng.random() < 0.5 and 3 not in arities:
            arities.append(3)
        for i, a in enumerate(arities):
            ps.addPrimitive(self._fn, a, name="p%d" % i)
        nterm = 1 if small else rng.randint(0 if nargs else 1, 3)
        for i in range(nterm):
            ps.addTerminal(100 + i)
        neph = rng.randint(0, 1) if small else rng.randint(0, 2)
        for i in range(neph):
            key = "e%d_%d" % (self.k, i)
            ps.addEphemeralConstant(key, EphFn(key))
        self.pset = ps
        self.types = [object]

    def _build_typed(self, rng, gappy, small):
        gp = self.gp
        while True:
            nty = 2 if small else rng.randint(2, 4)
            tys = rng.sample(TYPE_POOL, nty)
            if any(a is not b and issubclass(a, b) for a in tys for b in tys):
                break
        in_types = [rng.choice(tys) for _ in range(rng.randint(0, 2))]
        ret = rng.choice(tys)
        ps = gp.PrimitiveSetTyped("MAIN", in_types, ret)
        nprim = rng.randint(1, 2) if small else rng.randint(2, 6)
        np_, nt_, ne_ = 0, 0, 0
        for _ in range(nprim):
            ar = rng.randint(1, 2 if small else 3)
            r = rng.choice(tys)
            args = [r if rng.random() < 0.4 else rng.choice(tys) for _ in range(ar)]
            ps.addPrimitive(self._fn, args, r, name="p%d" % np_)
            np_ += 1
            if rng.random() < 0.6:
                # a twin: same arity and return type (or a subtype), one argument type changed, so that
                # "same number of arguments" and "same argument types" differ
                j = rng.randrange(ar)
                others = [t for t in tys if t is not args[j]]
                if others:
                    args2 = list(args)
                    args2[j] = rng.choice(others)
                    r2 = rng.choice([t for t in tys if issubclass(t, r)])
                    ps.addPrimitive(self._fn, args2, r2, name="p%d" % np_)
                    np_ += 1
        for _ in range(rng.randint(0, 2) if small else rng.randint(1, 4)):
            ps.addTerminal(100 + nt_, rng.choice(tys))
            nt_ += 1
        for _ in range(rng.randint(0, 1) if small else rng.randint(0, 2)):
            key = "e%d_%d" % (self.k, ne_)
            ps.addEphemeralConstant(key, EphFn(key), rng.choice(tys))
            ne_ += 1
        if not gappy:
            # offer a terminal and a primitive wherever the generator can ask for one
            changed = True
            while changed:
                changed = False
                for t in list(ps.terminals.keys()) + [ret]:
                    if len(ps.terminals.get(t, [])) == 0:
                        ps.addTerminal(100 + nt_, t)
                        nt_ += 1
                        changed = True
                    if len(ps.primitives.get(t, [])) == 0:
                        ar = rng.randint(1, 2)
                        ps.addPrimitive(self._fn, [t if rng.random() < 0.5 else rng.choice(tys) for _ in range(ar)], t,
                                        name="p%d" % np_)
                        np_ += 1
                        changed = True
        self.pset = ps
        self.types = tys

    def index(self):
        gp, ps = self.gp, self.pset
        # type numbering: object = 0
        self.tid = {object: 0}
        self.universe = []
        self.nid = {}

        def ty(t):
            if t not in self.tid:
                self.tid[t] = len(self.tid)
            return self.tid[t]

        def add(x):
            if id(x) not in self.nid:
                # nodes that compare equal (Primitive/Terminal.__eq__ on the slots: duplicates added twice) are ONE
                # node for the code (`item not in new_list`), hence one id
                if not self.is_eph_class(x):
                    for j, y in enumerate(self.universe):
                        if not self.is_eph_class(y) and type(y) is type(x) and y == x:
                            self.nid[id(x)] = j
                            return
                self.nid[id(x)] = len(self.universe)
                self.universe.append(x)
                ty(x.ret)
                for a in getattr(x, "args", []) if isinstance(x, gp.Primitive) else []:
                    ty(a)
        for d in (ps.primitives, ps.terminals):
            for t in list(d.keys()):
                ty(t)
                for x in d[t]:
                    add(x)
        ty(ps.ret)
        self.prim_tbl = {t: list(l) for t, l in ps.primitives.items()}
        self.term_tbl = {t: list(l) for t, l in ps.terminals.items()}
        # the float the implementation compares random.random() with, computed from the counts
        total = ps.terms_count + ps.prims_count
        self.ratio = Fraction(ps.terms_count / float(total)) if total else Fraction(1, 2)

    def is_eph_class(self, x):
        return type(x) is self.gp.MetaEphemeral

    def lit1(self, x):
        if isinstance(type(x), self.gp.MetaEphemeral):
            return (self.nid[id(type(x))], int(x.value))
        return (self.nid[id(x)], 0)

    def lit(self, tree):
        return [self.lit1(x) for x in tree]

    def coq_defs(self):
        gp = self.gp
        nodes = []
        for i, x in enumerate(self.universe):
            args = [self.tid[a] for a in x.args] if isinstance(x, gp.Primitive) else []
            nodes.append("nd %d %s %d %s" % (i, clist(["%d" % a for a in args]), self.tid[x.ret],
                                             cbool(self.is_eph_class(x))))

        def tbl(d):
            return clist(["(%d, %s)" % (self.tid[t], clist(["%d" % self.nid[id(x)] for x in l])) for t, l in d.items()])
        u = "Definition U%d : list node := %s.\n" % (self.k, clist(nodes))
        p = "Definition P%d : pset := mkps U%d %s %s %d %d %d%%positive.\n" % (
            self.k, self.k, tbl(self.prim_tbl), tbl(self.term_tbl), self.tid[self.pset.ret],
            self.ratio.numerator, self.ratio.denominator)
        pairs = ["(%d,%d)" % (i, j) for a, i in self.tid.items() for b, j in self.tid.items() if issubclass(a, b)]
        sdef = "Definition S%d : list (Z * Z) := %s.\n" % (self.k, clist(pairs))
        return u + p + sdef

    def pset_term(self):
        """Corr term: the _add sequence and the tables it produced"""
        ops = ["(%s,%d)" % (cbool(isp), self.nid[id(x)]) for x, isp in self.addlog]

        def tbl(d):
            return clist(["(%d, %s)" % (self.tid[t], clist(["%d" % self.nid[id(x)] for x in l])) for t, l in d.items()])
        return "CPset U%d S%d %s %s %s %d %d" % (self.k, self.k, clist(ops), tbl(self.prim_tbl), tbl(self.term_tbl),
                                              self.pset.terms_count, self.pset.prims_count)

    def table_problems(self):
        """independent statement of what the tables must hold: at every registered type exactly the
        added nodes of that kind whose return type is a subclass, once each"""
        out = []
        for kind, d in ((True, self.prim_tbl), (False, self.term_tbl)):
            added = [x for x, isp in self.addlog if isp == kind]
            for t, l in d.items():
                want = [x for x in added if issubclass(x.ret, t)]
                if set(self.nid[id(x)] for x in l) != set(self.nid[id(x)] for x in want):
                    out.append("%s[%s] holds %r, expected %r" % ("primitives" if kind else "terminals", t.__name__,
                                                                   [x.name for x in l], [x.name for x in want]))
        return out

    def describe(self):
        gp = self.gp

        def nm(t):
            return t.__name__
        return {"typed": self.typed, "ret": nm(self.pset.ret),
                "nodes": [(x.name, [nm(a) for a in x.args] if isinstance(x, gp.Primitive) else None, nm(x.ret),
                           self.is_eph_class(x)) for x in self.universe]}


def build_arith(self, gp, rng=None):
    """loosely typed: add/2, neg/1, two arguments -- chains neg(neg(x)) and bushy add(x, y) have equal size and
    different height"""
    ps = gp.PrimitiveSet("MAIN", 2)
    ps.addPrimitive(self._fn, 2, name="add")
    ps.addPrimitive(self._fn, 1, name="neg")
    self.pset = ps
    self.types = [object]


def build_chain(self, gp, rng=None):
    """strongly typed over the subclass chain TA > TB > TD with "twin" primitives whose parameters are
    subclass-related (co-/contravariant candidates for node replacement)"""
    ps = gp.PrimitiveSetTyped("MAIN", [], TA)
    for name, args, ret in [("ida", [TA], TA), ("fromb", [TB], TA), ("fromd", [TD], TA), ("idb", [TB], TB),
                            ("btoa", [TA], TB), ("dtob", [TB], TD), ("two", [TA, TA], TA), ("twob", [TB, TA], TA),
                            ("twod", [TA, TD], TB)]:
        ps.addPrimitive(self._fn, args, ret, name=name)
    ps.addTerminal(1, TA, name="a")
    ps.addTerminal(2, TB, name="b")
    ps.addTerminal(3, TD, name="d")
    self.pset = ps
    self.types = [TA, TB, TD]


# --------------------------------------------------------------------------- literals
def clit(l):
    return clist(["(%d,%d)" % (a, b) if b >= 0 else "(%d,(%d))" % (a, b) for a, b in l])


def cdraws(ps, log):
    out = []
    for e in log:
        k = e[0]
        if k == "random":
            f = Fraction(e[1])
            out.append("DRandom %d %d%%positive" % (f.numerator, f.denominator))
        elif k == "randint":
            out.append("DRandint %s %s %s" % (cz(e[1]), cz(e[2]), cz(e[3])))
        elif k == "randrange":
            out.append("DRandrange %s %s %s" % (cz(e[1]), cz(e[2]), cz(e[3])))
        elif k == "choice":
            out.append("DChoice %d %d" % (e[1], e[2]))
        elif k == "eph":
            cls = ps.pset.mapping[e[1]]
            out.append("DE %d %s" % (ps.nid[id(cls)], cz(e[2])))
    return clist(out)


def coutcome(o, f):
    if o[0] == "ok":
        return "(OOk %s)" % f(o[1])
    return "OIndexError" if o[1] == "IndexError" else "OValueError"


def cgexpr(g):
    return "(mkgexpr %s %s %s)" % ({"full": "KFull", "grow": "KGrow", "half": "KHalf", "ramped": "KHalf"}[g[0]], cz(g[1]), cz(g[2]))


def cop(op):
    k = op[0]
    if k == "cx":
        return "OCx"
    if k == "cxlb":
        f = Fraction(op[1])
        return "(OCxLB %s %d%%positive)" % (cz(f.numerator), f.denominator)
    if k == "cxsame":
        return "OCxSame"
    if k == "cxlbsame":
        f = Fraction(op[1])
        return "(OCxLBSame %s %d%%positive)" % (cz(f.numerator), f.denominator)
    if k == "uniform":
        return "(OMutUniform %s)" % cgexpr(op[1])
    if k == "noderepl":
        return "OMutNodeRepl"
    if k == "eph":
        return "(OMutEph %s)" % {"one": "EOne", "all": "EAll"}.get(op[1], "EOther")
    if k == "insert":
        return "OMutInsert"
    if k == "shrink":
        return "OMutShrink"
    raise ValueError(k)


# --------------------------------------------------------------------------- independent oracle
def parse(nodes, i=0):
    """independent recursive parser: (root index, children, end); raises ValueError if incomplete"""
    if i >= len(nodes):
        raise ValueError("incomplete")
    kids = []
    j = i + 1
    for _ in range(nodes[i].arity):
        k = parse(nodes, j)
        kids.append(k)
        j = k[2]
    return (i, kids, j)


def structure_problems(gp, nodes, expected):
    """[] iff `nodes` is a complete prefix expression whose every argument has a type accepted by
    its parent and whose root is accepted at `expected`."""
    if len(nodes) == 0:
        return ["empty tree"]
    try:
        t = parse(nodes)
    except ValueError:
        return ["incomplete prefix expression"]
    if t[2] != len(nodes):
        return ["orphan nodes after the expression (%d of %d used)" % (t[2], len(nodes))]
    out = []

    def rec(t, exp):
        n = nodes[t[0]]
        if not issubclass(n.ret, exp):
            out.append("node %d (%s) returns %s, parent expects %s" % (t[0], n.name, n.ret.__name__, exp.__name__))
        if t[1]:
            for k, a in zip(t[1], n.args):
                rec(k, a)
    rec(t, expected)
    return out


def depths(nodes):
    """(height, leaf depths) by the recursive definition"""
    t = parse(nodes)
    leaves = []

    def rec(t, d):
        if not t[1]:
            leaves.append(d)
            return d
        return max(rec(k, d + 1) for k in t[1])
    return rec(t, 0), leaves


def reachable_gap(ps, type_):
    """is there a type reachable from type_ through primitive arguments at which the set offers no
    terminal or no primitive?  (then IndexError from generate is the documented behaviour)"""
    seen, todo = set(), [type_]
    while todo:
        t = todo.pop()
        if t in seen:
            continue
        seen.add(t)
        prims = ps.pset.primitives.get(t, [])
        terms = ps.pset.terminals.get(t, [])
        if not prims or not terms:
            return True
        for p in prims:
            todo.extend(p.args)
    return False


def enum_trees(ps, type_, maxnodes):
    """all complete well-typed trees (as node lists, ephemerals instantiated with value 1) with at
    most maxnodes nodes, root accepted at type_"""
    gp = ps.gp
    memo = {}

    def inst(x):
        if ps.is_eph_class(x):
            old = CUR[0]
            CUR[0] = Proxy(ScriptSrc([4]))
            try:
                return x()
            finally:
                CUR[0] = old
        return x

    def trees(t, n):
        key = (t, n)
        if key in memo:
            return memo[key]
        out = []
        if n >= 1:
            for x in ps.pset.terminals.get(t, []):
                out.append([x])
            for p in ps.pset.primitives.get(t, []):
                if p.arity + 1 <= n and p.arity > 0:
                    for kids in forests(list(p.args), n - 1):
                        out.append([p] + kids)
        memo[key] = out
        return out

    def forests(args, n):
        if not args:
            return [[]]
        out = []
        rest = len(args) - 1
        for first in trees(args[0], n - rest):
            for others in forests(args[1:], n - len(first)):
                out.append(first + others)
        return out
    return [[inst(x) for x in t] for t in trees(type_, maxnodes)]


# --------------------------------------------------------------------------- main
def main(run):
    from deap import gp, base
    rng = run.rng
    run.rule = ("primitive sets: untyped (arities 1..3, terminals, ephemerals, 0..2 arguments) and strongly typed with 2..4 "
                "Python types containing a subclass pair (pool TA>TB>TD, TC, int>bool, float), some deliberately 'gappy' "
                "(no terminal/primitive at a reachable type: IndexError branch); generators full/grow/half for all "
                "0 <= min <= max <= 6 (thorough) or a sample (quick); every operator on pairs of generated trees with seeded "
                "draws, on all trees of <= 5 nodes of small sets with ALL draw outcomes enumerated, and wrapped by staticLimit "
                "(height and len keys, limits around the input measures); searchSubtree at every index and height on every tree, "
                "plus truncated lists for the error branches. A case is distinct by pset, inputs and draws; non-trivial = some "
                "tree has more than one node.")
    run.trusted += ["Coq 8.16.1 kernel and vm_compute",
                    "hand-written model coq/Model/C11_GPTree.v (+ C11_PSet.v) tied by correspondence (harness/c11.py)",
                    "logging proxy standing in for the `random` module inside deap.gp; CPython list slicing, defaultdict, "
                    "issubclass and random's range guarantees",
                    "float comparison `random.random() < p` modelled exactly on the rational values of the two floats"]
    run.assumptions += ["the primitive set offers a primitive and a terminal at every type the generator asks for (else IndexError, "
                        "modelled as the EEmpty branch)",
                        "strongly typed sets whose root type is `object` are excluded (DESIGN Appendix B 7)",
                        "primitives have arity >= 1, 0 <= min <= max"]
    run.build_props()
    # ---- tie (T): regenerate Gen/C11_gen.v from the working tree, re-prove `regenerated = model` and the theorems
    gen_check = "check"
    ok, msg, status = regen()
    refused = {k: v for k, v in status.items() if v is not None}
    run.extra_cov["regenerated_functions"] = [k for k, v in status.items() if v is None]
    run.extra_cov["translator_refused"] = {k: str(v) for k, v in refused.items()}
    for k, v in refused.items():
        run.notes.append("tie: correspondence-only (translator refused %s at line %s in %s: %s)" % (v.node, v.line, k, v.why))
    if ok:
        gen_ok = run.build_props(props="Props/C11_gen.v")
        if gen_ok:
            gen_check = "check_both"
            run.notes.append("tie: regenerated (%s)" % ", ".join(run.extra_cov["regenerated_functions"]))
            run.extra_cov["tie"] = ("translation (regenerated definitions proved equal to the hand model: %s) + correspondence%s"
                                    % (", ".join(run.extra_cov["regenerated_functions"]),
                                       "; correspondence-only for " + ", ".join(sorted(refused)) if refused else ""))
            run.trusted.append("translator harness/c11_py2coq.py and its signature table (source text of deap/gp.py -> "
                               "coq/Gen/C11_gen.v) with the statement vocabulary coq/Model/C11_GenRt.v; the regenerated "
                               "definitions are proved equal to the hand model (Proofs/C11_gen_equiv.v) and evaluated against "
                               "the implementation on every run")
        else:
            run.extra_cov["tie"] = "translator succeeded but the regenerated definitions are no longer (provably) the model"
            try:        # keep the offending text for the replay
                with open(os.path.join(run.rundir, "C11_gen.v.broken"), "w") as f:
                    f.write(open(GEN).read())
            except OSError:
                pass
    else:
        run.extra_cov["tie"] = "correspondence-only (%s)" % msg

    groups = {}          # pset.k -> (PS, terms, cases)
    psdesc = {}          # pset name -> description (cases only carry the name, to keep memory small)

    def viol(what, case, **kw):
        c = dict(case)
        if isinstance(c.get("pset"), str):
            c["pset"] = psdesc.get(c["pset"], c["pset"])
        run.oracle_violation(what, c, **kw)

    def emit(ps, term, case, nontrivial=True):
        if ps.name not in psdesc:
            psdesc[ps.name] = ps.describe()
        if ps.k not in groups:
            groups[ps.k] = (ps, [], [], ps.coq_defs())
        g = groups[ps.k]
        g[1].append(term)
        g[2].append(case)
        run.note_case(case, nontrivial, sample=case if len(g[1]) % 211 == 1 else None)

    def with_proxy(src, fn):
        """run fn() with deap.gp.random replaced; returns (outcome, log)"""
        px = Proxy(src)
        saved = gp.random
        gp.random = px
        CUR[0] = px
        try:
            try:
                return ("ok", fn()), px.log
            except IndexError:
                return ("raise", "IndexError"), px.log
            except ValueError:
                return ("raise", "ValueError"), px.log
            except Exception as e:  # noqa -- anything else is reported as a failing input by the callers
                return ("raise", type(e).__name__), px.log
        finally:
            gp.random = saved
            CUR[0] = None

    def tree_of(nodes):
        return gp.PrimitiveTree(list(nodes))

    def names(ps, tree):
        return ["%s=%s" % (x.name, getattr(x, "value", "")) if isinstance(type(x), gp.MetaEphemeral) else x.name for x in tree]

    def root_type(ps, tree):
        return ps.pset.ret

    wt_budget = [run.scale(1500, 8000)]

    def wt_case(ps, nodes, expected, force=False):
        """the theorem vocabulary (complete / well typed at `expected`) evaluated by Coq on this very list
        must agree with the independent checker used by the oracle"""
        if not force:
            if wt_budget[0] <= 0 or len(nodes) > 80 or rng.random() < 0.5:
                return
        wt_budget[0] -= 1
        probs = structure_problems(gp, nodes, expected)
        oc = not any(("incomplete" in p_) or ("orphan" in p_) or ("empty" in p_) for p_ in probs)
        case = {"kind": "wt", "pset": ps.name, "tree": names(ps, nodes), "expected": expected.__name__, "observed": [oc, not probs]}
        emit(ps, "CWt U%d S%d %d %s %s %s" % (ps.k, ps.k, ps.tid[expected], clit(ps.lit(nodes)), cbool(oc), cbool(not probs)), case,
             len(nodes) > 1)

    def wt_corrupted(ps, nodes, expected):
        nodes = list(nodes)
        if len(nodes) > 1:
            wt_case(ps, nodes[:rng.randint(1, len(nodes) - 1)], expected, force=True)
            wt_case(ps, nodes + [nodes[-1]], expected, force=True)
        i = rng.randrange(len(nodes))
        cands = [x for x in ps.universe if not ps.is_eph_class(x) and x.arity == nodes[i].arity and x is not nodes[i]]
        if cands:
            wt_case(ps, nodes[:i] + [rng.choice(cands)] + nodes[i + 1:], expected, force=True)
        for t_ in list(ps.tid)[:3]:
            wt_case(ps, nodes, t_, force=True)

    # ---------------------------------------------------------------- generators
    def gen_ramped(*a, **k):
        # deprecated alias, still exported
        with warnings.catch_warnings():
            warnings.simplefilter("ignore")
            return gp.genRamped(*a, **k)
    GENS = {"full": gp.genFull, "grow": gp.genGrow, "half": gp.genHalfAndHalf, "ramped": gen_ramped}

    def gen_case(ps, kind, mn, mx, type_, src):
        out, log = with_proxy(src, lambda: GENS[kind](ps.pset, mn, mx, type_))
        t_eff = ps.pset.ret if type_ is None else type_
        case = {"kind": "gen", "pset": ps.name, "gen": kind, "min": mn, "max": mx,
                "type": None if type_ is None else type_.__name__, "draws": [e[:3] if e[0] == "choice" else e for e in log]}
        if out[0] == "raise":
            case["observed"] = out[1]
            if not (out[1] == "IndexError" and reachable_gap(ps, t_eff)):
                viol("generator raised %s although the set offers nodes at every reachable type" % out[1], case)
            lit = None
            if out[1] not in ("IndexError", "ValueError"):
                run.note_case(case)
                return None
        else:
            expr = out[1]
            case["observed"] = names(ps, expr)
            probs = structure_problems(gp, expr, t_eff)
            if probs:
                viol("generated expression is not a complete well-typed prefix expression: " + probs[0], case)
            else:
                h, leaves = depths(expr)
                if not (mn <= h <= mx):
                    viol("generated height %d outside [%d, %d]" % (h, mn, mx), case)
                actual_full = kind == "full" or (kind in ("half", "ramped") and log[0][2] == 1)
                if actual_full and any(d != h for d in leaves):
                    viol("full generator: leaves at different depths %r" % (sorted(set(leaves)),), case)
                if not actual_full and any(d < mn for d in leaves):
                    viol("grow generator: leaf shallower than min (%d < %d)" % (min(leaves), mn), case)
                if gp.PrimitiveTree(expr).height != h:
                    viol("reported height %d differs from depth of deepest node %d" % (gp.PrimitiveTree(expr).height, h), case)
            lit = ps.lit(expr)
            wt_case(ps, expr, t_eff)
        term = "CGen U%d P%d %s %s %s %s" % (ps.k, ps.k, cgexpr((kind, mn, mx)),
                                            copt(None if type_ is None else ps.tid[type_], lambda v: "%d" % v),
                                            cdraws(ps, log), coutcome(out if lit is None else ("ok", lit), clit))
        emit(ps, term, case, nontrivial=(lit is not None and len(lit) > 1))
        return None if lit is None else tree_of(out[1])

    # ---------------------------------------------------------------- searchSubtree / height
    def search_height_cases(ps, tree, all_indices=True):
        nodes = list(tree)
        try:
            full = parse(nodes)
            wf = full[2] == len(nodes)
        except ValueError:
            wf = False
        n_ = len(nodes)
        if n_ == 0:
            idxs = [0, -1]
        elif all_indices:
            idxs = list(range(n_)) + ([i - n_ for i in range(n_)] if n_ <= 12 else [-1, -n_]) + [n_, -n_ - 1]
        else:
            idxs = sorted({0, n_ - 1, rng.randrange(n_), -1, -n_, rng.randrange(n_) - n_, n_, -n_ - 1})
        if n_ and tree.root is not tree[0]:
            viol("root is not element 0", {"kind": "root", "pset": ps.name, "tree": names(ps, nodes)})
        for i in idxs:
            try:
                s = tree.searchSubtree(i)
                out = ("ok", (s.start, s.stop))
            except IndexError:
                out = ("raise", "IndexError")
            case = {"kind": "search", "pset": ps.name, "tree": names(ps, nodes), "index": i, "observed": out[1]}
            if wf and -n_ <= i < n_:
                j_ = i % n_
                exp = parse(nodes, j_)
                if out != ("ok", (j_, exp[2])):
                    viol("searchSubtree(%d) is not the span of the subtree rooted there (expected %r)" % (i, (j_, exp[2])), case)
            emit(ps, "CSearch U%d %s %s %s" % (ps.k, clit(ps.lit(nodes)), cz(i),
                                              # (a negative bound can only come from a defect: it is clamped here, the model
                                              # answers IndexError or the true span, so the case still disagrees)
                                              coutcome(out, lambda p: "(%s, %s)" % (cnat(max(p[0], 0)), cnat(max(p[1], 0))))),
                 case, len(nodes) > 1)
        try:
            out = ("ok", tree.height)
        except IndexError:
            out = ("raise", "IndexError")
        case = {"kind": "height", "pset": ps.name, "tree": names(ps, nodes), "observed": out[1]}
        if wf and out != ("ok", depths(nodes)[0]):
            viol("height is not the depth of the deepest node (expected %d)" % depths(nodes)[0], case)
        emit(ps, "CHeight U%d %s %s" % (ps.k, clit(ps.lit(nodes)), coutcome(out, cz)), case, len(nodes) > 1)

    def setslice_cases(ps, t, other):
        # PrimitiveTree.__setitem__ with a slice key: complete / incomplete values, start beyond the end
        n = len(t)
        i = rng.randrange(n)
        s = t.searchSubtree(i)
        j = rng.randrange(len(other))
        o = other.searchSubtree(j)
        vals = [list(other[o]), list(other[o])[:-1] or [other[0]], list(other[o]) + [other[-1]], list(other)[:rng.randint(1, len(other))]]
        for (b, e, v) in [(s.start, s.stop, vals[0]), (s.start, s.stop, vals[1]), (s.start, s.stop, vals[2]),
                          (n, n + 1, vals[0]), (n + 2, n + 3, vals[0]), (s.start, s.stop, vals[3]), (s.start, s.start, vals[0])]:
            tt = gp.PrimitiveTree(list(t))
            tt.height, len(tt)
            tc = copy.deepcopy(tt)
            try:
                tt[b:e] = v
                tc[b:e] = v
                out = ("ok", ps.lit(tt))
                for obj, what in ((tt, "tree"), (tc, "deep copy")):
                    nodes_ = list(obj)
                    if not structure_problems(gp, nodes_, object) or True:
                        try:
                            indep = depths(nodes_)[0] if parse(nodes_)[2] == len(nodes_) else None
                        except ValueError:
                            indep = None
                        if indep is not None and obj.height != indep:
                            viol("height of the %s read again after a slice assignment is %d, deepest node at depth %d"
                                 % (what, obj.height, indep),
                                 {"kind": "setslice-height", "pset": ps.name, "tree": names(ps, t), "slice": [b, e], "value": names(ps, v)})
            except IndexError:
                out = ("raise", "IndexError")
            except ValueError:
                out = ("raise", "ValueError")
            case = {"kind": "setslice", "pset": ps.name, "tree": names(ps, t), "slice": [b, e], "value": names(ps, v), "observed": out[1]}
            emit(ps, "CSetSlice U%d %s %s %s %s %s" % (ps.k, clit(ps.lit(t)), cnat(b), cnat(e), clit(ps.lit(v)), coutcome(out, clit)), case)

    def setitem_cases(ps, t):
        # PrimitiveTree.__setitem__ with an integer key: same / different arity, first, last, negative, out of range
        n = len(t)
        cands = [x for x in ps.universe if not ps.is_eph_class(x)]
        for i in sorted({0, n - 1, -1, -n, n, -n - 1, rng.randrange(n), rng.randrange(n) - n}):
            for v in rng.sample(cands, min(2, len(cands))):
                tt = gp.PrimitiveTree(list(t))
                try:
                    tt[i] = v
                    out = ("ok", ps.lit(tt))
                except IndexError:
                    out = ("raise", "IndexError")
                except ValueError:
                    out = ("raise", "ValueError")
                case = {"kind": "setitem", "pset": ps.name, "tree": names(ps, t), "index": i, "value": v.name, "observed": out[1]}
                if out[0] == "ok" and (v.arity != t[i].arity or sum(1 for a, b in zip(tt, t) if a is not b) > 1):
                    viol("node assignment accepted a node of another arity / changed other positions", case)
                emit(ps, "CSetItem U%d %s %s (%d,0) %s" % (ps.k, clit(ps.lit(t)), cz(i), ps.nid[id(v)], coutcome(out, clit)), case)

    # ---------------------------------------------------------------- operators
    def op_callable(ps, op):
        k = op[0]
        if k == "cx":
            return gp.cxOnePoint, {}
        if k == "cxlb":
            return gp.cxOnePointLeafBiased, {"termpb": op[1]}
        if k == "uniform":
            kind, mn, mx = op[1]
            return gp.mutUniform, {"expr": functools.partial(GENS[kind], min_=mn, max_=mx), "pset": ps.pset}
        if k == "noderepl":
            return gp.mutNodeReplacement, {"pset": ps.pset}
        if k == "eph":
            return gp.mutEphemeral, {"mode": op[1]}
        if k == "insert":
            return gp.mutInsert, {"pset": ps.pset}
        if k == "shrink":
            return gp.mutShrink, {}
        raise ValueError(k)

    wrapped_cache = {}     # one decorated function object per (pset, operator, limit): reused across calls

    def op_case(ps, op, inputs, src, limit=None, in_type=None, heights_too=False, objs=None, via_toolbox=False):
        """inputs: list of node lists (not modified), or objs: live PrimitiveTree objects that are modified in place.
        limit = (key name, max_value) wraps with staticLimit.  Returns (outcome, log, returned objects)."""
        if objs is not None:
            args = list(objs)
            inputs = [list(o) for o in objs]
        else:
            args = [tree_of(t) for t in inputs]
        same = len(args) == 2 and args[0] is args[1]
        sig = "C11.cx_same_object" if same else None
        mop = op
        if same:
            # ONE object passed twice: the model of the aliased slice swap (known finding C11.cx_same_object)
            mop = ("cxsame",) if op[0] == "cx" else ("cxlbsame", op[1])
            limit = None
        ck = (ps.k, op, limit, via_toolbox)
        if ck not in wrapped_cache:
            fn, kw = op_callable(ps, op)
            if via_toolbox:
                tb = base.Toolbox()
                tb.register("variation", fn, **kw)
                if limit is not None:
                    keyf = operator.attrgetter("height") if limit[0] == "height" else len
                    tb.decorate("variation", gp.staticLimit(key=keyf, max_value=limit[1]))
                wrapped_cache[ck] = (tb.variation, {})
            else:
                if limit is not None:
                    keyf = operator.attrgetter("height") if limit[0] == "height" else len
                    fn = gp.staticLimit(keyf, limit[1])(fn)
                wrapped_cache[ck] = (fn, kw)
        fn, kw = wrapped_cache[ck]
        if op[0] in ("cxlb", "cxlbsame"):
            THRESHOLDS[0] = op[1]
        else:
            THRESHOLDS[0] = float(ps.ratio)
        # measurements are read BEFORE the operation on the very objects that are then modified in place
        # (and deep-copied by staticLimit), and again afterwards on the returned objects
        for a in args:
            try:
                a.height, len(a)
            except IndexError:
                pass
        # shallow copies sharing the node objects (ephemeral instances included): must not change
        shadows = [gp.PrimitiveTree(list(a)) for a in args]
        shadow_lits = [ps.lit(x) for x in shadows]
        held = []

        def call():
            r = list(fn(*args, **kw))
            held[:] = r
            return [list(t) for t in r]
        out, log = with_proxy(src, call)
        exp_t = ps.pset.ret if in_type is None else in_type
        case = {"kind": "op", "pset": ps.name, "op": list(op), "limit": limit, "same_object_twice": same,
                "inputs": [names(ps, t) for t in inputs], "draws": [e[:3] if e[0] == "choice" else e for e in log]}
        in_ok = all(not structure_problems(gp, t, exp_t) for t in inputs)
        if rng.random() < 0.2 or heights_too:
            for x, before in zip(shadows, shadow_lits):
                if len(before) <= 80:
                    emit(ps, "CUnch U%d %s %s" % (ps.k, clit(before), clit(ps.lit(x))),
                         {"kind": "copy-unchanged", "pset": ps.name, "op": list(op), "before": before, "after": ps.lit(x)})
        lits = None
        if out[0] == "raise":
            case["observed"] = out[1]
            legit = False
            if out[1] == "IndexError" and in_ok:
                # only a set offering nothing at a requested type may make an operator fail
                if op[0] == "uniform":
                    legit = any(reachable_gap(ps, x.ret) for x in inputs[0])
                elif op[0] == "insert":
                    legit = any(len(ps.pset.terminals.get(a, [])) == 0 for p in ps.universe if isinstance(p, gp.Primitive) for a in p.args)
            if op[0] == "eph" and op[1] not in ("one", "all") and out[1] == "ValueError":
                legit = True
            if in_ok and not legit:
                viol("operator raised %s on well-formed inputs" % out[1], case, signature=sig)
            if out[1] not in ("IndexError", "ValueError"):
                run.note_case(case)
                return out, log, held
        else:
            res = out[1]
            case["observed"] = [names(ps, t) for t in res]
            lits = [ps.lit(t) for t in res]
            for t in res:
                wt_case(ps, t, exp_t)
            post_h = []
            for obj in held:
                try:
                    post_h.append(("ok", obj.height))
                except IndexError:
                    post_h.append(("raise", "IndexError"))
            case["observed_heights"] = [h[1] for h in post_h]
            if in_ok:
                for j, t in enumerate(res):
                    probs = structure_problems(gp, t, exp_t)
                    if probs:
                        viol("operator output %d is not a complete well-typed prefix expression: %s" % (j, probs[0]), case,
                             signature=sig)
                    elif post_h[j] != ("ok", depths(t)[0]):
                        viol("height read on returned tree %d (after a read before the operation) is %r, deepest node at depth %d"
                             % (j, post_h[j][1], depths(t)[0]), case)
                    elif len(held[j]) != len(t):
                        viol("len of returned tree %d inconsistent" % j, case)
                if limit is None:
                    if op[0] in ("cx", "cxlb") and not same and sum(map(len, res)) != sum(map(len, inputs)):
                        viol("crossover does not conserve the total node count", case)
                    if op[0] == "shrink" and len(res[0]) > len(inputs[0]):
                        viol("shrink mutation grew the tree", case)
                    if op[0] == "insert" and len(res[0]) < len(inputs[0]):
                        viol("insert mutation shrank the tree", case)
                else:
                    def meas(t):
                        return depths(t)[0] if limit[0] == "height" else len(t)
                    if all(meas(t) <= limit[1] for t in inputs):
                        for j, t in enumerate(res):
                            if not structure_problems(gp, t, exp_t) and meas(t) > limit[1]:
                                viol("staticLimit(%s, %r) returned a tree measuring %d" % (limit[0], limit[1], meas(t)), case)
            if heights_too or rng.random() < 0.25:
                for t, h in zip(res, post_h):
                    if len(t) <= 80:
                        emit(ps, "CHeight U%d %s %s" % (ps.k, clit(ps.lit(t)), coutcome(h, cz)),
                             {"kind": "height-after-op", "pset": ps.name, "tree": names(ps, t), "observed": h[1],
                              "op": list(op), "inputs": case["inputs"], "draws": case["draws"]}, len(t) > 1)
        o = out if lits is None else ("ok", lits)
        ocoq = coutcome(o, lambda ls: clist([clit(l) for l in ls]))
        ins = clist([clit(ps.lit(t)) for t in (inputs[:1] if same else inputs)])
        if limit is None:
            term = "COp U%d P%d %s %s %s %s" % (ps.k, ps.k, cop(mop), ins, cdraws(ps, log), ocoq)
        else:
            # key(ind) > max_value on an integer measure: max_value enters the model as its floor
            term = "CLim U%d P%d %s %s %s %s %s %s" % (ps.k, ps.k, "KHeight" if limit[0] == "height" else "KLen",
                                                    cz(math.floor(limit[1])), cop(op), ins, cdraws(ps, log), ocoq)
        emit(ps, term, case, any(len(t) > 1 for t in inputs))
        return out, log, held

    def rand_op(ps):
        r = rng.random()
        if r < 0.2:
            return ("cx",)
        if r < 0.35:
            return ("cxlb", rng.choice([0.0, 0.1, 0.5, 0.9, 1.0, 0, 1, 2.0 ** -40, 1.0 - 2.0 ** -53, 1.5, -0.25]))
        if r < 0.5:
            mn = rng.randint(0, 2)
            return ("uniform", (rng.choice(["full", "grow", "half", "ramped"]), mn, rng.randint(mn, 3)))
        if r < 0.66:
            return ("noderepl",)
        if r < 0.74:
            return ("eph", rng.choice(["one", "all"]))
        if r < 0.87:
            return ("insert",)
        return ("shrink",)

    def arity2(op):
        return 2 if op[0] in ("cx", "cxlb") else 1

    def enumerate_draws(ps, op, inputs, budget, limit=None, heights_too=False, same=False):
        """all draw outcomes of one operator application (DFS over the scripted choices)"""
        stack = [[]]
        n = 0
        while stack and n < budget:
            script = stack.pop()
            src = ScriptSrc(script, unit_options=UNIT_OPTIONS)
            if same:
                o_ = tree_of(inputs[0])
                op_case(ps, op, None, src, objs=[o_, o_])
            else:
                op_case(ps, op, inputs, src, limit=limit, heights_too=heights_too)
            n += 1
            counts = src.counts
            for pos in range(len(script), len(counts)):
                base = script + [0] * (pos - len(script))
                for v in range(1, counts[pos]):
                    stack.append(base + [v])
        return n

    # ---------------------------------------------------------------- corpus (runs first) and targeted scopes
    arith = PS(gp, False, rng, builder=build_arith)
    chainps = PS(gp, True, rng, builder=build_chain)
    fixed = {"arith": arith, "chain": chainps}

    def by_name(ps, nms):
        return [ps.pset.mapping[n] for n in nms]

    cdir = os.path.join(os.path.dirname(os.path.dirname(os.path.abspath(__file__))), "corpus")
    ncorpus = 0
    for fn_ in sorted(os.listdir(cdir)) if os.path.isdir(cdir) else []:
        if not (fn_.startswith("C11") and fn_.endswith(".json")):
            continue
        c = json.load(open(os.path.join(cdir, fn_)))
        ps = fixed[c["pset"]]
        ins = [by_name(ps, t) for t in c["inputs"]]
        lim = tuple(c["limit"]) if c.get("limit") else None
        opc = tuple(tuple(x) if isinstance(x, list) else x for x in c["op"])
        if c.get("same_object"):
            if c.get("enumerate"):
                enumerate_draws(ps, opc, ins, 500, same=True)
            else:
                o_ = tree_of(ins[0])
                op_case(ps, opc, None, ScriptSrc(c["script"]), objs=[o_, o_])
        elif c.get("enumerate"):
            enumerate_draws(ps, opc, ins, 500, limit=lim, heights_too=True)
        else:
            op_case(ps, opc, ins, ScriptSrc(c["script"]), limit=lim, heights_too=True)
        ncorpus += 1
    run.notes.append("corpus cases replayed first: %d" % ncorpus)

    # equal-size subtrees of different height (chains neg(neg(x)) vs bushy add(x, y)) at several depths:
    # every pair of crossover points, with heights read before and after, with and without a height limit
    # equal to the parents' maximum (a child may be taller without being longer)
    X_, Y_ = "ARG0", "ARG1"

    def chain_t(k):
        return ["neg"] * (k - 1) + [X_]

    def bushy_t(k):
        t = [X_]
        for i in range((k - 1) // 2):
            t = ["add"] + t + [Y_ if i % 2 == 0 else X_]
        return t

    def wrap_t(d, t, left=True):
        for _ in range(d):
            t = (["add"] + t + [Y_]) if left else (["add", Y_] + t)
        return t
    shapes = []
    for k in (3, 5, 7):
        for d1 in ((0, 2) if not run.thorough else (0, 1, 2, 3)):
            for d2 in ((0, 1) if not run.thorough else (0, 1, 2)):
                shapes.append((wrap_t(d1, bushy_t(k)), wrap_t(d2, chain_t(k), left=(d1 + d2) % 2 == 0)))
    shapes.append((wrap_t(1, ["add", "add", X_, Y_, "add", X_, Y_]), wrap_t(1, chain_t(7))))
    for (na, nb) in shapes:
        a, b = by_name(arith, na), by_name(arith, nb)
        hmax = max(depths(a)[0], depths(b)[0])
        enumerate_draws(arith, ("cx",), [a, b], 400, limit=("height", hmax), heights_too=True)
        enumerate_draws(arith, ("cx",), [b, a], 120, limit=("height", hmax))
        enumerate_draws(arith, ("cx",), [a, b], 60, heights_too=True)
        enumerate_draws(arith, ("cxlb", 0.5), [a, b], 60, limit=("height", hmax))
        for kind in ("full", "grow"):
            for _ in range(run.scale(3, 10)):
                op_case(arith, ("uniform", (kind, 1, 2)), [a], RandSrc(rng), limit=("height", depths(a)[0]), heights_too=True)
                op_case(arith, ("uniform", (kind, 1, 3)), [b], RandSrc(rng), heights_too=True)
        op_case(arith, ("insert",), [a], RandSrc(rng), limit=("height", depths(a)[0]))

    # node replacement over a subclass chain with co-/contravariant twins: every node index, every candidate
    ctrees = [by_name(chainps, t) for t in (["ida", "ida", "a"], ["two", "ida", "a", "a"], ["twob", "b", "ida", "a"],
                                            ["ida", "btoa", "ida", "a"], ["fromb", "idb", "b"], ["fromd", "dtob", "b"],
                                            ["two", "fromb", "d", "twod", "b", "d"], ["ida", "twod", "btoa", "a", "d"])]
    more = enum_trees(chainps, TA, 4)
    ctrees += rng.sample(more, min(len(more), run.scale(40, 200)))
    for t in ctrees:
        enumerate_draws(chainps, ("noderepl",), [t], 80)
    for t in ctrees[:run.scale(12, 60)]:
        enumerate_draws(chainps, ("shrink",), [t], 30)
        enumerate_draws(chainps, ("insert",), [t], 30)
        other = rng.choice(ctrees)
        enumerate_draws(chainps, ("cx",), [t, other], 40)

    # ---------------------------------------------------------------- psets
    npsets = run.scale(10, 28)
    psets = []
    for i in range(npsets):
        typed = i % 2 == 1
        gappy = typed and i % 8 == 7
        psets.append(PS(gp, typed, rng, gappy=gappy))
    small_sets = [PS(gp, False, rng, small=True), PS(gp, True, rng, small=True)]
    if run.thorough:
        small_sets += [PS(gp, True, rng, small=True) for _ in range(2)]
    # the tables themselves: model of _add against pset.primitives / pset.terminals
    for ps in psets + small_sets + [PS(gp, True, rng, gappy=(i % 3 == 0)) for i in range(run.scale(20, 200))]:
        case = {"kind": "pset", "pset": ps.name, "adds": [(x.name, isp) for x, isp in ps.addlog]}
        probs = ps.table_problems()
        if probs:
            viol("primitive-set table is not the pool of subclass-compatible nodes: " + probs[0], case)
        ratio = ps.pset.terminalRatio
        if Fraction(ratio) != ps.ratio:
            viol("terminalRatio is not terms/(terms+prims)", case, observed=ratio)
        emit(ps, ps.pset_term(), case)

    all_mm = [(a, b) for a in range(0, 7) for b in range(a, 7)]
    for ps in psets:
        pool = []
        if run.thorough:
            mms = [(k, mm) for k in GENS for mm in all_mm]
        else:
            mms = [(k, mm) for k in GENS for mm in rng.sample(all_mm, 7)]
        for kind, (mn, mx) in mms:
            # keep very large full trees rare
            if mx >= 5 and kind != "grow" and rng.random() < 0.6:
                mx = min(mx, 4)
                mn = min(mn, mx)
            t = gen_case(ps, kind, mn, mx, None, RandSrc(rng))
            if t is not None and len(t) <= 400:
                pool.append(t)
        # generation at an explicit type
        for t_ in list(ps.tid.keys())[:4]:
            if ps.typed and t_ is object:
                continue
            mn = rng.randint(0, 2)
            t = gen_case(ps, rng.choice(list(GENS)), mn, rng.randint(mn, 3), t_, RandSrc(rng))
        if not pool:
            continue
        small = [t for t in pool if len(t) <= 60] or pool
        for t in rng.sample(small, min(len(small), run.scale(4, 10))):
            wt_corrupted(ps, t, ps.pset.ret)
            search_height_cases(ps, t, all_indices=len(t) <= 40)
            # truncated / extended lists: error branches of searchSubtree and height
            if len(t) > 1:
                cut = gp.PrimitiveTree(list(t)[:rng.randint(1, len(t) - 1)])
                search_height_cases(ps, cut, all_indices=False)
                ext = gp.PrimitiveTree(list(t) + [t[-1]])
                search_height_cases(ps, ext, all_indices=False)
                setslice_cases(ps, t, rng.choice(small))
                setitem_cases(ps, t)
        nops = run.scale(60, 200)
        for _ in range(nops):
            op = rand_op(ps)
            ins = [list(rng.choice(small)) for _ in range(arity2(op))]
            limit = None
            r = rng.random()
            if r < 0.35:
                keyn = rng.choice(["height", "len"])
                ms = [(depths(t)[0] if keyn == "height" else len(t)) for t in ins]
                limit = (keyn, max(ms) + rng.choice([0, 0, 0, 1, 2, -1, 0.5, -0.5, 0.0, 2 ** 60, 1e9, -max(ms), -max(ms) - 1]))
            op_case(ps, op, ins, RandSrc(rng), limit=limit, via_toolbox=rng.random() < 0.2)
        # single-node inputs
        singles = [t for t in pool if len(t) == 1][:2]
        for t in singles:
            for op in [("cx",), ("cxlb", 0.5), ("uniform", ("grow", 0, 2)), ("noderepl",), ("eph", "all"), ("insert",), ("shrink",)]:
                ins = [list(t)] * arity2(op)
                op_case(ps, op, ins, RandSrc(rng))
        op_case(ps, ("eph", "some"), [list(pool[0])], RandSrc(rng))

        # ---- histories: the SAME tree objects go through a sequence of operators (in place), with reads of
        # height / len / searchSubtree in between; returned objects (possibly staticLimit's kept copies, possibly one
        # object in both positions) replace the arguments and are used again; every step is judged on its own
        for _ in range(run.scale(3, 12)):
            objs = [tree_of(rng.choice(small)) for _ in range(3)]
            for step in range(rng.randint(3, 7)):
                op = rand_op(ps)
                k_ = arity2(op)
                pos = rng.sample(range(len(objs)), k_)
                if k_ == 2 and rng.random() < 0.12:
                    pos = [pos[0], pos[0]]                       # the same object passed twice
                cur = [objs[i] for i in pos]
                lim = None
                if not (k_ == 2 and cur[0] is cur[1]) and rng.random() < 0.4:
                    keyn = rng.choice(["height", "len"])
                    try:
                        ms = [(depths(list(t))[0] if keyn == "height" else len(t)) for t in cur]
                        lim = (keyn, max(ms) + rng.choice([0, 0, 1]))
                    except ValueError:
                        lim = None
                out, _, held = op_case(ps, op, None, RandSrc(rng), limit=lim, objs=cur, heights_too=(step % 2 == 0),
                                       via_toolbox=rng.random() < 0.15)
                if out[0] == "ok" and len(held) == len(pos):
                    for i, h in zip(pos, held):
                        objs[i] = h
                for i, o in enumerate(objs):
                    if structure_problems(gp, list(o), ps.pset.ret):
                        objs[i] = tree_of(rng.choice(small))     # an ill-formed leftover (same-object crossover) is retired
                o = rng.choice(objs)
                if len(o) <= 60:
                    search_height_cases(ps, o, all_indices=False)
        # the same object passed twice to the crossovers (known finding C11.cx_same_object when it goes wrong)
        for _ in range(run.scale(6, 30)):
            o_ = tree_of(rng.choice(small))
            op_case(ps, rng.choice([("cx",), ("cxlb", 0.5), ("cxlb", 0.0)]), None, RandSrc(rng), objs=[o_, o_])
        # the empty tree: tie of the guard branches only
        for op in [("cx",), ("cxlb", 0.5), ("uniform", ("grow", 0, 1)), ("noderepl",), ("eph", "one"), ("insert",), ("shrink",)]:
            op_case(ps, op, [[]] * arity2(op), RandSrc(rng), limit=rng.choice([None, ("height", 0), ("len", 0)]))
        search_height_cases(ps, gp.PrimitiveTree([]), all_indices=True)

    # ---------------------------------------------------------------- exhaustive small scope
    maxn = 5
    for ps in small_sets:
        trees = enum_trees(ps, ps.pset.ret, maxn)
        if len(trees) > run.scale(40, 100):
            trees = rng.sample(trees, run.scale(40, 100))
        for t in trees:
            search_height_cases(ps, gp.PrimitiveTree(t), all_indices=True)
        ops1 = [("noderepl",), ("eph", "one"), ("eph", "all"), ("insert",), ("shrink",), ("uniform", ("grow", 0, 1)),
                ("uniform", ("full", 1, 1))]
        budget = run.scale(16, 30)
        for t in trees:
            for op in ops1:
                enumerate_draws(ps, op, [t], budget)
            enumerate_draws(ps, ("shrink",), [t], budget, limit=("height", 2))
            enumerate_draws(ps, ("insert",), [t], budget, limit=("len", len(t)))
        pairs = [(a, b) for a in trees for b in trees]
        if len(pairs) > run.scale(80, 300):
            pairs = rng.sample(pairs, run.scale(80, 300))
        for a, b in pairs:
            enumerate_draws(ps, ("cx",), [a, b], budget)
            enumerate_draws(ps, ("cxlb", 0.5), [a, b], budget)
        for a, b in pairs[:run.scale(20, 200)]:
            enumerate_draws(ps, ("cx",), [a, b], budget, limit=("height", max(depths(a)[0], depths(b)[0])))
        # generators with all draw outcomes, small heights
        for kind in GENS:
            for (mn, mx) in [(0, 0), (0, 1), (1, 1), (0, 2), (1, 2), (2, 2)]:
                stack, n = [[]], 0
                while stack and n < run.scale(30, 120):
                    script = stack.pop()
                    src = ScriptSrc(script)
                    gen_case(ps, kind, mn, mx, None, src)
                    n += 1
                    for pos in range(len(script), len(src.counts)):
                        base = script + [0] * (pos - len(script))
                        for v in range(1, src.counts[pos]):
                            stack.append(base + [v])

    # ---------------------------------------------------------------- the excluded configuration (Appendix B 7)
    # strongly typed set rooted at `object`: cxOnePoint's "Not STGP" shortcut ignores types.  Replayed for the
    # record (Props: C11_cx_object_root_is_excluded_for_a_reason); it is outside the claim, never a violation.
    try:
        xps = gp.PrimitiveSetTyped("MAIN", [], object)
        xps.addPrimitive(lambda *a: 0, [TA, TB], object, name="h")
        xps.addTerminal(1, TA)
        xps.addTerminal(2, TB)
        h, a, b = xps.primitives[object][0], xps.terminals[TA][0], [x for x in xps.terminals[TB] if x.ret is TB][0]
        out, _ = with_proxy(ScriptSrc([0, 1, 0]), lambda: gp.cxOnePoint(gp.PrimitiveTree([h, a, b]), gp.PrimitiveTree([h, a, b])))
        ill = out[0] == "ok" and bool(structure_problems(gp, list(out[1][0]), object))
        run.notes.append("excluded configuration (typed set rooted at object, DESIGN Appendix B 7): cxOnePoint gives %s -> %s"
                         % ([x.name for x in out[1][0]] if out[0] == "ok" else out[1],
                            "ill-typed offspring, as the model says" if ill else "well-typed offspring (model example no longer matches)"))
    except Exception as e:  # noqa
        run.notes.append("excluded-configuration replay failed: %r" % (e,))

    def search(r):
        """only runs when an obligation or the correspondence broke and the regular cases gave no failing input: an
        oracle-only sweep beyond the sizes the regular generators reach (a regenerated definition that is no longer the
        model may differ from it only for tall or large trees: a threshold on depth, height or length)"""
        before = len(r.oracle_viol)
        big = []
        for kind in ("full", "grow", "half"):
            for (mn, mx) in [(7, 7), (8, 10), (10, 10), (11, 12), (12, 12), (13, 13), (12, 14), (14, 14)]:
                for _ in range(2):
                    t = gen_case(arith, kind, mn, mx, None, RandSrc(rng))
                    if t is not None and 150 <= len(t) <= 3000:
                        big.append(t)
                if len(r.oracle_viol) > before:
                    return
        tall = [by_name(arith, wrap_t(2, chain_t(k))) for k in (40, 65, 95)]
        pool = big[:8] + tall
        for i, a in enumerate(pool):
            b = pool[(i + 3) % len(pool)]
            for op in (("cx",), ("cxlb", 0.1), ("cxlb", 0.9), ("uniform", ("grow", 1, 3)), ("noderepl",), ("insert",),
                       ("shrink",)):
                ins = [list(a), list(b)] if arity2(op) == 2 else [list(a)]
                op_case(arith, op, [list(x) for x in ins], RandSrc(rng), heights_too=True)
                h = max(depths(x)[0] for x in ins)
                op_case(arith, op, [list(x) for x in ins], RandSrc(rng), limit=("height", h))
                op_case(arith, op, [list(x) for x in ins], RandSrc(rng), limit=("len", max(len(x) for x in ins)))
            if len(r.oracle_viol) > before:
                return
    run.search_fn = search

    import time as _time
    run.notes.append("python phase %.1fs, %d terms" % (_time.time() - run.t0, sum(len(g[1]) for g in groups.values())))
    # ---------------------------------------------------------------- correspondence, one group per pset
    pre, terms, cases = "", [], []
    for k, (ps, ts, cs, defs) in groups.items():
        pre += defs
        terms += ts
        cases += cs
    # the model and (when they check) the regenerated definitions are evaluated on every case
    reqs = ["From DV Require Import Gen.C11_gen."] if gen_check != "check" else []
    failing = run.correspond("all", "C11", terms, cases, preamble=pre, shard=300, check=gen_check, requires=reqs)
    if gen_check == "check_both" and failing:
        # which of the two disagrees with the implementation?
        traces = run.traces
        try:
            sub = failing[:200]
            bad_model = run.correspond("diagnosis_model", "C11", [terms[i] for i in sub], [cases[i] for i in sub],
                                       preamble=pre, check="check")
            bad_gen = run.correspond("diagnosis_regenerated", "C11", [terms[i] for i in sub], [cases[i] for i in sub],
                                     preamble=pre, check="check_gen", requires=reqs)
            run.notes.append("diagnosis: of %d disagreeing cases the hand model disagrees on %d, the regenerated definitions on %d"
                             % (len(sub), len(bad_model), len(bad_gen)))
        except Exception as e:  # noqa
            run.notes.append("diagnosis step failed: %r" % (e,))
        run.traces = traces
        for g in ("diagnosis_model", "diagnosis_regenerated"):
            run.corr_groups.pop(g, None)
        run.disagreements = [d for d in run.disagreements if d.get("group") not in ("diagnosis_model", "diagnosis_regenerated")]
    elif gen_check == "check" and ok:
        # translated but not provably the model: do the regenerated definitions at least agree with the implementation?
        traces = run.traces
        try:
            rc, out = vlib.coqc_file(GEN, cwd=vlib.COQ)
            if rc == 0:
                bad_gen = run.correspond("diagnosis_regenerated", "C11", terms, cases, preamble=pre, shard=300,
                                         check="check_gen", requires=["From DV Require Import Gen.C11_gen."])
                g = run.corr_groups.pop("diagnosis_regenerated", {})
                run.disagreements = [d for d in run.disagreements if d.get("group") != "diagnosis_regenerated"]
                run.notes.append("diagnosis: the regenerated definitions (not provably equal to the model) disagree with the "
                                 "implementation on %d of %d cases (errors: %s)" % (len(bad_gen), len(terms), g.get("errors")))
            else:
                run.notes.append("diagnosis: the regenerated definitions do not compile: " + out[-400:])
        except Exception as e:  # noqa
            run.notes.append("diagnosis step failed: %r" % (e,))
        run.traces = traces
    for d in run.disagreements:
        c = d.get("case")
        if isinstance(c, dict) and isinstance(c.get("pset"), str):
            c = dict(c)
            nm = c["pset"]
            c["pset"] = psdesc.get(nm, nm)
            c["pset_coq"] = next((g[3] for g in groups.values() if g[0].name == nm), None)
            d["case"] = c
