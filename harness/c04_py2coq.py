"""Tie (T) for C04: a fail-closed translator  Python `ast` -> Gallina  for the divide-and-conquer non-dominated sort of
deap/tools/emo.py and all its helpers: isDominated, median, splitA, splitB, sweepA, sweepB, sortNDHelperB, sortNDHelperA,
sortLogNondominated.

The output coq/Gen/C04_gen.v is regenerated from the CURRENT source text on every run and never committed.  The regenerated
definitions use the vocabulary of coq/Model/C04_GenRt.v and the Python primitives of coq/Model/C04_LogSort.v; they are
proved equal to the hand model in coq/Proofs/C04_gen_equiv.v and the C04 theorems are restated on them in coq/Props/C04_gen.v.

Refusal is PER FUNCTION: a function outside the grammar gets `Definition gen_f := <hand model>` with a (* REFUSED *) comment,
so that the committed equivalence file always builds and the other functions keep the regenerated tie.  Anything the
translator does not know is refused, never guessed.

Typed subset (types are inferred from the signature table below):
  Z   integer-valued number (a weighted fitness value, an index, a rank)
  H   half-integer, carried DOUBLED (the value of `(a + b) / 2.0`): comparing  x ? h  becomes  2*x ? h
  B   bool          T  tuple of numbers (wvalues, or a slice of one)       L(t)  list        F  dict fitness -> rank
  K   a key function tuple -> number (operator.itemgetter(i), or the `key` parameter)      P(..) Python tuple of values
  I   an individual (identity, weighted values): only `x.fitness.wvalues` is read       G  defaultdict(list) fitness -> individuals
  R   the result of sortLogNondominated: a list of fronts, or one flat front (first_front_only)
Statements: assignment (names, tuple of names, d[k] = v on the rank dict), augmented assignment, `x.append(e)`,
`x.insert(i, e)`, `del x[i]`, `if/elif/else`, `for` over a list / slice / zip / enumerate (state = the variables the body
assigns; `break`, `continue`, `return` inside), `return`, `pass`, calls of the other translated functions (a procedure that
updates the rank dict in place returns the new dict; recursion is given explicit fuel like in the model), `while c:` with a tabulated bound on the iterations (result: option, None =
out of fuel; `while x and c` with `x = next(it, False)`: x is a tuple in the body, true iff not empty), `it = iter(l)`,
`x = next(it, False)`.
Expressions: names, integer constants, True/False, + - * // % unary -, `/ 2.0` (-> H), comparisons (chains), and/or/not,
conditional expressions, subscripts and the slices [:e] [s:], len abs min max (two numbers; a list with key=), sorted(key=),
map, frozenset (only under len), zip, enumerate, bisect.bisect_right, itemgetter, math.isinf (constant False: the model's
numbers are exact, float overflow is outside the model), tuples, list displays, `[e for _ in range(n)]` with e constant, `[e(x) for x in l]`,
defaultdict(list), d[k].append(x), d.keys(), d.values(), dict.fromkeys, l.sort(reverse=True), l[i].extend(xs).
IndexError / ValueError are not modelled as exceptions: like in the hand model, a subscript out of range yields a default
value (0, the empty tuple / list); the equivalence lemmas are stated where that cannot happen or does not matter.
"""
import ast
import os

EMO = ("deap", "tools", "emo.py")


class Refuse(Exception):
    def __init__(self, node, why):
        self.node = node if isinstance(node, str) else type(node).__name__
        self.line = getattr(node, "lineno", "?")
        self.why = why
        Exception.__init__(self, "%s at line %s: %s" % (self.node, self.line, why))


def refuse(node, why):
    raise Refuse(node, why)


# ---- types ------------------------------------------------------------------------------------------------
Z, H, B, T, F, K, U, I, G, R = "Z", "H", "B", "T", "F", "K", "U", "I", "G", "R"
IT, OT, NT = "IT", "OT", "NT"     # iterator over tuples (the rest of the list); next(it, False); the same, known to be a tuple


def L(t=None):
    return ("L", [t])


def P(*ts):
    return ("P", list(ts))


def is_list(t):
    return isinstance(t, tuple) and t[0] == "L"


def is_prod(t):
    return isinstance(t, tuple) and t[0] == "P"


def elt(t):
    return t[1][0]


def unify(a, b, node):
    """make two types equal (filling unknown element types); refuse otherwise"""
    if a is None:
        return b
    if b is None:
        return a
    if is_list(a) and is_list(b):
        e = unify(elt(a), elt(b), node)
        a[1][0] = e
        b[1][0] = e
        return a
    if is_prod(a) and is_prod(b) and len(a[1]) == len(b[1]):
        return ("P", [unify(x, y, node) for x, y in zip(a[1], b[1])])
    if a == b:
        return a
    refuse(node, "type mismatch %s / %s" % (show(a), show(b)))


def zh(a, b):
    return isinstance(a, str) and isinstance(b, str) and sorted((a, b)) == [H, Z]


def show(t):
    if t is None:
        return "?"
    if is_list(t):
        return "L(%s)" % show(elt(t))
    if is_prod(t):
        return "P(%s)" % ",".join(show(x) for x in t[1])
    return t


def coqtype(t, node="type"):
    if t in (Z, H):
        return "Z"
    if t == B:
        return "bool"
    if t == T:
        return "wvals"
    if t == F:
        return "fmap"
    if t == K:
        return "(wvals -> Z)"
    if t == I:
        return "ind"
    if t == G:
        return "(kmap (list ind))"
    if t == R:
        return "log_result"
    if t == IT:
        return "(list wvals)"
    if t == OT:
        return "(option wvals)"
    if is_list(t):
        if elt(t) is None:
            refuse(node, "list of unknown element type")
        return "(list %s)" % coqtype(elt(t), node)
    if is_prod(t):
        return "(%s)" % " * ".join(coqtype(x, node) for x in t[1])
    refuse(node, "no Coq type for %s" % show(t))


def default(t, node):
    if t in (Z, H):
        return "0"
    if t == T or is_list(t):
        return "[]"
    if t == B:
        return "false"
    if t == I:
        return "(O, [])"
    if is_prod(t):
        return "(%s)" % ", ".join(default(x, node) for x in t[1])
    refuse(node, "no default value for %s" % show(t))


# ---- signature table (the trusted part next to the grammar) ---------------------------------------------
# name, parameters, result type, in-out parameters (a procedure returns their final values), fuelled, hand model
def _sig(name, params, ret, inout, fuel, model, defaults=None, callfuel=None, whilefuel=None, hints=None):
    """fuel: True = the function is recursive and gets an explicit fuel parameter (result: option); "opt" = not recursive, but
    calls a fuelled procedure (result: option, no fuel parameter); callfuel: the fuel a NON-fuelled caller passes, as a Coq
    text over {0}, {1}, .. = the call's arguments (the model's choice, proved sufficient by C04_log_ranks_total)"""
    return dict(name=name, params=params, ret=ret, inout=inout, fuel=fuel, model=model, defaults=defaults or {}, callfuel=callfuel,
                whilefuel=whilefuel, hints=hints or {})


FUNCS = [
    _sig("isDominated", [("wvalues1", T), ("wvalues2", T)], B, [], False, "is_dominated v_wvalues1 v_wvalues2"),
    _sig("median", [("seq", L(T)), ("key", K)], H, [], False, "median2 (map v_key v_seq)", {"key": "identity"}),
    _sig("splitA", [("fitnesses", L(T)), ("obj", Z)], P(L(T), L(T)), [], False, "splitA v_fitnesses v_obj"),
    _sig("splitB", [("best", L(T)), ("worst", L(T)), ("obj", Z)], P(L(T), L(T), L(T), L(T)), [], False,
         "splitB v_best v_worst v_obj"),
    _sig("sweepA", [("fitnesses", L(T)), ("front", F)], U, ["front"], False, "sweepA v_fitnesses v_front"),
    # whilefuel: the bound on the iterations of each `while` of the function (None = out of fuel: the equivalence lemma
    # then fails, so a wrong bound is detected, not trusted)
    _sig("sweepB", [("best", L(T)), ("worst", L(T)), ("front", F)], U, ["front"], "opt", "Some (sweepB v_best v_worst v_front)",
         whilefuel="(S (length v_best))",
         # element types of locals that start as [] and are read before anything is stored in them (only typing: a wrong
         # hint makes the regenerated definition ill-typed, which is a refusal)
         hints={"stairs": Z, "fstairs": T}),
    _sig("sortNDHelperB", [("best", L(T)), ("worst", L(T)), ("obj", Z), ("front", F)], U, ["front"], True,
         "helperB fuel v_best v_worst v_obj v_front"),
    _sig("sortNDHelperA", [("fitnesses", L(T)), ("obj", Z), ("front", F)], U, ["front"], True,
         "helperA fuel v_fitnesses v_obj v_front", callfuel="(log_fuel (length {0}) {1})"),
    _sig("sortLogNondominated", [("individuals", L(I)), ("k", Z), ("first_front_only", B)], R, [], "opt",
         "sort_log v_individuals v_k v_first_front_only", {"first_front_only": False}),
]
SIG = {f["name"]: f for f in FUNCS}
# names whose module-level binding must be exactly this
EXPECTED = {"bisect": ("import", None, "bisect"), "math": ("import", None, "math"),
            "itemgetter": ("from", "operator", "itemgetter"), "defaultdict": ("from", "collections", "defaultdict")}
BUILTINS = ("len", "abs", "min", "max", "sorted", "map", "frozenset", "zip", "enumerate", "range", "list", "iter", "next",
            "float", "int", "bool", "tuple", "set", "dict", "any", "all", "sum", "reversed", "True", "False", "None")


def cn(name):
    return "v_" + name


def tup(vs):
    if not vs:
        return "tt"
    return vs[0] if len(vs) == 1 else "(%s)" % ", ".join(vs)


def pat(vs):
    if not vs:
        return "_"
    return vs[0] if len(vs) == 1 else "'(%s)" % ", ".join(vs)


JOIN = "@@JOIN@@"


# ---- statement analysis -------------------------------------------------------------------------------------
def assigned(stmts):
    """names (in order of first occurrence) that the statements (re)bind or mutate"""
    out = []

    def add(n):
        if n not in out:
            out.append(n)

    def target(t):
        if isinstance(t, ast.Name):
            add(t.id)
        elif isinstance(t, (ast.Tuple, ast.List)):
            for e in t.elts:
                target(e)
        elif isinstance(t, ast.Subscript) and isinstance(t.value, ast.Name):
            add(t.value.id)
        else:
            refuse(t, "assignment target")

    def walk(s):
        if isinstance(s, ast.Assign):
            for t in s.targets:
                target(t)
            if isinstance(s.value, ast.Call) and isinstance(s.value.func, ast.Name) and s.value.func.id == "next" and s.value.args \
                    and isinstance(s.value.args[0], ast.Name):
                add(s.value.args[0].id)
        elif isinstance(s, ast.AugAssign):
            target(s.target)
        elif isinstance(s, ast.Delete):
            for t in s.targets:
                target(t)
        elif isinstance(s, ast.Expr) and isinstance(s.value, ast.Call):
            c = s.value
            if isinstance(c.func, ast.Attribute) and isinstance(c.func.value, ast.Name):
                add(c.func.value.id)
            elif isinstance(c.func, ast.Attribute) and isinstance(c.func.value, ast.Subscript) and isinstance(c.func.value.value, ast.Name):
                add(c.func.value.value.id)
            elif isinstance(c.func, ast.Name) and c.func.id in SIG:
                sg = SIG[c.func.id]
                for (p, _), a in zip(sg["params"], c.args):
                    if p in sg["inout"] and isinstance(a, ast.Name):
                        add(a.id)
        elif isinstance(s, ast.If):
            for x in s.body + s.orelse:
                walk(x)
        elif isinstance(s, (ast.For, ast.While)):
            if isinstance(s, ast.For):
                target(s.target)
            for x in s.body + s.orelse:
                walk(x)
    for s in stmts:
        walk(s)
    return out


def escapes(stmts, loop_level=True):
    """does control leave the statements other than by falling through (return; break/continue of the enclosing loop;
    a call of a fuelled procedure, which may fail)?"""
    for s in stmts:
        if isinstance(s, ast.Return):
            return True
        if loop_level and isinstance(s, (ast.Break, ast.Continue)):
            return True
        if isinstance(s, ast.Expr) and isinstance(s.value, ast.Call) and isinstance(s.value.func, ast.Name) \
                and s.value.func.id in SIG and SIG[s.value.func.id]["fuel"]:
            return True
        if isinstance(s, ast.While):
            return True
        if isinstance(s, ast.If) and escapes(s.body + s.orelse, loop_level):
            return True
        if isinstance(s, (ast.For, ast.While)) and escapes(s.body + s.orelse, False):
            return True
    return False


def has(stmts, kinds, into_loops=False):
    for s in stmts:
        if isinstance(s, kinds):
            return True
        if isinstance(s, ast.If) and has(s.body + s.orelse, kinds, into_loops):
            return True
        if into_loops and isinstance(s, (ast.For, ast.While)) and has(s.body + s.orelse, kinds, True):
            return True
    return False


def always_exits(stmts):
    if not stmts:
        return False
    last = stmts[-1]
    if isinstance(last, (ast.Break, ast.Return)):
        return True
    return isinstance(last, ast.If) and bool(last.orelse) and always_exits(list(last.body)) and always_exits(list(last.orelse))


def mut_safe(stmts, name):
    """every update of the list `name` in these statements (the body of a loop over it) is followed by leaving the loop"""
    for i, st in enumerate(stmts):
        if name not in assigned([st]):
            continue
        rest = list(stmts[i + 1:])
        if isinstance(st, ast.If):
            if always_exits(rest):
                continue
            if not (mut_safe(list(st.body), name) and mut_safe(list(st.orelse), name)):
                return False
        elif isinstance(st, (ast.For, ast.While)):
            return False
        elif not always_exits(rest):
            return False
    return True


# ---- one function ----------------------------------------------------------------------------------------
class Ctx(object):
    def __init__(self, ret, brk=None, nxt=None):
        self.ret, self.brk, self.nxt = ret, brk, nxt


class FnTr(object):
    def __init__(self, sig):
        self.sig = sig
        self.env = {}
        self.aliased = set()
        self.nils = []
        self.tainted = set()     # defaultdicts that were read by subscript (a read may have inserted a key)

    # -- expressions ---------------------------------------------------------------------------------------
    def var(self, node, name):
        if name not in self.env:
            refuse(node, "name %s is not (certainly) bound here" % name)
        return cn(name), (T if self.env[name] == NT else self.env[name])

    def vtup(self, names, env=None):
        """the tuple of the current values of the variables (a narrowed optional is wrapped again)"""
        env = self.env if env is None else env
        return tup(["(Some %s)" % cn(nm) if env.get(nm) == NT else cn(nm) for nm in names])

    def num(self, node, want=None):
        """a number: (text, Z | H)"""
        t, ty = self.expr(node)
        if ty not in (Z, H):
            refuse(node, "a number is expected, got %s" % show(ty))
        return t, ty

    def as_type(self, txt, ty, want, node):
        if want == H and ty == Z:
            return "(2 * %s)" % txt
        if ty == want:
            return txt
        if is_list(ty) and is_list(want) or is_prod(ty) and is_prod(want):
            unify(ty, want, node)
            return txt
        refuse(node, "a value of type %s is expected, got %s" % (show(want), show(ty)))

    def expr_of(self, node, want):
        t, ty = self.expr(node)
        return self.as_type(t, ty, want, node)

    def expr(self, n):
        if isinstance(n, ast.Name):
            if n.id in ("True", "False"):
                return n.id.lower(), B
            return self.var(n, n.id)
        if isinstance(n, ast.Constant):
            if n.value is True or n.value is False:
                return str(n.value).lower(), B
            if type(n.value) is int:
                return ("%d" % n.value if n.value >= 0 else "(%d)" % n.value), Z
            refuse(n, "constant %r" % (n.value,))
        if isinstance(n, ast.UnaryOp):
            if isinstance(n.op, ast.USub):
                t, ty = self.num(n.operand)
                return "(- %s)" % t, ty
            if isinstance(n.op, ast.Not):
                return "(negb %s)" % self.expr_of(n.operand, B), B
            refuse(n, "unary operator")
        if isinstance(n, ast.BinOp):
            return self.binop(n)
        if isinstance(n, ast.BoolOp) and isinstance(n.op, ast.And) and isinstance(n.values[0], ast.Name) \
                and self.env.get(n.values[0].id) == OT:
            # `x and c` with x = next(it, False): x is a tuple there; a tuple is true iff it is not empty
            nm = n.values[0].id
            self.env[nm] = NT
            inner = " && ".join(self.expr_of(v, B) for v in n.values[1:])
            self.env[nm] = OT
            return "(match %s with Some %s => negb (zlen %s =? 0) && (%s) | None => false end)" % (cn(nm), cn(nm), cn(nm), inner), B
        if isinstance(n, ast.BoolOp):
            op = " && " if isinstance(n.op, ast.And) else " || "
            return "(%s)" % op.join(self.expr_of(v, B) for v in n.values), B
        if isinstance(n, ast.Compare):
            parts = []
            left = n.left
            for op, right in zip(n.ops, n.comparators):
                parts.append(self.compare(n, op, left, right))
                left = right
            return (parts[0] if len(parts) == 1 else "(%s)" % " && ".join(parts)), B
        if isinstance(n, ast.IfExp):
            c = self.expr_of(n.test, B)
            a, ta = self.expr(n.body)
            b, tb = self.expr(n.orelse)
            if zh(ta, tb):
                a, b, ta = self.as_type(a, ta, H, n), self.as_type(b, tb, H, n), H
            else:
                ta = unify(ta, tb, n)
            return "(if %s then %s else %s)" % (c, a, b), ta
        if isinstance(n, ast.Subscript):
            return self.subscript(n)
        if isinstance(n, ast.Tuple):
            if not n.elts:
                refuse(n, "empty tuple")
            xs = [self.expr(e) for e in n.elts]
            return tup([x for x, _ in xs]), P(*[t for _, t in xs])
        if isinstance(n, ast.List):
            if not n.elts:
                ty = L()
                tok = "@@NIL%d@@" % len(self.nils)
                self.nils.append((tok, ty, n))
                return tok, ty
            xs = [self.expr(e) for e in n.elts]
            ty = None
            for _, t in xs:
                ty = unify(ty, t, n)
            return "[%s]" % "; ".join(x for x, _ in xs), L(ty)
        if isinstance(n, ast.Call):
            return self.call(n)
        if isinstance(n, ast.ListComp):
            # [e for x in range(n)] with e not mentioning x: n copies of e
            if len(n.generators) != 1:
                refuse(n, "comprehension with several generators")
            g = n.generators[0]
            if g.ifs or g.is_async or not isinstance(g.target, ast.Name):
                refuse(n, "comprehension with a filter / a structured target")
            it = g.iter
            if not (isinstance(it, ast.Call) and isinstance(it.func, ast.Name) and it.func.id == "range" and "range" not in self.env
                    and len(it.args) == 1 and not it.keywords):
                # [e(x) for x in l]: map over a list (the comprehension's variable is local to it)
                nm = g.target.id
                if nm in BUILTINS or nm in SIG or nm in EXPECTED:
                    refuse(n, "comprehension variable %s has a fixed meaning" % nm)
                src, ety = self.seq(it)
                saved = dict(self.env)
                self.env[nm] = ety
                e, te = self.expr(n.elt)
                self.env = saved
                return "(map (fun %s => %s) %s)" % (cn(nm), e, src), L(te)
            if any(isinstance(t, ast.Name) and t.id == g.target.id for t in ast.walk(n.elt)):
                refuse(n, "comprehension element depends on the loop variable")
            e, te = self.expr(n.elt)
            return "(repeat %s (Z.to_nat %s))" % (e, self.expr_of(it.args[0], Z)), L(te)
        if isinstance(n, ast.Attribute) and n.attr == "wvalues" and isinstance(n.value, ast.Attribute) and n.value.attr == "fitness":
            x, tx = self.expr(n.value.value)
            if tx != I:
                refuse(n, ".fitness.wvalues of %s" % show(tx))
            return "(iw %s)" % x, T
        refuse(n, "expression outside the grammar")

    def binop(self, n):
        if isinstance(n.op, ast.Div):
            # x / 2.0  : a half-integer, carried doubled
            if not (isinstance(n.right, ast.Constant) and type(n.right.value) is float and n.right.value == 2.0):
                refuse(n, "true division other than by the constant 2.0")
            t, ty = self.num(n.left)
            if ty != Z:
                refuse(n, "halving a value that is already a half-integer")
            return t, H
        if isinstance(n.op, (ast.FloorDiv, ast.Mod)):
            if not (isinstance(n.right, ast.Constant) and type(n.right.value) is int and n.right.value > 0):
                refuse(n, "// or % by something else than a positive integer constant")
            t = self.expr_of(n.left, Z)
            return "(%s %s %d)" % (t, "/" if isinstance(n.op, ast.FloorDiv) else "mod", n.right.value), Z
        if isinstance(n.op, (ast.Add, ast.Sub, ast.Mult)):
            a, ta = self.expr(n.left)
            b, tb = self.expr(n.right)
            if is_list(ta) and is_list(tb) and isinstance(n.op, ast.Add):
                return "(%s ++ %s)" % (a, b), unify(ta, tb, n)
            if ta not in (Z, H) or tb not in (Z, H):
                refuse(n, "arithmetic on %s and %s" % (show(ta), show(tb)))
            op = {ast.Add: "+", ast.Sub: "-", ast.Mult: "*"}[type(n.op)]
            if isinstance(n.op, ast.Mult):
                if ta == H and tb == H:
                    refuse(n, "product of two half-integers")
                return "(%s * %s)" % (a, b), (H if H in (ta, tb) else Z)
            ty = H if H in (ta, tb) else Z
            return "(%s %s %s)" % (self.as_type(a, ta, ty, n), op, self.as_type(b, tb, ty, n)), ty
        refuse(n, "binary operator")

    def compare(self, n, op, left, right):
        a, ta = self.expr(left)
        b, tb = self.expr(right)
        if ta in (Z, H) and tb in (Z, H):
            ty = H if H in (ta, tb) else Z
            a, b = self.as_type(a, ta, ty, n), self.as_type(b, tb, ty, n)
            ops = {ast.Lt: "(%s <? %s)", ast.LtE: "(%s <=? %s)", ast.Gt: "(%s >? %s)", ast.GtE: "(%s >=? %s)",
                   ast.Eq: "(%s =? %s)", ast.NotEq: "(negb (%s =? %s))"}
            if type(op) not in ops:
                refuse(n, "comparison operator on numbers")
            return ops[type(op)] % (a, b)
        if ta == T and tb == T:
            ops = {ast.Lt: "(tup_lt %s %s)" % (a, b), ast.LtE: "(tup_le %s %s)" % (a, b), ast.Gt: "(tup_lt %s %s)" % (b, a),
                   ast.GtE: "(tup_le %s %s)" % (b, a), ast.Eq: "(key_eqb %s %s)" % (a, b),
                   ast.NotEq: "(negb (key_eqb %s %s))" % (a, b)}
            if type(op) not in ops:
                refuse(n, "comparison operator on tuples")
            return ops[type(op)]
        refuse(n, "comparison of %s with %s" % (show(ta), show(tb)))

    def subscript(self, n):
        v, tv = self.expr(n.value)
        s = n.slice
        if isinstance(s, ast.Slice):
            if s.step is not None or (s.lower is None) == (s.upper is None):
                refuse(n, "slice other than [:e] / [s:]")
            if tv != T and not is_list(tv):
                refuse(n, "slice of %s" % show(tv))
            if s.lower is None:
                return "(slice_to %s %s)" % (v, self.expr_of(s.upper, Z)), tv
            return "(slice_from %s %s)" % (v, self.expr_of(s.lower, Z)), tv
        if tv == T:
            return "(item %s %s)" % (v, self.expr_of(s, Z)), Z
        if tv == F:
            return "(fget %s %s)" % (v, self.expr_of(s, T)), Z
        if tv == G:
            if isinstance(n.value, ast.Name):
                self.tainted.add(n.value.id)
            else:
                refuse(n, "subscript of an anonymous defaultdict")
            return "(kget %s %s [])" % (v, self.expr_of(s, T)), L(I)
        if is_list(tv):
            if elt(tv) is None:
                refuse(n, "subscript of a list of unknown element type")
            return "(py_nth %s %s %s)" % (default(elt(tv), n), v, self.expr_of(s, Z)), elt(tv)
        refuse(n, "subscript of %s" % show(tv))

    def keyfun(self, n):
        """an expression denoting a key function tuple -> number"""
        if isinstance(n, ast.Name):
            t, ty = self.var(n, n.id)
            if ty != K:
                refuse(n, "%s is not a key function" % n.id)
            return t
        if isinstance(n, ast.Call) and isinstance(n.func, ast.Name) and n.func.id == "itemgetter" and "itemgetter" not in self.env:
            if len(n.args) != 1 or n.keywords:
                refuse(n, "itemgetter with other than one argument")
            return "(fun f_ => item f_ %s)" % self.expr_of(n.args[0], Z)
        if isinstance(n, ast.Attribute) and n.attr == "__getitem__" and isinstance(n.value, ast.Name):
            t, ty = self.var(n.value, n.value.id)
            if ty != F:
                refuse(n, "__getitem__ of %s" % show(ty))
            return "(fget %s)" % t
        refuse(n, "key function outside the grammar")

    def call(self, n):
        f = n.func
        kw = {k.arg: k.value for k in n.keywords}
        if None in kw or any(isinstance(a, ast.Starred) for a in n.args):
            refuse(n, "star arguments")
        if isinstance(f, ast.Attribute):
            if isinstance(f.value, ast.Name) and f.value.id not in self.env:
                mod, at = f.value.id, f.attr
                if (mod, at) == ("bisect", "bisect_right") and len(n.args) == 2 and not kw:
                    a, ta = self.expr(n.args[0])
                    unify(ta, L(Z), n)
                    return "(bisect_right %s %s)" % (a, self.expr_of(n.args[1], Z)), Z
                if (mod, at) == ("math", "isinf") and len(n.args) == 1 and not kw:
                    self.num(n.args[0])
                    return "false", B       # exact numbers: no infinities in the model (float overflow is outside it)
            if isinstance(f.value, ast.Name) and f.value.id == "dict" and "dict" not in self.env and f.attr == "fromkeys" \
                    and len(n.args) == 2 and not kw:
                a, ta = self.expr(n.args[0])
                unify(ta, L(T), n)
                return "(fromkeys %s %s)" % (a, self.expr_of(n.args[1], Z)), F
            if isinstance(f.value, ast.Name) and f.value.id in self.env and not n.args and not kw:
                x, tx = self.var(f.value, f.value.id)
                if f.attr == "keys" and tx == G:
                    if f.value.id in self.tainted:
                        refuse(n, "keys of a defaultdict after it was read by subscript")
                    return "(kkeys %s)" % x, L(T)
                if f.attr == "values" and tx == F:
                    return "(map snd %s)" % x, L(Z)
            refuse(n, "method / module function outside the grammar")
        if not isinstance(f, ast.Name):
            refuse(n, "called object")
        name = f.id
        if name in self.env:
            if self.env[name] == K and len(n.args) == 1 and not kw:
                return "(%s %s)" % (cn(name), self.expr_of(n.args[0], T)), Z
            refuse(n, "call of the local %s" % name)
        if name == "itemgetter":
            return self.keyfun(n), K
        if name == "iter" and len(n.args) == 1 and not kw:
            x, tx = self.expr(n.args[0])
            unify(tx, L(T), n)
            return x, IT
        if name == "defaultdict":
            if len(n.args) == 1 and not kw and isinstance(n.args[0], ast.Name) and n.args[0].id == "list" and "list" not in self.env:
                return "(@nil (wvals * list ind))", G
            refuse(n, "defaultdict of something else than list")
        if name == "len" and len(n.args) == 1 and not kw:
            a = n.args[0]
            if isinstance(a, ast.Call) and isinstance(a.func, ast.Name) and a.func.id == "frozenset" and "frozenset" not in self.env \
                    and len(a.args) == 1 and not a.keywords:
                x, tx = self.expr(a.args[0])
                unify(tx, L(Z), a)
                return "(zlen (distinct %s))" % x, Z
            x, tx = self.expr(a)
            if tx != T and not is_list(tx):
                refuse(n, "len of %s" % show(tx))
            return "(zlen %s)" % x, Z
        if name == "abs" and len(n.args) == 1 and not kw:
            t, ty = self.num(n.args[0])
            return "(Z.abs %s)" % t, ty
        if name in ("max", "min"):
            if len(n.args) == 2 and not kw:
                a, ta = self.num(n.args[0])
                b, tb = self.num(n.args[1])
                ty = H if H in (ta, tb) else Z
                return "(Z.%s %s %s)" % (name, self.as_type(a, ta, ty, n), self.as_type(b, tb, ty, n)), ty
            if len(n.args) == 1 and set(kw) == {"key"}:
                x, tx = self.expr(n.args[0])
                unify(tx, L(T), n)
                return "(py_%s %s %s [])" % (name, self.keyfun(kw["key"]), x), T
            if len(n.args) == 1 and not kw:
                x, tx = self.expr(n.args[0])
                unify(tx, L(Z), n)
                return ("(zmax_list %s 0)" % x if name == "max" else "(zmin_list %s)" % x), Z
            refuse(n, "%s with these arguments" % name)
        if name == "sorted" and len(n.args) == 1 and set(kw) == {"key"}:
            x, tx = self.expr(n.args[0])
            unify(tx, L(T), n)
            return "(sorted_key %s %s)" % (self.keyfun(kw["key"]), x), L(T)
        if name == "map" and len(n.args) == 2 and not kw:
            x, tx = self.expr(n.args[1])
            unify(tx, L(T), n)
            return "(map %s %s)" % (self.keyfun(n.args[0]), x), L(Z)
        if name == "list" and len(n.args) == 1 and not kw:
            x, tx = self.expr(n.args[0])
            if not is_list(tx):
                refuse(n, "list() of %s" % show(tx))
            return x, tx
        if name in SIG:
            sg = SIG[name]
            if sg["inout"] or sg["fuel"] or sg["ret"] == U:
                refuse(n, "procedure %s used as an expression" % name)
            return self.call_sig(n, sg), sg["ret"]
        refuse(n, "call of %s" % name)

    def call_sig(self, n, sg, fuel=None):
        if n.keywords or len(n.args) != len(sg["params"]):
            refuse(n, "call of %s with other than its %d positional arguments" % (sg["name"], len(sg["params"])))
        args = []
        for (p, ty), a in zip(sg["params"], n.args):
            if ty == K:
                args.append(self.keyfun(a))
            else:
                args.append(self.expr_of(a, ty))
        return "(gen_%s %s%s)" % (sg["name"], (fuel + " ") if fuel else "", " ".join(args))

    # -- statements ----------------------------------------------------------------------------------------
    def bind(self, node, name, ty):
        if is_list(ty) and elt(ty) is None and name in self.sig["hints"]:
            ty[1][0] = self.sig["hints"][name]
        if name in BUILTINS or name in SIG or name in EXPECTED:
            refuse(node, "%s, a name of fixed meaning, is rebound" % name)
        if name in self.env and self.env[name] is not None:
            old = self.env[name]
            if old == H and ty == Z:
                return H
            if old in (OT, NT) and ty == OT:
                self.env[name] = OT
                return OT
            if (is_list(old) or is_prod(old)) and (is_list(ty) or is_prod(ty)):
                ty = unify(old, ty, node)
            elif old != ty:
                refuse(node, "%s changes its type from %s to %s" % (name, show(old), show(ty)))
        self.env[name] = ty
        return ty

    def let(self, node, name, txt, ty, cont):
        want = self.bind(node, name, ty)
        return "let %s := %s in\n%s" % (cn(name), self.as_type(txt, ty, want, node), cont())

    def block(self, stmts, k, ctx):
        if not stmts:
            return k()
        s, rest = stmts[0], stmts[1:]
        nxt = lambda: self.block(rest, k, ctx)     # noqa
        if isinstance(s, ast.Pass) or (isinstance(s, ast.Expr) and isinstance(s.value, ast.Constant) and isinstance(s.value.value, str)):
            return nxt()
        if isinstance(s, ast.Return):       # (statements after it in the same block are unreachable)
            if self.sig["ret"] == U:
                if s.value is not None:
                    refuse(s, "a procedure returns a value")
                return ctx.ret(self.inout_tuple(s))
            if s.value is None:
                refuse(s, "return without a value")
            if self.sig["ret"] == R:
                # a list of fronts, or (first_front_only) one flat front; the empty display is the empty list of fronts
                t, ty = self.expr(s.value)
                if isinstance(s.value, ast.List) and not s.value.elts:
                    unify(ty, L(L(I)), s)
                if is_list(ty) and is_list(elt(ty)):
                    unify(ty, L(L(I)), s)
                    return ctx.ret("(LFronts %s)" % t)
                if is_list(ty) and elt(ty) == I:
                    return ctx.ret("(LFlat %s)" % t)
                refuse(s, "returned value of type %s" % show(ty))
            return ctx.ret(self.expr_of(s.value, self.sig["ret"]))
        if isinstance(s, ast.Break):
            if ctx.brk is None:
                refuse(s, "break here")
            return ctx.brk()
        if isinstance(s, ast.Continue):
            if ctx.nxt is None:
                refuse(s, "continue here")
            return ctx.nxt()
        if isinstance(s, ast.Assign):
            return self.assign(s, nxt)
        if isinstance(s, ast.AugAssign):
            if not isinstance(s.target, ast.Name):
                refuse(s, "augmented assignment to something else than a name")
            e = ast.BinOp(left=ast.Name(id=s.target.id, ctx=ast.Load()), op=s.op, right=s.value)
            ast.copy_location(e, s)
            ast.fix_missing_locations(e)
            t, ty = self.expr(e)
            return self.let(s, s.target.id, t, ty, nxt)
        if isinstance(s, ast.Delete):
            return self.delete(s, list(s.targets), nxt)
        if isinstance(s, ast.Expr):
            return self.expr_stmt(s, nxt)
        if isinstance(s, ast.If):
            return self.stmt_if(s, rest, k, ctx)
        if isinstance(s, ast.For):
            return self.stmt_for(s, rest, k, ctx)
        if isinstance(s, ast.While):
            return self.stmt_while(s, rest, k, ctx)
        refuse(s, "statement outside the grammar")

    def inout_tuple(self, node):
        return tup([self.as_type(*(self.var(node, p) + (dict(self.sig["params"])[p], node))) for p in self.sig["inout"]])

    def mutable(self, node, name):
        """the variable may be updated in place: a local that is not an alias, or an in-out parameter"""
        self.var(node, name)
        if name in self.aliased:
            refuse(node, "in-place update of %s, which may be aliased" % name)
        if name in dict(self.sig["params"]) and name not in self.sig["inout"]:
            refuse(node, "in-place update of the parameter %s" % name)

    def shared(self, v, ty):
        """may the (list / dict) value of expression v be shared with another variable or container?  Fresh: displays,
        comprehensions, slices, concatenations, and the results of the builtins that build a new object"""
        if ty == IT:
            return True
        if not (is_list(ty) or ty in (F, G)):
            return False
        if isinstance(v, (ast.List, ast.ListComp, ast.BinOp)):
            return False
        if isinstance(v, ast.Subscript) and isinstance(v.slice, ast.Slice):
            return False
        if isinstance(v, ast.Call) and isinstance(v.func, ast.Name) and v.func.id in ("list", "sorted", "defaultdict", "map"):
            return False
        if isinstance(v, ast.Call) and isinstance(v.func, ast.Attribute) and v.func.attr in ("fromkeys", "keys", "values"):
            return False
        return True

    def assign(self, s, nxt):
        if len(s.targets) != 1:
            refuse(s, "chained assignment")
        tg = s.targets[0]
        v = s.value
        if isinstance(tg, ast.Name) and isinstance(v, ast.Call) and isinstance(v.func, ast.Name) and v.func.id == "next" \
                and "next" not in self.env:
            # x = next(it, False): the head of the rest (None = exhausted), the iterator advances
            if len(v.args) != 2 or v.keywords or not isinstance(v.args[0], ast.Name) or self.env.get(v.args[0].id) != IT \
                    or not (isinstance(v.args[1], ast.Constant) and v.args[1].value is False) or tg.id == v.args[0].id:
                refuse(s, "next() other than  x = next(it, False)  on an iterator variable")
            it = cn(v.args[0].id)
            self.bind(s, tg.id, OT)
            return "let %s := hd_error %s in\nlet %s := tl %s in\n%s" % (cn(tg.id), it, it, it, nxt())
        if isinstance(tg, ast.Name):
            t, ty = self.expr(s.value)
            if ty in (IT, OT) and not (isinstance(v, ast.Call) and isinstance(v.func, ast.Name) and v.func.id == "iter"):
                refuse(s, "copy of an iterator / of an optional value")
            if self.shared(s.value, ty):
                self.aliased.add(tg.id)
                for x in ast.walk(s.value):
                    if isinstance(x, ast.Name) and x.id in self.env:
                        self.aliased.add(x.id)
            else:
                self.aliased.discard(tg.id)
            return self.let(s, tg.id, t, ty, nxt)
        if isinstance(tg, ast.Tuple) and all(isinstance(e, ast.Name) for e in tg.elts):
            names = [e.id for e in tg.elts]
            if len(set(names)) != len(names):
                refuse(s, "repeated name in a tuple target")
            t, ty = self.expr(s.value)
            if not is_prod(ty) or len(ty[1]) != len(names):
                refuse(s, "unpacking %s into %d names" % (show(ty), len(names)))
            if isinstance(s.value, ast.Tuple):
                for nm, e, et in zip(names, s.value.elts, ty[1]):
                    if self.shared(e, et):
                        self.aliased.add(nm)
                        for x in ast.walk(e):
                            if isinstance(x, ast.Name) and x.id in self.env:
                                self.aliased.add(x.id)
                    else:
                        self.aliased.discard(nm)
            else:       # the components of a returned tuple may be shared with the callee's arguments
                for nm, et in zip(names, ty[1]):
                    if is_list(et) or et in (F, G):
                        self.aliased.add(nm)
            parts = []
            for nm, et in zip(names, ty[1]):
                want = self.bind(s, nm, et)
                if want != et and not (is_list(et) or is_prod(et)):
                    refuse(s, "tuple assignment would change the type of %s" % nm)
                parts.append(cn(nm))
            return "let %s := %s in\n%s" % (pat(parts), t, nxt())
        if isinstance(tg, ast.Subscript) and isinstance(tg.value, ast.Name) and not isinstance(tg.slice, ast.Slice):
            nm = tg.value.id
            self.mutable(tg, nm)
            if self.env[nm] != F:
                refuse(s, "item assignment on %s" % show(self.env[nm]))
            kx = self.expr_of(tg.slice, T)
            vx = self.expr_of(s.value, Z)
            return "let %s := kset %s %s %s in\n%s" % (cn(nm), cn(nm), kx, vx, nxt())
        refuse(s, "assignment target outside the grammar")

    def delete(self, s, targets, nxt):
        if not targets:
            return nxt()
        tg = targets[0]
        if not (isinstance(tg, ast.Subscript) and isinstance(tg.value, ast.Name) and not isinstance(tg.slice, ast.Slice)):
            refuse(s, "del of something else than x[i]")
        nm = tg.value.id
        self.mutable(tg, nm)
        if not is_list(self.env[nm]):
            refuse(s, "del on %s" % show(self.env[nm]))
        ix = self.expr_of(tg.slice, Z)
        return "let %s := py_del %s %s in\n%s" % (cn(nm), cn(nm), ix, self.delete(s, targets[1:], nxt))

    def expr_stmt(self, s, nxt):
        c = s.value
        if not isinstance(c, ast.Call):
            refuse(s, "expression statement")
        if isinstance(c.func, ast.Attribute) and isinstance(c.func.value, ast.Name) and c.func.attr == "sort":
            nm = c.func.value.id
            self.mutable(c, nm)
            kws = {k.arg: k.value for k in c.keywords}
            if c.args or set(kws) != {"reverse"} or not (isinstance(kws["reverse"], ast.Constant) and kws["reverse"].value is True):
                refuse(s, "sort with other arguments than reverse=True")
            unify(self.env[nm], L(T), s)
            return "let %s := sort_desc %s in\n%s" % (cn(nm), cn(nm), nxt())
        if c.keywords:
            refuse(s, "expression statement")
        if isinstance(c.func, ast.Attribute) and isinstance(c.func.value, ast.Subscript) and isinstance(c.func.value.value, ast.Name) \
                and not isinstance(c.func.value.slice, ast.Slice) and len(c.args) == 1:
            nm, at, ix = c.func.value.value.id, c.func.attr, c.func.value.slice
            self.mutable(c, nm)
            ty = self.env[nm]
            if ty == G and at == "append":       # d[k].append(x) on a defaultdict(list)
                kx = self.expr_of(ix, T)
                x = self.expr_of(c.args[0], I)
                return "let %s := kset %s %s (kget %s %s [] ++ [%s]) in\n%s" % (cn(nm), cn(nm), kx, cn(nm), kx, x, nxt())
            if is_list(ty) and is_list(elt(ty)) and at == "extend":       # l[i].extend(xs) on a list of lists
                i = self.expr_of(ix, Z)
                x, tx = self.expr(c.args[0])
                unify(elt(ty), tx, s)
                return "let %s := py_extend_at %s %s %s in\n%s" % (cn(nm), cn(nm), i, x, nxt())
            refuse(s, "method %s on a subscript of %s" % (at, show(ty)))
        if isinstance(c.func, ast.Attribute) and isinstance(c.func.value, ast.Name):
            nm, at = c.func.value.id, c.func.attr
            self.mutable(c, nm)
            ty = self.env[nm]
            if not is_list(ty):
                refuse(s, "method call on %s" % show(ty))
            if at == "append" and len(c.args) == 1:
                x, tx = self.expr(c.args[0])
                ty[1][0] = unify(elt(ty), tx, s)
                return "let %s := %s ++ [%s] in\n%s" % (cn(nm), cn(nm), x, nxt())
            if at == "insert" and len(c.args) == 2:
                ix = self.expr_of(c.args[0], Z)
                x, tx = self.expr(c.args[1])
                ty[1][0] = unify(elt(ty), tx, s)
                return "let %s := py_insert %s %s %s in\n%s" % (cn(nm), cn(nm), ix, x, nxt())
            refuse(s, "method %s" % at)
        if isinstance(c.func, ast.Name) and c.func.id in SIG and c.func.id not in self.env:
            sg = SIG[c.func.id]
            if sg["ret"] != U or not sg["inout"]:
                refuse(s, "result of %s is discarded" % sg["name"])
            if len(c.args) != len(sg["params"]):
                refuse(s, "call of %s with other than its positional arguments" % sg["name"])
            outs = []
            for (p, _), a in zip(sg["params"], c.args):
                if p in sg["inout"]:
                    if not isinstance(a, ast.Name):
                        refuse(a, "an in-out argument must be a variable")
                    self.mutable(a, a.id)
                    outs.append(cn(a.id))
            if sg["fuel"]:
                if not self.sig["fuel"]:
                    refuse(s, "call of the recursive procedure %s from a function without fuel" % sg["name"])
                if self.loop_depth:
                    refuse(s, "call of the recursive procedure %s inside a loop" % sg["name"])
                if sg["fuel"] == "opt":
                    fuel = None
                elif self.sig["fuel"] == "opt":
                    if not sg["callfuel"]:
                        refuse(s, "no fuel is tabulated for a call of %s from a non-recursive function" % sg["name"])
                    fuel = sg["callfuel"].format(*[self.expr(a)[0] for a in c.args])
                else:
                    fuel = "fu"
                return "obind %s (fun %s =>\n%s)" % (self.call_sig(c, sg, fuel), pat(outs), nxt())
            return "let %s := %s in\n%s" % (pat(outs), self.call_sig(c, sg), nxt())
        refuse(s, "call statement outside the grammar")

    loop_depth = 0

    def stmt_if(self, s, rest, k, ctx):
        c = self.expr_of(s.test, B)
        env0, al0 = dict(self.env), set(self.aliased)
        if escapes(s.body + s.orelse):
            a = self.block(list(s.body) + rest, k, ctx)
            self.env, self.aliased = dict(env0), set(al0)
            b = self.block(list(s.orelse) + rest, k, ctx)
            return "if %s then\n%s\nelse\n%s" % (c, a, b)
        names = assigned(list(s.body) + list(s.orelse))
        a = self.block(list(s.body), lambda: JOIN, ctx)
        env_a, al_a = self.env, self.aliased
        self.env, self.aliased = dict(env0), set(al0)
        b = self.block(list(s.orelse), lambda: JOIN, ctx)
        env_b = self.env
        self.aliased = self.aliased | al_a
        joined = []
        jnames = []
        env = dict(env0)
        for nm in names:
            if nm in env_a and nm in env_b:
                ta, tb = env_a[nm], env_b[nm]
                if zh(ta, tb):
                    refuse(s, "%s is an integer on one branch and a half-integer on the other" % nm)
                if OT in (ta, tb) and NT in (ta, tb):
                    ta = tb = OT
                env[nm] = unify(ta, tb, s)
                joined.append(cn(nm))
                jnames.append(nm)
            else:
                env.pop(nm, None)      # bound on one path only: not usable afterwards
        self.env = env
        if not joined:
            return self.block(rest, k, ctx)
        return "let %s := (if %s then\n%s\nelse\n%s) in\n%s" % (pat(joined), c, a.replace(JOIN, self.vtup(jnames, env_a)),
                                                               b.replace(JOIN, self.vtup(jnames, env_b)), self.block(rest, k, ctx))

    def iterable(self, n):
        """(text of a Coq list, element type)"""
        if isinstance(n, ast.Call) and isinstance(n.func, ast.Name) and n.func.id not in self.env and not n.keywords:
            if n.func.id == "zip" and len(n.args) == 2:
                a, ta = self.seq(n.args[0])
                b, tb = self.seq(n.args[1])
                return "(zip %s %s)" % (a, b), P(ta, tb)
            if n.func.id == "enumerate" and len(n.args) in (1, 2):
                a, ta = self.seq(n.args[0])
                st = self.expr_of(n.args[1], Z) if len(n.args) == 2 else "0"
                return "(enum_from %s %s)" % (st, a), P(Z, ta)
        return self.seq(n)

    def seq(self, n):
        t, ty = self.expr(n)
        if ty == T:
            return t, Z
        if is_list(ty):
            if elt(ty) is None:
                refuse(n, "iteration over a list of unknown element type")
            return t, elt(ty)
        refuse(n, "iteration over %s" % show(ty))

    def stmt_for(self, s, rest, k, ctx):
        if s.orelse:
            refuse(s, "for ... else")
        it, ety = self.iterable(s.iter)
        tg = s.target
        if isinstance(tg, ast.Name):
            tnames, ttypes = [tg.id], [ety]
        elif isinstance(tg, ast.Tuple) and all(isinstance(e, ast.Name) for e in tg.elts) and is_prod(ety) and len(ety[1]) == len(tg.elts):
            tnames, ttypes = [e.id for e in tg.elts], list(ety[1])
        else:
            refuse(s, "loop target")
        if len(set(tnames)) != len(tnames):
            refuse(s, "repeated name in the loop target")
        body_assigned = assigned(list(s.body))
        for nm in tnames:
            if nm in body_assigned:
                refuse(s, "the loop variable %s is assigned in the body" % nm)
            if nm in BUILTINS or nm in SIG or nm in EXPECTED:
                refuse(s, "loop variable %s has a fixed meaning" % nm)
        carried = [nm for nm in body_assigned if nm in self.env]
        for nm in carried:
            self.mutable_or_local(s, nm)
        for nm in self.live_names(s.iter):
            if nm in body_assigned and not mut_safe(list(s.body), nm):
                refuse(s, "the loop iterates over %s, which its body updates without leaving the loop at once" % nm)
        env0 = dict(self.env)
        for nm, ty in zip(tnames, ttypes):
            self.env[nm] = ty
        state = [cn(nm) for nm in carried]
        has_ret = has(list(s.body), ast.Return, into_loops=True)
        has_brk = has(list(s.body), (ast.Break, ast.Continue))
        has_opt = has(list(s.body), ast.While, into_loops=True)
        if has_opt and (has_ret or has_brk or self.sig["fuel"] != "opt"):
            refuse(s, "a loop containing a while loop and return / break / continue")
        init = self.vtup(carried)
        if not has_opt:
            self.loop_depth += 1
        if has_ret or has_brk:
            body_ctx = Ctx(ret=lambda t: "Ret %s" % t, brk=lambda: "Brk %s" % self.vtup(carried), nxt=lambda: "Nxt %s" % self.vtup(carried))
            body = self.block(list(s.body), lambda: "Nxt %s" % self.vtup(carried), body_ctx)
        elif has_opt:
            body_ctx = Ctx(ret=None)
            body = self.block(list(s.body), lambda: "Some %s" % self.vtup(carried), body_ctx)
        else:
            body_ctx = Ctx(ret=None)
            body = self.block(list(s.body), lambda: self.vtup(carried), body_ctx)
        if not has_opt:
            self.loop_depth -= 1
        # after the loop: the carried variables (types as refined in the body); loop variables and body locals are gone
        env = dict(env0)
        for nm in carried:
            env[nm] = OT if self.env[nm] == NT else self.env[nm]
        for nm in tnames:
            env.pop(nm, None)
        for nm in body_assigned:
            if nm not in carried:
                env.pop(nm, None)
        self.env = env
        if has_ret:
            return "match for_loop %s (fun %s %s =>\n%s) %s with\n| inl r_ => %s\n| inr %s =>\n%s\nend" % (
                it, pat([cn(x) for x in tnames]), pat(state), body, init, ctx.ret("r_"), pat(state).lstrip("'"),
                self.block(rest, k, ctx))
        if has_brk:
            return "let %s := for_brk %s (fun %s %s =>\n%s) %s in\n%s" % (
                pat(state), it, pat([cn(x) for x in tnames]), pat(state), body, init, self.block(rest, k, ctx))
        if has_opt:
            return "obind (fold_opt (fun %s %s =>\n%s) %s %s) (fun %s =>\n%s)" % (
                pat(state), pat([cn(x) for x in tnames]), body, it, init, pat(state), self.block(rest, k, ctx))
        return "let %s := fold_left (fun %s %s =>\n%s) %s %s in\n%s" % (
            pat(state), pat(state), pat([cn(x) for x in tnames]), body, it, init, self.block(rest, k, ctx))

    def stmt_while(self, s, rest, k, ctx):
        """while c: body  ->  while_loop FUEL (fun state => c) (fun state => body) state : option state  (None = out of fuel).
        `while x and c` with x = next(it, False): x is a tuple inside the body"""
        if s.orelse:
            refuse(s, "while ... else")
        if self.sig["fuel"] != "opt" or not self.sig.get("whilefuel"):
            refuse(s, "while loop in a function without a tabulated iteration bound")
        if escapes(list(s.body)):
            refuse(s, "return / break / continue / while / call of a recursive procedure inside a while loop")
        body_assigned = assigned(list(s.body))
        carried = [nm for nm in body_assigned if nm in self.env]
        for nm in carried:
            self.mutable_or_local(s, nm)
        state = [cn(nm) for nm in carried]
        init = self.vtup(carried)
        env0 = dict(self.env)
        cond = self.expr_of(s.test, B)
        narrow = None
        if isinstance(s.test, ast.BoolOp) and isinstance(s.test.op, ast.And) and isinstance(s.test.values[0], ast.Name) \
                and self.env.get(s.test.values[0].id) == OT:
            narrow = s.test.values[0].id
            if narrow not in carried:
                refuse(s, "the optional value tested by the while loop is not updated in its body")
            self.env[narrow] = NT
        self.loop_depth += 1
        body = self.block(list(s.body), lambda: self.vtup(carried), Ctx(ret=None))
        self.loop_depth -= 1
        if narrow:
            body = "match %s with\n| Some %s =>\n%s\n| None => %s\nend" % (cn(narrow), cn(narrow), body, tup(state))
        env = dict(env0)
        for nm in carried:
            env[nm] = OT if self.env[nm] == NT else self.env[nm]
        for nm in body_assigned:
            if nm not in carried:
                env.pop(nm, None)
        self.env = env
        return "obind (while_loop %s (fun %s => %s) (fun %s =>\n%s) %s) (fun %s =>\n%s)" % (
            self.sig["whilefuel"], pat(state), cond, pat(state), body, init, pat(state), self.block(rest, k, ctx))

    def live_names(self, n):
        """names whose (mutable) value the iteration reads while it runs: not those under a slice or a copying builtin"""
        if isinstance(n, ast.Name):
            return [n.id]
        if isinstance(n, ast.Subscript) and isinstance(n.slice, ast.Slice):
            return []
        if isinstance(n, ast.Call) and isinstance(n.func, ast.Name) and n.func.id in ("list", "sorted", "range"):
            return []
        out = []
        for c in ast.iter_child_nodes(n):
            out += self.live_names(c)
        return out

    def mutable_or_local(self, node, nm):
        if nm in dict(self.sig["params"]) and nm not in self.sig["inout"] and (is_list(self.env[nm]) or self.env[nm] == F):
            refuse(node, "the parameter %s is updated" % nm)


# ---- module level ----------------------------------------------------------------------------------------
FORBIDDEN = (ast.Global, ast.Nonlocal, ast.Try, ast.With, ast.Yield, ast.YieldFrom, ast.Await, ast.ClassDef, ast.Import,
             ast.ImportFrom, ast.NamedExpr, ast.FunctionDef, ast.AsyncFunctionDef, ast.AsyncFor, ast.AsyncWith,
             ast.Assert, ast.SetComp, ast.DictComp, ast.GeneratorExp, ast.JoinedStr, ast.Dict, ast.Set,
             ast.Lambda, ast.Raise, ast.Starred)


def check_module(tree):
    top = {}
    for n in tree.body:
        if isinstance(n, ast.Import):
            for a in n.names:
                top.setdefault((a.asname or a.name).split(".")[0], []).append(("import", None, a.name, n))
        elif isinstance(n, ast.ImportFrom):
            for a in n.names:
                if a.name == "*":
                    refuse(n, "star import")
                top.setdefault(a.asname or a.name, []).append(("from", n.module, a.name, n))
        elif isinstance(n, (ast.FunctionDef, ast.AsyncFunctionDef, ast.ClassDef)):
            top.setdefault(n.name, []).append(("def", None, None, n))
        elif isinstance(n, ast.Expr) and isinstance(n.value, ast.Constant):
            pass
        else:
            for t in ast.walk(n):
                if isinstance(t, ast.Name) and isinstance(t.ctx, (ast.Store, ast.Del)):
                    top.setdefault(t.id, []).append(("assign", None, None, n))
                elif isinstance(t, (ast.Import, ast.ImportFrom, ast.FunctionDef, ast.AsyncFunctionDef, ast.ClassDef)):
                    refuse(t, "conditional module-level binding")
    for n in ast.walk(tree):
        if isinstance(n, (ast.Global, ast.Nonlocal)):
            refuse(n, "global/nonlocal declaration")
    for b in BUILTINS:
        if b in top:
            refuse(top[b][0][3], "builtin %s is rebound at module level" % b)
    for nm, (kind, mod, orig) in EXPECTED.items():
        bs = top.get(nm, [])
        if len(bs) != 1 or bs[0][:3] != (kind, mod, orig):
            refuse(bs[0][3] if bs else "Module", "%s is not bound exactly once by the expected import" % nm)
    defs = {}
    for name in SIG:
        ds = top.get(name, [])
        if len(ds) != 1 or ds[0][0] != "def" or not isinstance(ds[0][3], ast.FunctionDef):
            defs[name] = Refuse("Module", "%s is bound %d times at module level / not by a plain def" % (name, len(ds)))
        else:
            defs[name] = ds[0][3]
    return defs


def check_function(fn, sg):
    a = fn.args
    if fn.decorator_list or a.posonlyargs or a.kwonlyargs or a.kw_defaults or a.vararg or a.kwarg or fn.returns:
        refuse(fn, "function header")
    names = [x.arg for x in a.args]
    if names != [p for p, _ in sg["params"]] or any(x.annotation is not None for x in a.args):
        refuse(fn, "parameters %r, expected %r" % (names, [p for p, _ in sg["params"]]))
    got = dict(zip(names[len(names) - len(a.defaults):], a.defaults))
    def same_default(g, v):
        if isinstance(v, str):
            return isinstance(g, ast.Name) and g.id == v
        return isinstance(g, ast.Constant) and type(g.value) is type(v) and g.value == v
    if set(got) != set(sg["defaults"]) or any(not same_default(got[k], v) for k, v in sg["defaults"].items()):
        refuse(fn, "default values of the parameters")
    for n in ast.walk(fn):
        if n is not fn and isinstance(n, FORBIDDEN):
            refuse(n, "%s inside a translated function" % type(n).__name__)
        if isinstance(n, ast.arg) and (n.arg in BUILTINS or n.arg in EXPECTED or n.arg in SIG):
            refuse(n, "parameter %s shadows a name of fixed meaning" % n.arg)


def indent(txt, n):
    return "\n".join(" " * n + l for l in txt.split("\n"))


def signature(sg):
    return " ".join("(%s : %s)" % (cn(p), coqtype(t)) for p, t in sg["params"])


def rettype(sg):
    if sg["ret"] != U:
        t = coqtype(sg["ret"])
    else:
        ts = [dict(sg["params"])[p] for p in sg["inout"]]
        t = coqtype(ts[0] if len(ts) == 1 else P(*ts))
    return "option %s" % t if sg["fuel"] else t


def translate_function(fn, sg):
    check_function(fn, sg)
    tr = FnTr(sg)
    for p, t in sg["params"]:
        tr.env[p] = t

    def end():
        if sg["ret"] != U:
            refuse(fn, "control reaches the end of the function without return")
        return top.ret(tr.inout_tuple(fn))
    top = Ctx(ret=(lambda t: "Some %s" % t) if sg["fuel"] else (lambda t: t))
    if sg["fuel"] == "opt":
        body = tr.block(list(fn.body), end, top)
        for tok, ty, node in tr.nils:
            body = body.replace(tok, "(@nil %s)" % coqtype(elt(ty), node) if elt(ty) is not None else refuse(node, "empty list of unknown element type"))
        return "Definition gen_%s %s : %s :=\n%s.\n" % (sg["name"], signature(sg), rettype(sg), indent(body, 2))
    body = tr.block(list(fn.body), end, top)
    for tok, ty, node in tr.nils:
        body = body.replace(tok, "(@nil %s)" % coqtype(elt(ty), node) if elt(ty) is not None else refuse(node, "empty list of unknown element type"))
    if sg["fuel"] is True:
        return "Fixpoint gen_%s (fuel : nat) %s : %s :=\n  match fuel with\n  | O => None\n  | S fu =>\n%s\n  end.\n" % (
            sg["name"], signature(sg), rettype(sg), indent(body, 4))
    return "Definition gen_%s %s : %s :=\n%s.\n" % (sg["name"], signature(sg), rettype(sg), indent(body, 2))


def placeholder(sg, why):
    why = str(why).replace("*)", "* )").replace("(*", "( *")
    if sg["fuel"] is True:
        return "(* REFUSED %s: %s -- placeholder: the hand model, tied by the correspondence only *)\n" \
               "Definition gen_%s (fuel : nat) %s : %s :=\n  %s.\n" % (sg["name"], why, sg["name"], signature(sg), rettype(sg), sg["model"])
    return "(* REFUSED %s: %s -- placeholder: the hand model, tied by the correspondence only *)\n" \
           "Definition gen_%s %s : %s :=\n  %s.\n" % (sg["name"], why, sg["name"], signature(sg), rettype(sg), sg["model"])


HEADER = """(* GENERATED by harness/c04_py2coq.py from %s -- do not edit, never committed *)
From Coq Require Import List ZArith Bool.
From DV Require Import Base.PyTuple Base.PyList Model.C04_NDSort Model.C04_LogSort Model.C04_GenRt.
Import ListNotations.
Local Open Scope Z_scope.

"""

TRAILER = open(os.path.join(os.path.dirname(os.path.abspath(__file__)), "c04_gen_trailer.v.in")).read() \
    if os.path.exists(os.path.join(os.path.dirname(os.path.abspath(__file__)), "c04_gen_trailer.v.in")) else ""


def forced():
    """testing hook: C04_FORCE_REFUSE=name,name (or `all`) makes the translator refuse these functions"""
    v = os.environ.get("C04_FORCE_REFUSE", "")
    return set(SIG) if v == "all" else set(x for x in v.split(",") if x)


def translate_source(src, origin="deap/tools/emo.py", also_refuse=None):
    """source text of emo.py -> (Gallina text, {function: None | Refuse}); also_refuse: {function: Refuse} decided by the
    caller (a regenerated definition that does not type-check counts as a refusal)"""
    try:
        tree = ast.parse(src)
        defs = check_module(tree)
    except (SyntaxError, ValueError, RecursionError, MemoryError) as e:
        r = Refuse("Module", "source does not parse: %s" % e)
        defs = {w: r for w in SIG}
    except Refuse as r:
        defs = {w: r for w in SIG}
    out = HEADER % origin
    status = {}
    force = forced()
    for sg in FUNCS:
        name = sg["name"]
        try:
            if name in force:
                raise Refuse("FunctionDef", "refusal forced by C04_FORCE_REFUSE")
            if also_refuse and name in also_refuse:
                raise also_refuse[name]
            if isinstance(defs[name], Refuse):
                raise defs[name]
            text = translate_function(defs[name], sg)
            status[name] = None
        except Refuse as r:
            status[name] = r
            text = placeholder(sg, r)
        except Exception as e:  # noqa  (a translator crash on an unforeseen construct is a refusal: fail closed)
            status[name] = Refuse("FunctionDef", "translator error %s: %s" % (type(e).__name__, e))
            text = placeholder(sg, status[name])
        out += text + "\n"
    return out + TRAILER, status


def translate_repo(repo, also_refuse=None):
    path = os.path.join(repo, *EMO)
    try:
        src = open(path).read()
    except (OSError, UnicodeDecodeError) as e:
        src = "\x00 unreadable: %s" % e        # -> syntax error -> refusal
    return translate_source(src, path, also_refuse)


if __name__ == "__main__":
    import sys
    txt, st = translate_repo(sys.argv[1] if len(sys.argv) > 1 else "/repo")
    print(txt)
    for k_, v_ in st.items():
        sys.stderr.write("%s: %s\n" % (k_, "translated" if v_ is None else "REFUSED %s" % v_))
