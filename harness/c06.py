"""C06 — selection operators (deap/tools/selection.py, selTournamentDCD of deap/tools/emo.py).

Every operator is run on generated populations with a scripted, logging replacement of the module
global `random`; the property statement is evaluated directly on what came back (oracle), and the
Coq model is evaluated on the same population / parameters / recorded draws (correspondence).
"""
import glob
import itertools
import functools
import json
import math
import os
from fractions import Fraction as Fr
from math import floor, ceil

import vlib
from vlib import cnat, cnatl, cbool, clist

GEN = os.path.join(vlib.COQ, "Gen", "C06_gen.v")


def regen(repo=None):
    """Tie (T): regenerate coq/Gen/C06_gen.v from the working tree's deap/tools/selection.py and emo.py.
    Returns (ok, message, status) -- status: function -> None (translated) | Refuse (placeholder = hand model);
    ok is False when nothing could be translated."""
    import c06_py2coq
    repo = repo or vlib.REPO
    try:
        txt, status = c06_py2coq.translate_repo(repo)
    except Exception as e:  # noqa  (a translator crash is a refusal of everything: fail closed)
        r = c06_py2coq.Refuse("Module", "translator error %s: %s" % (type(e).__name__, e))
        status = {f[0]: r for f in c06_py2coq.FUNCS}
        txt, _ = c06_py2coq.translate_sources({"selection": "\x00", "emo": "\x00"})     # all placeholders
    with vlib.BuildLock():
        os.makedirs(os.path.dirname(GEN), exist_ok=True)
        old = open(GEN).read() if os.path.exists(GEN) else None
        if old != txt:
            with open(GEN, "w") as f:
                f.write(txt)
    done = [k for k, v in status.items() if v is None]
    refused = ["%s (%s)" % (k, v) for k, v in status.items() if v is not None]
    msg = "regenerated: %s" % (", ".join(done) or "nothing")
    if refused:
        msg += "; translator refused: " + "; ".join(refused)
    return bool(done), msg, status


SIG_EPS = "C06.eps_lexicase_dominated_within_eps"
EXN = {"IndexError": "IndexError", "ZeroDivisionError": "ZeroDivisionError", "ValueError": "ValueError",
       "AssertionError": "AssertionError"}


# ----------------------------------------------------------------------------------------------
# literals
# ----------------------------------------------------------------------------------------------
def q(x):
    f = Fr(x)
    return "(Qmake %s %d)" % ("(%d)" % f.numerator if f.numerator < 0 else "%d" % f.numerator, f.denominator)


def ql(l):
    return clist([q(x) for x in l])


def cdraw(d):
    if d[0] == "random":
        return "DRandom %s" % q(d[1])
    if d[0] == "choice":
        return "DChoice %s %s" % (cnat(d[1]), cnat(d[2]))
    if d[0] == "shuffle":
        return "DShuffle %s" % cnatl(d[1])
    if d[0] == "sample":
        return "DSample %s %s" % (cnat(d[1]), cnatl(d[2]))
    raise ValueError(d)


def cdraws(log):
    return clist([cdraw(d) for d in log])


def jlog(log):
    return [[str(x) if isinstance(x, Fr) else x for x in d] for d in log]


# ----------------------------------------------------------------------------------------------
# scripted random
# ----------------------------------------------------------------------------------------------
class ScriptedRandom(object):
    """Stands in for the module global `random` of deap.tools.selection / deap.tools.emo.
    Values come from the script queues when given, otherwise from `rng`; everything is logged.
    random() only returns short dyadic rationals so that products with small sums are exact."""

    def __init__(self, rng, ubits=4, uscript=None, iscript=None, pscript=None, allow_zero=True):
        self.rng, self.ubits, self.log = rng, ubits, []
        self.uscript = list(uscript or [])
        self.iscript = list(iscript or [])
        self.pscript = list(pscript or [])
        self.allow_zero = allow_zero

    def random(self):
        if self.uscript:
            u = Fr(self.uscript.pop(0))
        else:
            den = 2 ** self.ubits
            u = Fr(self.rng.randrange(0 if self.allow_zero else 1, den), den)
        assert 0 <= u < 1
        self.log.append(("random", u))
        return float(u)

    def uniform(self, a, b):
        return a + (b - a) * self.random()

    def _index(self, n):
        if self.iscript:
            i = self.iscript.pop(0) % n
        else:
            i = self.rng.randrange(n)
        self.log.append(("choice", n, i))
        return i

    def choice(self, seq):
        if not len(seq):
            raise IndexError("Cannot choose from an empty sequence")
        return seq[self._index(len(seq))]

    def randrange(self, n):
        return self._index(n)

    def randint(self, a, b):
        if a != 0:
            raise AttributeError("scripted random: randint only from 0")
        return self._index(b + 1)

    def shuffle(self, x):
        n = len(x)
        if self.pscript:
            p = list(self.pscript.pop(0))
            assert sorted(p) == list(range(n))
        else:
            p = list(range(n))
            self.rng.shuffle(p)
        old = list(x)
        for j in range(n):
            x[j] = old[p[j]]
        self.log.append(("shuffle", p))

    def sample(self, population, k):
        n = len(population)
        if not 0 <= k <= n:
            raise ValueError("Sample larger than population or is negative")
        if self.pscript:
            idx = list(self.pscript.pop(0))
            assert len(idx) == k and len(set(idx)) == k
        else:
            idx = self.rng.sample(range(n), k)
        self.log.append(("sample", n, idx))
        return [population[i] for i in idx]

    def __getattr__(self, name):
        raise AttributeError("scripted random has no attribute %r" % name)


# ----------------------------------------------------------------------------------------------
# the check
# ----------------------------------------------------------------------------------------------
def main(run):
    from deap import base, tools
    import deap.tools.selection as selmod
    import deap.tools.emo as emomod

    run.rule = ("per operator: exhaustive tiny scopes (all populations over a 2-value grid with n<=3, all k, all draw scripts "
                "where feasible: best/worst, tournaments, lexicase orders, roulette/SUS with fitnesses {1,2} and all 3-bit draws, double "
                "tournament on two individuals with draws on the thresholds, DCD with every first permutation of four) plus seeded random populations of 0..8 individuals, 1..4 objectives, mixed weight signs and "
                "magnitudes {1,2,1/2}, tie-heavy value grids, sizes 0..4, k from 0 to n+3, tournament sizes 1..4, parsimony sizes "
                "in [1,2], epsilon in {0,1/4,..,2}; roulette: full-wheel scripts (every cell of the unit interval once) and random "
                "dyadic spins incl. exact boundaries; SUS: populations/k with exactly representable spacing, start draws incl. "
                "near-boundary; a case is distinct by (operator, population, parameters, draws); non-trivial = k>0 and n>0.")
    run.trusted += ["Coq 8.16.1 kernel and vm_compute",
                    "hand-written model coq/Model/C06_Select.v tied by correspondence (harness/c06.py), scripted draws through a logging "
                    "replacement of the module global `random` in deap.tools.selection and deap.tools.emo",
                    "CPython: sorted() is stable and compares keys with < only (reverse=True = reverse, sort, reverse); max(key=) returns "
                    "the first maximum using >; tuple comparison; random.uniform(a,b) = a+(b-a)*random(); random.random() in [0,1); "
                    "random.choice/sample/shuffle return an element / distinct elements / a permutation; numpy.median = middle element "
                    "or mean of the two middle ones",
                    "floats restricted to short dyadic rationals so that every sum/product the operators compute is exact "
                    "(the harness checks this with exact fractions and skips anything else)"]
    run.assumptions += ["fitness values finite, all individuals evaluated with the same fitness class, non-zero weights",
                        "roulette/SUS: first objective maximised and strictly positive; all float arithmetic exact",
                        "SUS: the start draw random.random() is not exactly 0.0 (DESIGN App. B4)",
                        "selTournamentDCD: k <= n and k a multiple of 4; crowding_dist assigned",
                        "k >= 0 (negative k not modelled)"]
    run.build_props()
    # ---- tie (T): regenerate Gen/C06_gen.v from the working tree, re-prove `regenerated = model` and the theorems
    gen_check = "check"
    ok, msg, status = regen()
    refused = {k: v for k, v in status.items() if v is not None}
    run.extra_cov["regenerated_functions"] = [k for k, v in status.items() if v is None]
    run.extra_cov["translator_refused"] = {k: str(v) for k, v in refused.items()}
    for k, v in refused.items():
        run.notes.append("tie: correspondence-only (translator refused %s at line %s in %s: %s)" % (v.node, v.line, k, v.why))
    if ok:
        gen_ok = run.build_props(props="Props/C06_gen.v")
        if gen_ok:
            gen_check = "check_both"
            run.notes.append("tie: regenerated (%s)" % ", ".join(run.extra_cov["regenerated_functions"]))
            run.extra_cov["tie"] = ("translation (regenerated definitions proved equal to the hand model: %s) + correspondence%s"
                                    % (", ".join(run.extra_cov["regenerated_functions"]),
                                       "; correspondence-only for " + ", ".join(sorted(refused)) if refused else ""))
            run.trusted.append("translator harness/c06_py2coq.py and its signature table (source text -> coq/Gen/C06_gen.v) with the "
                               "statement vocabulary coq/Model/C06_GenRt.v; the regenerated definitions are proved equal to the "
                               "hand model (Proofs/C06_gen_equiv.v) and evaluated against the implementation on every run")
        else:
            run.extra_cov["tie"] = "translator succeeded but the regenerated definitions are no longer (provably) the model"
            try:        # keep the offending text for the replay
                with open(os.path.join(run.rundir, "C06_gen.v.broken"), "w") as f:
                    f.write(open(GEN).read())
            except OSError:
                pass
    else:
        run.extra_cov["tie"] = "correspondence-only (%s)" % msg
    rng = run.rng
    terms, cases = [], []

    # -- population construction ---------------------------------------------------------------
    fitclasses = {}

    def fitcls(w):
        key = tuple(w)
        if key not in fitclasses:
            fitclasses[key] = type("F%d" % len(fitclasses), (base.Fitness,), {"weights": tuple(float(x) for x in w)})
        return fitclasses[key]

    class Ind(list):
        pass

    # fit_attr route: in "alt" mode the selection criterion is stored under the attribute `alt`, the operators are called
    # with fit_attr="alt", and the attribute `fitness` holds a DECOY of the opposite ranking (an operator, or a helper it
    # delegates to, that falls back to `fitness` is judged against the criterion it was told to use)
    ATTR = ["fitness"]

    def fit(x):
        return getattr(x, ATTR[0])

    int_classes = {}

    def build(w, rows, sizes, cds=None, bigint=False):
        """bigint: integer weights and integer values shifted by 2**60 (same order, same ties; the weighted values are exact
        integers that a double cannot tell apart) -- only used where the operator compares fitnesses and does no arithmetic"""
        F = fitcls(w)
        bigint = bool(bigint and cds is None and all(Fr(x).denominator == 1 for x in w)
                      and all(Fr(v).denominator == 1 for r in rows for v in r))
        if bigint:
            kw_ = tuple(int(x) for x in w)
            if kw_ not in int_classes:
                int_classes[kw_] = type("FI%d" % len(int_classes), (base.Fitness,), {"weights": kw_})
            F = int_classes[kw_]
            run.extra_cov["populations_with_exact_integer_fitness_beyond_2**53"] = \
                run.extra_cov.get("populations_with_exact_integer_fitness_beyond_2**53", 0) + 1
        pop = []
        reassign = rng.random() < 0.3
        run.extra_cov["populations_with_reassigned_fitness_objects"] = run.extra_cov.get("populations_with_reassigned_fitness_objects", 0) + reassign
        for i, (vals, sz) in enumerate(zip(rows, sizes)):
            x = Ind([7] * sz)
            setattr(x, ATTR[0], F())
            if reassign:
                # the fitness object was evaluated before (other values, read once) and is assigned again while still valid
                fit(x).values = tuple(float(v) + 3.0 * ((i % 3) - 1) + 0.5 for v in vals)
                _ = fit(x).values, fit(x).wvalues, fit(x).valid
            fit(x).values = tuple(int(v) + 2 ** 60 for v in vals) if bigint else tuple(float(v) for v in vals)
            if cds is not None:
                fit(x).crowding_dist = cds[i]
            if ATTR[0] != "fitness":
                x.fitness = F()
                x.fitness.values = tuple(abs(float(v)) + 1.0 if j == 0 else -float(v) for j, v in enumerate(rows[len(rows) - 1 - i]))
            pop.append(x)
        return pop

    def snapshot(pop):
        return ([id(x) for x in pop],
                [(list(x), id(fit(x)), fit(x).wvalues, fit(x).values, id(x.fitness), x.fitness.wvalues,
                  getattr(fit(x), "crowding_dist", None), sorted(x.__dict__), sorted(fit(x).__dict__)) for x in pop])

    def cind(i, x):
        cdv = getattr(fit(x), "crowding_dist", None)
        cdt = "None" if cdv is None or cdv == float("inf") else "(Some %s)" % q(cdv)
        return "(mkind %s %s %s %s)" % (cnat(i), ql(fit(x).wvalues), cnat(len(x)), cdt)

    def cpop(pop):
        return clist([cind(i, x) for i, x in enumerate(pop)])

    def call(fn, args, **px):
        if ATTR[0] != "fitness":
            fn = functools.partial(fn, fit_attr=ATTR[0])
        proxy = ScriptedRandom(rng, **px)
        old1, old2 = selmod.random, emomod.random
        selmod.random = proxy
        emomod.random = proxy
        try:
            out = ("ok", fn(*args))
        except Exception as e:  # noqa
            out = ("raise", type(e).__name__)
        finally:
            selmod.random, emomod.random = old1, old2
        return out, proxy.log

    def coutcome(out, pop):
        if out[0] == "raise":
            return "(ORaise %s)" % EXN.get(out[1], "OtherError")
        ids = {id(x): i for i, x in enumerate(pop)}
        if not isinstance(out[1], list):
            return "(ORaise OtherError)"
        return "(OOk %s)" % cnatl([ids.get(id(x), 999) for x in out[1]])

    def uids(out, pop):
        ids = {id(x): i for i, x in enumerate(pop)}
        return [ids.get(id(x), 999) for x in out[1]] if out[0] == "ok" and isinstance(out[1], list) else out[1]

    searching = [False]

    def add(term, case, nontrivial=True):
        if searching[0]:            # counterexample search: oracle only
            run.note_case(case, nontrivial)
            return
        terms.append(term)
        cases.append(case)
        per_op = run.extra_cov.setdefault("cases_per_operator", {})
        per_op[case["op"]] = per_op.get(case["op"], 0) + 1
        run.note_case(case, nontrivial, sample=case if len(cases) % 211 == 1 else None)

    def key(w, row):
        return tuple(Fr(v) * Fr(x) for v, x in zip(row, w))

    # -- generic part of the statement: exact length, very objects, nothing modified -----------
    def common(case, pop, snap, out, explen):
        """returns the list of returned indices, or None when a violation was reported"""
        if out[0] == "raise":
            run.oracle_violation("%s raised %s on an in-scope input" % (case["op"], out[1]), case, observed=out[1])
            return None
        res = out[1]
        if not isinstance(res, list):
            run.oracle_violation("%s did not return a list" % case["op"], case, observed=repr(type(res)))
            return None
        ok = True
        if len(res) != explen:
            run.oracle_violation("%s returned %d individuals, expected %d" % (case["op"], len(res), explen), case,
                                 observed=uids(out, pop))
            ok = False
        ids = {id(x): i for i, x in enumerate(pop)}
        if any(id(x) not in ids for x in res):
            run.oracle_violation("%s returned an object that is not an element of the population (copy?)" % case["op"], case,
                                 observed=uids(out, pop))
            ok = False
        if snapshot(pop) != snap:
            run.oracle_violation("%s modified the population or an individual" % case["op"], case, observed=uids(out, pop))
            ok = False
        return [ids[id(x)] for x in res] if ok else None

    def not_evaluable(op):
        key_ = "oracle_clause_not_evaluable_" + op
        run.extra_cov[key_] = run.extra_cov.get(key_, 0) + 1

    WIDE = [False]      # counterexample search only: larger populations, individuals, tournaments, k

    def gen_pop(nmin=1, nmax=8, positive_first=False, nobj=None):
        if WIDE[0]:
            nmax = rng.choice([nmax, 2 * nmax, 4 * nmax])
        n = rng.randint(nmin, nmax)
        m = nobj or rng.choice([1, 1, 2, 2, 3, 4])
        w = [rng.choice([1, -1]) * rng.choice([1, 1, 1, 2, Fr(1, 2)]) for _ in range(m)]
        hi = rng.choice([1, 2, 3, 8])
        den = rng.choice([1, 1, 1, 2, 4])
        rows = [[Fr(rng.randint(-hi, hi), den) for _ in range(m)] for _ in range(n)]
        if n > 1 and rng.random() < 0.4:          # duplicate rows: ties between distinct objects
            for _ in range(rng.randint(1, n - 1)):
                rows[rng.randrange(n)] = list(rows[rng.randrange(n)])
        if positive_first:
            w[0] = abs(w[0])
            for r in rows:
                r[0] = Fr(rng.randint(1, max(1, hi)), den)
        sizes = [rng.randint(0, 12 if WIDE[0] else 4) for _ in range(n)]
        return w, rows, sizes

    def base_case(op, w, rows, sizes, **kw):
        c = {"op": op, "weights": [str(x) for x in w], "values": [[str(v) for v in r] for r in rows], "sizes": sizes}
        if ATTR[0] != "fitness":
            c["fit_attr"] = ATTR[0]
        c.update(kw)
        return c

    # ==========================================================================================
    # selRandom
    # ==========================================================================================
    def do_random(w, rows, sizes, k, inscope=True, **px):
        pop = build(w, rows, sizes)
        snap = snapshot(pop)
        out, log = call(tools.selRandom, (pop, k), **px)
        case = base_case("selRandom", w, rows, sizes, k=k, draws=jlog(log), observed=uids(out, pop))
        if inscope:
            common(case, pop, snap, out, k)
        add("CRandom %s %s %s %s" % (cpop(pop), cnat(k), cdraws(log), coutcome(out, pop)), case, k > 0 and len(pop) > 0)

    # ==========================================================================================
    # selBest / selWorst
    # ==========================================================================================
    def do_best(w, rows, sizes, k, worst=False):
        pop = build(w, rows, sizes, bigint=rng.random() < 0.15)
        snap = snapshot(pop)
        fn = tools.selWorst if worst else tools.selBest
        out, log = call(fn, (pop, k))
        case = base_case("selWorst" if worst else "selBest", w, rows, sizes, k=k, observed=uids(out, pop))
        n = len(pop)
        idx = common(case, pop, snap, out, min(k, n))
        if idx is not None:
            ks = [key(w, rows[i]) for i in idx]
            if len(set(idx)) != len(idx):
                run.oracle_violation("%s returned the same individual twice" % case["op"], case, observed=idx)
            good = all((a <= b) if worst else (a >= b) for a, b in zip(ks, ks[1:]))
            if not good:
                run.oracle_violation("%s result is not in fitness order" % case["op"], case, observed=idx)
            rest = [key(w, rows[i]) for i in range(n) if i not in idx]
            if ks and rest:
                bad = (min(rest) < max(ks)) if worst else (max(rest) > min(ks))
                if bad:
                    run.oracle_violation("%s: a non-selected individual is strictly %s than a selected one"
                                         % (case["op"], "worse" if worst else "better"), case, observed=idx)
        add("%s %s %s %s" % ("CWorst" if worst else "CBest", cpop(pop), cnat(k), coutcome(out, pop)), case, k > 0 and n > 1)

    # ==========================================================================================
    # selTournament
    # ==========================================================================================
    def do_tourn(w, rows, sizes, k, ts, inscope=True, **px):
        pop = build(w, rows, sizes, bigint=rng.random() < 0.15)
        snap = snapshot(pop)
        out, log = call(tools.selTournament, (pop, k, ts), **px)
        case = base_case("selTournament", w, rows, sizes, k=k, tournsize=ts, draws=jlog(log), observed=uids(out, pop))
        if inscope:
            idx = common(case, pop, snap, out, k)
            if idx is not None:
                n = len(pop)
                if len(log) != k * ts or any(d[0] != "choice" or d[1] != n for d in log):
                    # the aspirants of each tournament cannot be identified from the log: the clause is not evaluable
                    # here; the correspondence (which will disagree) decides
                    not_evaluable("selTournament")
                else:
                    for t in range(k):
                        asp = [d[2] for d in log[t * ts:(t + 1) * ts]]
                        if idx[t] not in asp or key(w, rows[idx[t]]) != max(key(w, rows[a]) for a in asp):
                            run.oracle_violation("selTournament: winner %d of tournament %d is not a best one of its aspirants %r"
                                                 % (idx[t], t, asp), case, observed=idx)
                            break
        add("CTourn %s %s %s %s %s" % (cpop(pop), cnat(k), cnat(ts), cdraws(log), coutcome(out, pop)), case,
            k > 0 and len(pop) > 1)

    # ==========================================================================================
    # selRoulette
    # ==========================================================================================
    def do_roulette(w, rows, sizes, k, inscope=True, wheel=None, **px):
        pop = build(w, rows, sizes)
        snap = snapshot(pop)
        out, log = call(tools.selRoulette, (pop, k), **px)
        case = base_case("selRoulette", w, rows, sizes, k=k, draws=jlog(log), observed=uids(out, pop), wheel=wheel)
        if inscope:
            idx = common(case, pop, snap, out, k)
            if idx is not None and wheel is not None:
                # the k spins visit every cell [m/S, (m+1)/S) of the unit interval exactly once (S = total fitness, an
                # integer): an individual with fitness f must be hit in exactly f cells, whatever the arrangement
                for i in range(len(pop)):
                    if idx.count(i) != rows[i][0]:
                        run.oracle_violation("selRoulette: individual %d (fitness %s of total %s) was selected on %d of %d equal "
                                             "cells of the unit interval" % (i, rows[i][0], wheel, idx.count(i), wheel), case,
                                             observed=idx)
                        break
        add("CRoulette %s %s %s %s %s" % (ql(w), cpop(pop), cnat(k), cdraws(log), coutcome(out, pop)), case,
            k > 0 and len(pop) > 1)

    # ==========================================================================================
    # selStochasticUniversalSampling
    # ==========================================================================================
    def sus_exact(rows, k, u):
        """all float operations of the operator are exact for this input"""
        def ex(x):
            try:
                return Fr(float(x)) == x
            except OverflowError:
                return False
        S = sum(r[0] for r in rows)
        if k == 0:
            return True
        d = S / k
        if not ex(d) or not ex(d * u):
            return False
        return all(ex(i * d) and ex(d * u + i * d) for i in range(k))

    def do_sus(w, rows, sizes, k, inscope=True, **px):
        pop = build(w, rows, sizes)
        snap = snapshot(pop)
        out, log = call(tools.selStochasticUniversalSampling, (pop, k), **px)
        case = base_case("selStochasticUniversalSampling", w, rows, sizes, k=k, draws=jlog(log), observed=uids(out, pop))
        u = log[0][1] if log and log[0][0] == "random" else None
        if rows and not sus_exact(rows, k, u if u is not None else Fr(0)):
            run.extra_cov["sus_inexact_skipped"] = run.extra_cov.get("sus_inexact_skipped", 0) + 1
            return
        if inscope and (u is None or u > 0):
            idx = common(case, pop, snap, out, k)
            if idx is not None and k > 0:
                S = sum(r[0] for r in rows)
                for i in range(len(pop)):
                    share = Fr(k) * rows[i][0] / S
                    if not (floor(share) <= idx.count(i) <= ceil(share)):
                        run.oracle_violation("selStochasticUniversalSampling: individual %d selected %d times, k*f/S = %s"
                                             % (i, idx.count(i), share), case, observed=idx)
                        break
        add("CSUS %s %s %s %s %s" % (ql(w), cpop(pop), cnat(k), cdraws(log), coutcome(out, pop)), case, k > 0 and len(pop) > 1)

    # ==========================================================================================
    # selDoubleTournament
    # ==========================================================================================
    def do_double(w, rows, sizes, k, fs, ps, ff, inscope=True, **px):
        pop = build(w, rows, sizes)
        snap = snapshot(pop)
        out, log = call(tools.selDoubleTournament, (pop, k, fs, float(ps), ff), **px)
        case = base_case("selDoubleTournament", w, rows, sizes, k=k, fitness_size=fs, parsimony_size=str(ps), fitness_first=ff,
                         draws=jlog(log), observed=uids(out, pop))
        if inscope:
            idx = common(case, pop, snap, out, k)
            if idx is not None:
                msg = double_oracle(w, rows, sizes, k, fs, ps, ff, log, idx)
                if msg:
                    run.oracle_violation("selDoubleTournament: " + msg, case, observed=idx)
        add("CDouble %s %s %s %s %s %s %s" % (cpop(pop), cnat(k), cnat(fs), q(ps), cbool(ff), cdraws(log), coutcome(out, pop)),
            case, k > 0 and len(pop) > 1)

    def double_oracle(w, rows, sizes, k, fs, ps, ff, log, idx):
        """the documented rule, evaluated on the recorded draws.  Fitness ties between distinct aspirants are
        not resolved here: any best aspirant is accepted."""
        n = len(rows)
        pos = [0]

        def take(kind):
            if pos[0] >= len(log) or log[pos[0]][0] != kind or (kind == "choice" and log[pos[0]][1] != n):
                raise LookupError("draw %d is not a %s on the population" % (pos[0], kind))
            d = log[pos[0]]
            pos[0] += 1
            return d[2] if kind == "choice" else d[1]

        def bests(asp):
            top = max(key(w, rows[a]) for a in asp)
            return set(a for a in asp if key(w, rows[a]) == top)

        def size_rule(a, b, u):
            """a, b: the two candidates in sampling order; returns the one the documented rule selects"""
            if sizes[a] > sizes[b]:
                a, b = b, a
                p = ps / 2
            elif sizes[a] == sizes[b]:
                p = Fr(1, 2)
            else:
                p = ps / 2
            return a if u < p else b

        try:
            for t in range(k):
                if ff:
                    c1 = bests([take("choice") for _ in range(fs)])
                    c2 = bests([take("choice") for _ in range(fs)])
                    u = take("random")
                    allowed = set(size_rule(a, b, u) for a in c1 for b in c2)
                    if idx[t] not in allowed:
                        return "selection %d is %d, the size rule on the two fitness-tournament winners allows %r" % (t, idx[t], sorted(allowed))
                else:
                    asp = []
                    for _ in range(fs):
                        a, b = take("choice"), take("choice")
                        asp.append(size_rule(a, b, take("random")))
                    if idx[t] not in bests(asp):
                        return "selection %d is %d, not a best one of the size-tournament winners %r" % (t, idx[t], asp)
            if pos[0] != len(log):
                not_evaluable("selDoubleTournament")
        except LookupError:
            not_evaluable("selDoubleTournament")
            return None
        return None

    # ==========================================================================================
    # lexicase family
    # ==========================================================================================
    def better(wc, a, b):           # a strictly better than b on a case with weight wc
        return a > b if wc > 0 else a < b

    def dominated_by(w, rows, y, x):
        """y is at least as good as x on every case and strictly better on one"""
        m = len(w)
        return all(not better(w[c], rows[x][c], rows[y][c]) for c in range(m)) and \
            any(better(w[c], rows[y][c], rows[x][c]) for c in range(m))

    def med(l):
        s = sorted(l)
        n = len(s)
        return s[n // 2] if n % 2 else (s[n // 2 - 1] + s[n // 2]) / 2

    def alive_trace(w, rows, order, epsfun):
        """epsilon-lexicase as published: candidates alive before each considered case"""
        cands = list(range(len(rows)))
        trace = []
        for c in order:
            if len(cands) <= 1:
                break
            vals = [rows[i][c] for i in cands]
            e = epsfun(vals)
            best = max(vals) if w[c] > 0 else min(vals)
            trace.append((c, list(cands), best, e))
            if w[c] > 0:
                cands = [i for i in cands if rows[i][c] >= best - e]
            else:
                cands = [i for i in cands if rows[i][c] <= best + e]
        return trace, cands

    def fexact(x):
        try:
            return Fr(float(x)) == x
        except OverflowError:
            return False

    def med_exact(l):
        """(numpy.median as a fraction, whether numpy computes it without rounding)"""
        s_ = sorted(l)
        n_ = len(s_)
        if n_ % 2:
            return s_[n_ // 2], True
        a_, b_ = s_[n_ // 2 - 1], s_[n_ // 2]
        return (a_ + b_) / 2, fexact(a_ + b_) and fexact((a_ + b_) / 2)

    def lex_arith_exact(kind, w, rows, eps, orders):
        """every float operation of selEpsilonLexicase / selAutomaticEpsilonLexicase (best -+ epsilon; median, absolute
        deviations, their median, best -+ MAD) is exact along the published procedure for these case orders.  By
        induction over the considered cases the float run then coincides with the exact one."""
        if kind == "plain":
            return True
        for order in orders:
            cands = list(range(len(rows)))
            for c in order:
                if len(cands) <= 1:
                    break
                vals = [rows[i][c] for i in cands]
                if kind == "eps":
                    e, ok = Fr(eps), True
                else:
                    mdn, ok = med_exact(vals)
                    devs = [abs(v - mdn) for v in vals]
                    ok = ok and all(fexact(d) for d in devs)
                    e, ok2 = med_exact(devs)
                    ok = ok and ok2
                best = max(vals) if w[c] > 0 else min(vals)
                bound = best - e if w[c] > 0 else best + e
                if not ok or not fexact(bound):
                    return False
                cands = [i for i in cands if (rows[i][c] >= bound if w[c] > 0 else rows[i][c] <= bound)]
        return True

    def coarse(rows, eps):
        vs = [v for r in rows for v in r] + ([Fr(eps)] if eps is not None else [])
        return all(v.denominator <= 1024 and abs(v) < 2 ** 20 for v in vs)

    def do_lex(kind, w, rows, sizes, k, eps=None, inscope=True, **px):
        pop = build(w, rows, sizes)
        snap = snapshot(pop)
        if kind == "plain":
            op, fn, args = "selLexicase", tools.selLexicase, (pop, k)
        elif kind == "eps":
            op, fn, args = "selEpsilonLexicase", tools.selEpsilonLexicase, (pop, k, float(eps))
        else:
            op, fn, args = "selAutomaticEpsilonLexicase", tools.selAutomaticEpsilonLexicase, (pop, k)
        out, log = call(fn, args, **px)
        case = base_case(op, w, rows, sizes, k=k, draws=jlog(log), observed=uids(out, pop))
        if eps is not None:
            case["epsilon"] = str(eps)
        if kind != "plain" and rows and not coarse(rows, eps):
            # near-tie values: the epsilon variants subtract / average floats; keep only runs whose arithmetic is exact
            m_ = len(w)
            shaped = len(log) % 2 == 0 and all(log[2 * t][0] == "shuffle" and sorted(log[2 * t][1]) == list(range(m_))
                                               for t in range(len(log) // 2))
            if not shaped or not lex_arith_exact(kind, w, rows, eps, [log[2 * t][1] for t in range(len(log) // 2)]):
                run.extra_cov["lexicase_inexact_skipped"] = run.extra_cov.get("lexicase_inexact_skipped", 0) + 1
                return
        if inscope:
            idx = common(case, pop, snap, out, k)
            if idx is not None:
                lex_oracle(kind, case, w, rows, k, eps, log, idx)
        if kind == "plain":
            t = "CLex %s %s %s %s %s" % (ql(w), cpop(pop), cnat(k), cdraws(log), coutcome(out, pop))
        elif kind == "eps":
            t = "CEps %s %s %s %s %s %s" % (ql(w), cpop(pop), cnat(k), q(eps), cdraws(log), coutcome(out, pop))
        else:
            t = "CAuto %s %s %s %s %s" % (ql(w), cpop(pop), cnat(k), cdraws(log), coutcome(out, pop))
        add(t, case, k > 0 and len(pop) > 1)

    def lex_oracle(kind, case, w, rows, k, eps, log, idx):
        n, m = len(rows), len(w)
        if len(log) != 2 * k or any(log[2 * t][0] != "shuffle" or sorted(log[2 * t][1]) != list(range(m)) or
                                    log[2 * t + 1][0] != "choice" for t in range(k)):
            # case order unknown: only the order-independent clauses can be evaluated
            not_evaluable(case["op"])
            for t in range(k):
                win = idx[t]
                for y in range(n):
                    if y != win and dominated_by(w, rows, y, win):
                        tol = Fr(0) if kind == "plain" else (Fr(eps) if kind == "eps" else None)
                        if tol is not None and any(better(w[c], rows[y][c], rows[win][c]) and abs(rows[y][c] - rows[win][c]) > tol
                                                   for c in range(m)):
                            run.oracle_violation("%s: winner %d of selection %d is dominated by %d, which is better by more than "
                                                 "epsilon on some case" % (case["op"], win, t, y), case, observed=idx)
                            return
            return
        for t in range(k):
            win = idx[t]
            order = log[2 * t][1]       # shuffled cases: position j holds old case order[j]; cases were 0..m-1
            if kind == "plain":
                epsfun = lambda vals: Fr(0)                                   # noqa
            elif kind == "eps":
                epsfun = lambda vals: Fr(eps)                                 # noqa
            else:
                epsfun = lambda vals: med([abs(v - med(vals)) for v in vals])  # noqa
            trace, alive = alive_trace(w, rows, order, epsfun)
            # (a) the winner is within epsilon of the best alive candidate at every considered case
            for (c, cands, best, e) in trace:
                if win not in cands or (better(w[c], best, rows[win][c]) and abs(best - rows[win][c]) > e):
                    run.oracle_violation("%s: winner %d of selection %d is beaten by more than epsilon (%s) on considered case %d "
                                         "among the candidates alive there %r" % (case["op"], win, t, e, c, cands), case, observed=idx)
                    return
            if win not in alive:
                run.oracle_violation("%s: winner %d of selection %d is not among the survivors %r" % (case["op"], win, t, alive),
                                     case, observed=idx)
                return
            # (b) the literal statement: never dominated case-by-case by another candidate
            doms = [y for y in range(n) if y != win and dominated_by(w, rows, y, win)]
            if doms:
                if kind == "plain":
                    run.oracle_violation("selLexicase: winner %d of selection %d is dominated case-by-case by %r" % (win, t, doms),
                                         case, observed=idx)
                    return
                # epsilon variants: by design a dominator may survive together with the winner as long as it is
                # within epsilon on every considered case.  Anything else is a violation.
                eps_at = {c: e for (c, cands, best, e) in trace}
                for y in doms:
                    within = all(c in eps_at and abs(rows[y][c] - rows[win][c]) <= eps_at[c] for c in range(m)
                                 if rows[y][c] != rows[win][c])
                    if within:
                        run.oracle_violation("%s: winner %d dominated case-by-case by %d, which is within epsilon on every case"
                                             % (case["op"], win, y), case, signature=SIG_EPS, observed=idx)
                    else:
                        run.oracle_violation("%s: winner %d of selection %d is dominated by %d, which is better by more than epsilon "
                                             "on some case" % (case["op"], win, t, y), case, observed=idx)
                        return

    # ==========================================================================================
    # selTournamentDCD
    # ==========================================================================================
    def do_dcd(w, rows, sizes, cds, k, inscope=True, **px):
        pop = build(w, rows, sizes, cds)
        snap = snapshot(pop)
        out, log = call(tools.selTournamentDCD, (pop, k), **px)
        case = base_case("selTournamentDCD", w, rows, sizes, k=k, crowding=[str(c) for c in cds], draws=jlog(log),
                         observed=uids(out, pop))
        if inscope:
            idx = common(case, pop, snap, out, k)
            if idx is not None:
                for i in set(idx):
                    if idx.count(i) > 2:
                        run.oracle_violation("selTournamentDCD returned individual %d %d times" % (i, idx.count(i)), case, observed=idx)
                        break
        add("CDCD %s %s %s %s" % (cpop(pop), cnat(k), cdraws(log), coutcome(out, pop)), case, k > 0)

    # ==========================================================================================
    # generation
    # ==========================================================================================
    T = run.thorough

    # ---- exhaustive tiny scopes ----
    grid = [Fr(0), Fr(1)]
    for n in range(0, 4):
        for m in ([1, 2] if n <= 2 or T else [1]):
            for flat in itertools.product(grid, repeat=n * m):
                rows = [list(flat[i * m:(i + 1) * m]) for i in range(n)]
                for w in itertools.product([1, -1], repeat=m):
                    sizes = [(i * 2 + 1) % 3 for i in range(n)]
                    for k in range(0, n + 2):
                        do_best(list(w), rows, sizes, k)
                        do_best(list(w), rows, sizes, k, worst=True)
    # tournaments: all draw scripts for n = 2..3, tournsize 1..2, k = 1
    for n in (2, 3):
        for flat in itertools.product(grid, repeat=n):
            rows = [[v] for v in flat]
            for ts in (1, 2):
                for script in itertools.product(range(n), repeat=ts):
                    do_tourn([1], rows, [0] * n, 1, ts, iscript=list(script))
                    do_tourn([-1], rows, [0] * n, 1, ts, iscript=list(script))
    # lexicase: n = 2..3 individuals, 2 cases over the grid, every case order and every final choice
    for n in (2, 3):
        for flat in itertools.product(grid, repeat=n * 2):
            rows = [list(flat[i * 2:(i + 1) * 2]) for i in range(n)]
            for w in ([1, 1], [1, -1], [-1, -1]):
                for perm in ([0, 1], [1, 0]):
                    for ch in range(n if T else 1):
                        do_lex("plain", w, rows, [0] * n, 1, pscript=[perm], iscript=[ch])
                        do_lex("eps", w, rows, [0] * n, 1, eps=Fr(0), pscript=[perm], iscript=[ch])
                        if ch == 0:
                            do_lex("eps", w, rows, [0] * n, 1, eps=Fr(1, 2), pscript=[perm], iscript=[ch + 1])
                            do_lex("auto", w, rows, [0] * n, 1, pscript=[perm], iscript=[ch + 1])

    # roulette / SUS: n <= 3, fitnesses in {1,2}, every 3-bit draw; k in {1,2,4} (spacing always dyadic)
    for n in (1, 2, 3):
        for f in itertools.product([1, 2], repeat=n):
            rows = [[Fr(x)] for x in f]
            for j in range(8):
                do_roulette([1], rows, [0] * n, 1, uscript=[Fr(j, 8)])
            for k in (1, 2, 4):
                for j in range(1, 8):
                    do_sus([1], rows, [0] * n, k, uscript=[Fr(j, 8)])
    # double tournament: two individuals, every choice script, draws on and around the thresholds
    for vals in itertools.product(grid, repeat=2):
        for szs in ([0, 1], [1, 1], [2, 1]):
            for ff in (True, False):
                for script in itertools.product(range(2), repeat=2):
                    for u in (Fr(0), Fr(1, 2), Fr(5, 8), Fr(3, 4), Fr(7, 8)):
                        for ps in ([Fr(3, 2)] if not T else [Fr(1), Fr(3, 2), Fr(7, 4), Fr(2)]):
                            do_double([1], [[v] for v in vals], szs, 1, 1, ps, ff, iscript=list(script), uscript=[u])
    # DCD: four individuals, k = 4, every first permutation
    for rows, cds in (([[Fr(0), Fr(1)], [Fr(1), Fr(0)], [Fr(1), Fr(1)], [Fr(0), Fr(0)]], [0.5, 0.5, float("inf"), 0.0]),
                      ([[Fr(1), Fr(1)]] * 4, [1.0, 1.0, 0.5, float("inf")])):
        for p1 in itertools.permutations(range(4)):
            for p2 in ([0, 1, 2, 3], [2, 0, 3, 1]) if not T else itertools.permutations(range(4)):
                for u in (Fr(1, 2), Fr(5, 8)):
                    do_dcd([1, -1], [list(r) for r in rows], [0] * 4, cds, 4, pscript=[list(p1), list(p2)], uscript=[u] * 4)

    # ---- near ties: values one ulp / 2**-40 relative / 1e-12 absolute apart, magnitudes 1e-6, 1, 1e6 ----
    # (order-based operators only: no sums are formed, every value is an exactly representable float and the model
    #  compares the exact rationals; the epsilon variants are kept when their few subtractions/averages are exact)
    def near_variants(b):
        return [b, math.nextafter(b, math.inf), math.nextafter(b, -math.inf), b * (1 + 2.0 ** -40), b * (1 - 2.0 ** -40),
                b + 1e-12, b - 1e-12]

    def near_pop(n, m, mag=None, w=None):
        mag = mag if mag is not None else rng.choice([1e-6, 1.0, 1.0, 1e6])
        w = w or [rng.choice([1, -1]) * rng.choice([1, 1, 2, Fr(1, 2)]) for _ in range(m)]
        bases = [mag * rng.choice([1.0, 3.0, 7.0]) for _ in range(m)]
        rows = []
        for _ in range(n):
            r = []
            for c in range(m):
                if rng.random() < 0.85:
                    r.append(Fr(rng.choice(near_variants(bases[c]))))
                else:
                    r.append(Fr(bases[c] * rng.choice([0.5, 2.0])))
            rows.append(r)
        return w, rows, [rng.randint(0, 3) for _ in range(n)]

    def tiny_eps(rows):
        b = float(max(abs(v) for r in rows for v in r))
        return Fr(rng.choice([0.0, b * 2.0 ** -41, b * 2.0 ** -39, math.ulp(b), 2 * math.ulp(b), 1e-12, b * 2.0 ** -30]))

    def near_tie_part(n_rounds, lex_exhaustive):
        # exhaustive: two/three individuals, two cases, every case order and every final choice
        for mag in (1.0, 1e-6, 1e6):
            a, b = 3.0 * mag, 7.0 * mag
            opts0 = [a, math.nextafter(a, math.inf), a * (1 + 2.0 ** -40), a + 1e-12]
            opts1 = [b, math.nextafter(b, -math.inf)]
            inds_ = [[Fr(x), Fr(y)] for x in opts0 for y in opts1]
            pops = [list(p_) for p_ in itertools.combinations(inds_, 2)]
            if lex_exhaustive:
                pops += [list(p_) for p_ in itertools.combinations(inds_, 3)][::3]
            for rows in pops:
                n = len(rows)
                for w in ([1, -1], [-1, 1], [1, 1]):
                    for perm in ([0, 1], [1, 0]):
                        for ch in range(n):
                            do_lex("plain", w, rows, [0] * n, 1, pscript=[perm], iscript=[ch])
                            if mag == 1.0 or lex_exhaustive:
                                do_lex("eps", w, rows, [0] * n, 1, eps=Fr(0), pscript=[perm], iscript=[ch])
                                do_lex("eps", w, rows, [0] * n, 1, eps=Fr(a * 2.0 ** -41), pscript=[perm], iscript=[ch])
                                do_lex("auto", w, rows, [0] * n, 1, pscript=[perm], iscript=[ch])
                    for k in (1, n):
                        do_best(w, rows, [0] * n, k)
                        do_best(w, rows, [0] * n, k, worst=True)
                    for script in itertools.product(range(n), repeat=2):
                        do_tourn(w, rows, [0] * n, 1, 2, iscript=list(script))
        # random near-tie populations through every order-based operator
        for _ in range(n_rounds):
            n, m = rng.randint(2, 8), rng.randint(1, 4)
            w, rows, sizes = near_pop(n, m)
            k = rng.choice([1, 2, n, n + 1])
            do_best(w, rows, sizes, k)
            do_best(w, rows, sizes, rng.randint(1, n), worst=True)
            do_tourn(w, rows, sizes, k, rng.choice([2, 3, 4]))
            do_double(w, rows, sizes, min(k, 3), rng.choice([2, 3]), rng.choice([Fr(1), Fr(3, 2), Fr(2)]), rng.random() < 0.5,
                      ubits=2)
            do_lex("plain", w, rows, sizes, min(k, 4))
            do_lex("eps", w, rows, sizes, min(k, 4), eps=Fr(0))
            do_lex("eps", w, rows, sizes, min(k, 4), eps=tiny_eps(rows))
            do_lex("auto", w, rows, sizes, min(k, 4))
            n4 = rng.choice([4, 8])
            w, rows, sizes = near_pop(n4, rng.randint(1, 3), w=None)
            w = [1 if x > 0 else -1 for x in w]
            if rng.random() < 0.6:
                pop0 = build(w, rows, [0] * n4)
                emomod.assignCrowdingDist(pop0)
                cds = [x.fitness.crowding_dist for x in pop0]
            else:
                cds = [rng.choice([0.5, math.nextafter(0.5, 1.0), float("inf")]) for _ in range(n4)]
            do_dcd(w, rows, [0] * n4, cds, 4 * rng.randint(1, n4 // 4), ubits=2)

    near_tie_part(run.scale(120, 1500), T)

    # ---- corpus: past misses, replayed first-class on every run (corpus/C06_*.json) ----
    for path in sorted(glob.glob(os.path.join(os.path.dirname(os.path.dirname(os.path.abspath(__file__))), "corpus", "C06_*.json"))):
        ent = json.load(open(path))
        cw = [Fr(float.fromhex(x)) for x in ent["weights_hex"]]
        crows = [[Fr(float.fromhex(v)) for v in r] for r in ent["values_hex"]]
        cn, cm = len(crows), len(cw)
        ckind = {"selLexicase": "plain", "selEpsilonLexicase": "eps", "selAutomaticEpsilonLexicase": "auto"}.get(ent["op"])
        if ckind is not None:
            ceps = Fr(float.fromhex(ent["epsilon_hex"])) if "epsilon_hex" in ent else None
            for perm in itertools.permutations(range(cm)):
                for ch in range(cn):
                    do_lex(ckind, cw, crows, [0] * cn, 1, eps=ceps, pscript=[list(perm)], iscript=[ch])
        elif ent["op"] in ("selBest", "selWorst"):
            for k in range(0, cn + 1):
                do_best(cw, crows, [0] * cn, k, worst=ent["op"] == "selWorst")
        elif ent["op"] == "selTournament":
            for script in itertools.product(range(cn), repeat=2):
                do_tourn(cw, crows, [0] * cn, 1, 2, iscript=list(script))

    # ---- known finding witness (replayed on every run) ----
    do_lex("eps", [1], [[Fr(1)], [Fr(3, 4)]], [0, 0], 1, eps=Fr(1, 2), pscript=[[0]], iscript=[1])

    # ---- SUS k = 0 (fixed defect) and boundary start ----
    do_sus([1], [[Fr(1)], [Fr(2)], [Fr(3)]], [0, 0, 0], 0)
    do_sus([1], [[Fr(1)], [Fr(1)]], [0, 0], 2, inscope=False, uscript=[Fr(0)])     # start exactly 0.0: hypothesis 0 < u

    def random_part(n_all, n_roul, n_sus, n_lex, n_dcd):
        # ---- random ----
        for _ in range(n_all):
            w, rows, sizes = gen_pop(nmin=rng.choice([0, 1, 1, 1, 1, 1, 1, 1]))
            n = len(rows)
            k = rng.choice([0, 1, 2, n, n + 1, rng.randint(0, n + 3)])
            do_random(w, rows, sizes, k, inscope=n > 0)
            do_best(w, rows, sizes, k)
            do_best(w, rows, sizes, rng.randint(0, n + 2), worst=True)
            ts = rng.choice([1, 1, 2, 2, 3, 4] + ([6, 7, 9] if WIDE[0] else []))
            do_tourn(w, rows, sizes, k, ts, inscope=n > 0)
            if rng.random() < 0.1:
                do_tourn(w, rows, sizes, k, 0, inscope=False)
            fs = rng.choice([1, 2, 2, 3] + ([7, 9] if WIDE[0] else []))
            ps = rng.choice([Fr(1), Fr(5, 4), Fr(3, 2), Fr(7, 4), Fr(2)])
            do_double(w, rows, sizes, min(k, 4), fs, ps, rng.random() < 0.5, inscope=n > 0, ubits=rng.choice([2, 3, 4]))
            if rng.random() < 0.08:
                do_double(w, rows, sizes, 1, rng.choice([0, 1]), rng.choice([Fr(1, 2), Fr(9, 4), Fr(1)]), rng.random() < 0.5, inscope=False)
            kind = rng.choice(["plain", "eps", "eps", "auto"])
            eps = rng.choice([Fr(0), Fr(1, 4), Fr(1, 2), Fr(1), Fr(2)]) if kind == "eps" else None
            do_lex(kind, w, rows, sizes, min(k, 5), eps=eps, inscope=n > 0)

        # roulette
        for _ in range(n_roul):
            mode = rng.random()
            if mode < 0.45:
                # full wheel: integer fitnesses with a power-of-two total S; spins (m + delta)/S, m = 0..S-1, shuffled
                S = rng.choice([4, 8, 8, 16, 32])
                n = rng.randint(1, min(8, S))
                cuts = sorted(rng.sample(range(1, S), n - 1))
                f = [b - a for a, b in zip([0] + cuts, cuts + [S])]
                m = rng.choice([1, 1, 2, 3])
                w = [rng.choice([1, 2, Fr(1, 2)])] + [rng.choice([1, -1]) for _ in range(m - 1)]
                rows = [[Fr(x)] + [Fr(rng.randint(0, 2)) for _ in range(m - 1)] for x in f]
                delta = rng.choice([Fr(0), Fr(0), Fr(1, 2), Fr(1, 4), Fr(7, 8)])
                us = [(Fr(mm) + delta) / S for mm in range(S)]
                rng.shuffle(us)
                do_roulette(w, rows, [0] * n, S, wheel=S, uscript=us)
            elif mode < 0.9:
                w, rows, sizes = gen_pop(positive_first=True)
                n = len(rows)
                S = sum(r[0] for r in rows)
                k = rng.choice([0, 1, 2, 3, n, n + 2])
                us = None
                if rng.random() < 0.5:     # exact interval boundaries (and quarter steps around them) when representable
                    cand = [Fr(j, 4) / S for j in range(0, int(S * 4))]
                    cand = [u for u in cand if u.denominator <= 1024 and u.denominator & (u.denominator - 1) == 0]
                    if cand:
                        us = [rng.choice(cand) for _ in range(k)]
                do_roulette(w, rows, sizes, k, uscript=us, ubits=rng.choice([1, 2, 3, 5]))
            else:
                w, rows, sizes = gen_pop(nmin=0)                      # out of scope: zero / negative / minimised fitnesses
                do_roulette(w, rows, sizes, rng.randint(0, 4), inscope=False, ubits=rng.choice([1, 3]))

        # SUS
        for _ in range(n_sus):
            mode = rng.random()
            if mode < 0.85:
                w, rows, sizes = gen_pop(positive_first=True)
                n = len(rows)
                k = rng.choice([0, 1, 2, 3, 4, 5, 6, 8, n, 2 * n] + ([48, 64] if WIDE[0] else []))
                if k > 0:
                    # make the spacing S/k exactly representable: S a multiple of the odd part of k (times a power of two)
                    odd = k
                    while odd % 2 == 0:
                        odd //= 2
                    S = sum(r[0] for r in rows)
                    den = S.denominator
                    r_ = (S * den) % odd
                    if r_ != 0:
                        rows[rng.randrange(n)][0] += Fr(odd - r_, den)
                ub = rng.choice([1, 2, 3, 4])
                us = None
                if k > 0 and rng.random() < 0.4:
                    # start draws that put a pointer exactly on a boundary between two individuals, or just around it
                    S = sum(r[0] for r in rows)
                    d = S / k
                    cum = rng.choice(sorted(set(sum(sorted([r[0] for r in rows], reverse=True)[:j]) for j in range(1, n + 1))))
                    frac = (cum / d) % 1
                    cand = [u for u in (frac, frac + Fr(1, 16), frac - Fr(1, 16)) if 0 < u < 1 and u.denominator <= 64 and
                            u.denominator & (u.denominator - 1) == 0]
                    if cand:
                        us = [rng.choice(cand)]
                do_sus(w, rows, sizes, k, uscript=us, ubits=ub, allow_zero=False)
            elif mode < 0.93:
                w, rows, sizes = gen_pop(positive_first=True, nmax=4)
                do_sus(w, rows, sizes, rng.choice([1, 2, 4]), inscope=False, uscript=[Fr(0)])
            else:
                w, rows, sizes = gen_pop(nmin=0, nmax=4)              # out of scope (may raise IndexError)
                do_sus(w, rows, sizes, rng.choice([0, 1, 2, 4]), inscope=False, ubits=2)

        # lexicase: more objectives, more ties
        for _ in range(n_lex):
            n = rng.randint(1, 24 if WIDE[0] else 8)
            m = rng.randint(1, 4)
            w = [rng.choice([1, -1]) * rng.choice([1, 1, 2, Fr(1, 2)]) for _ in range(m)]
            den = rng.choice([1, 2, 4])
            hi = rng.choice([1, 2, 4])
            rows = [[Fr(rng.randint(0, hi), den) for _ in range(m)] for _ in range(n)]
            k = rng.randint(0, 4)
            do_lex("plain", w, rows, [0] * n, k)
            do_lex("eps", w, rows, [0] * n, k, eps=rng.choice([Fr(0), Fr(1, 4), Fr(1, 2), Fr(1), Fr(3)]))
            do_lex("auto", w, rows, [0] * n, k)
        do_lex("plain", [1], [], [], 1, inscope=False)
        do_lex("plain", [1], [], [], 0, inscope=False)

        # DCD
        for _ in range(n_dcd):
            n = rng.choice([0, 1, 2, 3, 4, 4, 5, 6, 7, 8, 8, 12])
            m = rng.randint(1, 3)
            w = [rng.choice([1, -1]) for _ in range(m)]
            rows = [[Fr(rng.randint(0, 2)) for _ in range(m)] for _ in range(n)]
            mode = rng.random()
            if mode < 0.5:
                pop0 = build(w, rows, [0] * n)
                emomod.assignCrowdingDist(pop0)
                cds = [x.fitness.crowding_dist for x in pop0]
            else:
                cds = [rng.choice([0.0, 0.5, 1.0, float("inf")]) for _ in range(n)]
            if rng.random() < 0.75:
                k = 4 * rng.randint(0, n // 4)
                do_dcd(w, rows, [0] * n, cds, k, inscope=True, ubits=rng.choice([1, 2, 4]))
            else:
                do_dcd(w, rows, [0] * n, cds, rng.randint(0, n + 2), inscope=False, ubits=1)


    random_part(run.scale(220, 4000), run.scale(200, 3000), run.scale(260, 4000), run.scale(150, 2500), run.scale(200, 3000))

    # fit_attr route: the same generators with the criterion under another attribute and a decoy under `fitness`
    # (operators without a fit_attr parameter -- selRandom, lexicase, DCD -- keep the default route)
    def default_route(f):
        def g(*a, **k):
            old = ATTR[0]
            ATTR[0] = "fitness"
            try:
                return f(*a, **k)
            finally:
                ATTR[0] = old
        return g
    do_random, do_lex, do_dcd = default_route(do_random), default_route(do_lex), default_route(do_dcd)
    ATTR[0] = "alt"
    try:
        random_part(run.scale(70, 1200), run.scale(60, 900), run.scale(80, 1200), 0, 0)
    finally:
        ATTR[0] = "fitness"
    run.extra_cov["fit_attr_route_cases"] = sum(1 for c in cases if c.get("fit_attr"))

    def search(r):
        """only runs when an obligation or the correspondence broke and the regular cases gave no failing input:
        a larger oracle-only sweep for a concrete input on which the implementation violates the statement"""
        searching[0] = True
        try:
            random_part(*[run.scale(4, 10) * x for x in (220, 200, 260, 150, 200)])
            if not r.oracle_viol:
                # a regenerated definition that is no longer the model may differ from it only beyond the sizes the
                # regular generators reach (a threshold on the population size, the tournament size, len(ind), k)
                WIDE[0] = True
                random_part(*[run.scale(2, 5) * x for x in (220, 100, 130, 150, 50)])
        finally:
            searching[0] = False
            WIDE[0] = False
    run.search_fn = search

    # the model and (when they check) the regenerated definitions are evaluated on every case
    reqs = ["From DV Require Import Gen.C06_gen."] if gen_check != "check" else []
    failing = run.correspond("all", "C06", terms, cases, check=gen_check, requires=reqs)
    if gen_check == "check_both" and (failing or run.corr_groups.get("all", {}).get("errors")):
        # which of the two disagrees with the implementation?
        traces = run.traces
        try:
            sub = failing[:200]
            bad_model = run.correspond("diagnosis_model", "C06", [terms[i] for i in sub], [cases[i] for i in sub], check="check")
            bad_gen = run.correspond("diagnosis_regenerated", "C06", [terms[i] for i in sub], [cases[i] for i in sub],
                                     check="check_gen", requires=reqs)
            run.notes.append("diagnosis: of %d disagreeing cases the hand model disagrees on %d, the regenerated definitions on %d"
                             % (len(sub), len(bad_model), len(bad_gen)))
        except Exception as e:  # noqa
            run.notes.append("diagnosis step failed: %r" % (e,))
        # the diagnosis repeats cases that are already counted
        run.traces = traces
        for g in ("diagnosis_model", "diagnosis_regenerated"):
            run.corr_groups.pop(g, None)
        run.disagreements = [d for d in run.disagreements if d.get("group") not in ("diagnosis_model", "diagnosis_regenerated")]
    elif gen_check == "check" and ok:
        # translated but not provably the model: do the regenerated definitions at least agree with the implementation?
        traces = run.traces
        try:
            rc, out = vlib.coqc_file(GEN, cwd=vlib.COQ)
            if rc == 0:
                bad_gen = run.correspond("diagnosis_regenerated", "C06", terms, cases, check="check_gen",
                                         requires=["From DV Require Import Gen.C06_gen."])
                g = run.corr_groups.pop("diagnosis_regenerated", {})
                run.disagreements = [d for d in run.disagreements if d.get("group") != "diagnosis_regenerated"]
                run.notes.append("diagnosis: the regenerated definitions (not provably equal to the model) disagree with the "
                                 "implementation on %d of %d cases (errors: %s)" % (len(bad_gen), len(terms), g.get("errors")))
            else:
                run.notes.append("diagnosis: the regenerated definitions do not compile: " + out[-400:])
        except Exception as e:  # noqa
            run.notes.append("diagnosis step failed: %r" % (e,))
        run.traces = traces
